#!/venv/bin/python
"""Evaluate one seeded change:  tools/eval_mutant.py <dir with patch.diff, demo.py, meta.json> [--keep-as NAME]

1. scratch worktree of /repo HEAD outside /repo and /verif; apply patch.diff
2. repository test suite must stay green (111 passed); demo.py must exit 1 with the change, 0 without
3. the property's quick check (DESPER_REPO=<worktree>, evidence/replays redirected) must exit 1 with a VIOLATION line
Prints one JSON line with the verdicts; copies the change to /verif/seeded/<NAME>/ when --keep-as is given and 1-2 hold.
"""
import json
import os
import shutil
import subprocess
import sys
import tempfile
import time

VERIF = os.path.dirname(os.path.dirname(os.path.abspath(__file__)))


def sh(cmd, cwd=None, env=None, timeout=1500):
    p = subprocess.run(cmd, cwd=cwd, env=env, stdout=subprocess.PIPE, stderr=subprocess.STDOUT, text=True, timeout=timeout)
    return p.returncode, p.stdout


def main():
    d = os.path.abspath(sys.argv[1])
    keep = sys.argv[sys.argv.index('--keep-as') + 1] if '--keep-as' in sys.argv else None
    props = sys.argv[sys.argv.index('--props') + 1].split(',') if '--props' in sys.argv else None
    meta = json.load(open(os.path.join(d, 'meta.json')))
    prop = meta['property']
    wt = tempfile.mkdtemp(prefix='ev-%s-' % prop)
    os.rmdir(wt)
    out = {'dir': d, 'property': prop}
    try:
        rc, o = sh(['git', '-C', '/repo', 'worktree', 'add', '-q', '--detach', wt, 'HEAD'])
        assert rc == 0, o
        demo = os.path.join(d, 'demo.py')
        rc, o = sh(['/venv/bin/python', demo, wt], timeout=120)
        out['demo_clean'] = rc
        rc, o = sh(['git', '-C', wt, 'apply', os.path.join(d, 'patch.diff')])
        if rc != 0:      # the tree moved on since the change was made (later fix: commits): try a three-way merge
            rc, o = sh(['git', '-C', wt, 'apply', '--3way', os.path.join(d, 'patch.diff')])
            out['applied_3way'] = rc == 0
        out['applies'] = rc == 0
        if rc != 0:
            out['apply_err'] = o[-300:]
            print(json.dumps(out))
            return
        rc, o = sh(['/venv/bin/python', '-m', 'pytest', '-q', '-p', 'no:cacheprovider', '-x'], cwd=wt, timeout=600)
        out['tests'] = o.strip().split('\n')[-1]
        out['tests_green'] = rc == 0 and '111 passed' in o
        rc, o = sh(['/venv/bin/python', demo, wt], timeout=120)
        out['demo_mutant'] = rc
        scratch = tempfile.mkdtemp(prefix='ev-out-')
        env = dict(os.environ, DESPER_REPO=wt, VERIF_EVIDENCE_DIR=scratch, VERIF_REPLAY_DIR=scratch)
        out['checks'] = {}
        for pr in (props or [prop]):
            t = time.time()
            rc, o = sh([os.path.join(VERIF, 'check'), pr, '--tier', 'quick'], cwd=VERIF, env=env)
            viol = [l for l in o.split('\n') if l.startswith('VIOLATION')]
            out['checks'][pr] = {'exit': rc, 'violation_lines': len(viol), 'first': (viol[0][:260] if viol else o.strip().split('\n')[-1][:260]),
                                 'wall_s': round(time.time() - t, 1)}
        shutil.rmtree(scratch, ignore_errors=True)
        out['detected'] = out['checks'][prop]['exit'] == 1 and out['checks'][prop]['violation_lines'] > 0
        if keep and out['tests_green'] and out['demo_mutant'] == 1 and out['demo_clean'] == 0:
            dst = os.path.join(VERIF, 'seeded', keep)
            os.makedirs(dst, exist_ok=True)
            # the change as a plain patch against the /repo HEAD it was confirmed on (re-based if later fix: commits moved the lines)
            rc2, rebased = sh(['git', '-C', wt, 'diff', 'HEAD'])      # (HEAD: a 3-way apply leaves the change staged)
            original = open(os.path.join(d, 'patch.diff')).read()
            open(os.path.join(dst, 'patch.diff'), 'w').write(rebased if rc2 == 0 and rebased.strip() else original)
            if os.path.abspath(d) != os.path.abspath(dst):
                shutil.copy(demo, dst)
            meta['confirmed'] = {'tests': out['tests'], 'demo_exit_with_change': out['demo_mutant'], 'demo_exit_without_change': out['demo_clean'],
                                 'ran': 'tools/eval_mutant.py: scratch worktree of /repo HEAD, git apply, pytest, demo.py, ./check %s --tier quick with DESPER_REPO=<worktree>' % prop,
                                 'repo_head': sh(['git', '-C', '/repo', 'rev-parse', '--short', 'HEAD'])[1].strip(),
                                 'check_results': out['checks'], 'detected_by_own_property_check': out['detected'],
                                 'detected_by_checks': sorted(k for k, v in out['checks'].items() if v['exit'] == 1 and v['violation_lines'] > 0)}
            json.dump(meta, open(os.path.join(dst, 'meta.json'), 'w'), indent=1)
        print(json.dumps(out))
    finally:
        sh(['git', '-C', '/repo', 'worktree', 'remove', '--force', wt])
        shutil.rmtree(wt, ignore_errors=True)


if __name__ == '__main__':
    main()

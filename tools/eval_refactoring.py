#!/venv/bin/python
"""False-alarm audit: tools/eval_refactoring.py <dir with patch.diff, selfcheck.py, meta.json> C03,C04,...
Applies a behaviour-preserving refactoring in a scratch worktree, confirms tests + its self-check, then runs the given
quick checks against it: every one must exit 0 (no VIOLATION, no machinery error)."""
import json
import os
import shutil
import subprocess
import sys
import tempfile
import time

VERIF = os.path.dirname(os.path.dirname(os.path.abspath(__file__)))


def sh(cmd, cwd=None, env=None, timeout=1800):
    p = subprocess.run(cmd, cwd=cwd, env=env, stdout=subprocess.PIPE, stderr=subprocess.STDOUT, text=True, timeout=timeout)
    return p.returncode, p.stdout


d = os.path.abspath(sys.argv[1])
props = sys.argv[2].split(',')
out = {'dir': d}
wt = tempfile.mkdtemp(prefix='rf-')
os.rmdir(wt)
try:
    sh(['git', '-C', '/repo', 'worktree', 'add', '-q', '--detach', wt, 'HEAD'])
    rc, o = sh(['git', '-C', wt, 'apply', os.path.join(d, 'patch.diff')])
    if rc != 0:
        rc, o = sh(['git', '-C', wt, 'apply', '--3way', os.path.join(d, 'patch.diff')])
    out['applies'] = rc == 0
    if rc == 0:
        rc, o = sh(['/venv/bin/python', '-m', 'pytest', '-q', '-p', 'no:cacheprovider'], cwd=wt, timeout=600)
        out['tests'] = o.strip().split('\n')[-1]
        rc, o = sh(['/venv/bin/python', os.path.join(d, 'selfcheck.py'), wt], timeout=300)
        out['selfcheck_exit'] = rc
        scratch = tempfile.mkdtemp(prefix='rf-out-')
        env = dict(os.environ, DESPER_REPO=wt, VERIF_EVIDENCE_DIR=scratch, VERIF_REPLAY_DIR=scratch)
        out['checks'] = {}
        for pr in props:
            t = time.time()
            rc, o = sh([os.path.join(VERIF, 'check'), pr, '--tier', 'quick'], cwd=VERIF, env=env)
            lines = [l for l in o.split('\n') if l.startswith(('VIOLATION', 'MACHINERY', 'OK'))]
            detail = ''
            if rc == 1:
                f = [l for l in o.split('\n') if l.startswith('VIOLATION')][0].split('replay=')[1].split()[0]
                try:
                    detail = json.dumps(json.load(open(f))['detail'], default=str)[:1500]
                except Exception:
                    pass
            out['checks'][pr] = {'exit': rc, 'first': (lines[0][:200] if lines else o.strip()[-200:]), 'wall_s': round(time.time() - t, 1), 'detail': detail}
        shutil.rmtree(scratch, ignore_errors=True)
        out['false_alarms'] = [p for p, v in out['checks'].items() if v['exit'] != 0]
    print(json.dumps(out))
finally:
    sh(['git', '-C', '/repo', 'worktree', 'remove', '--force', wt])
    shutil.rmtree(wt, ignore_errors=True)

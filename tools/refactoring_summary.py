#!/venv/bin/python
"""refactorings/SUMMARY.md from the JSON lines written by tools/eval_refactoring.py."""
import json
import os
import sys

VERIF = os.path.dirname(os.path.dirname(os.path.abspath(__file__)))
rows = []
for line in open(sys.argv[1]):
    line = line.strip()
    if line.startswith('{'):
        rows.append(json.loads(line))
out = ['# False-alarm audit: behaviour-preserving refactorings', '',
       'Each directory holds `patch.diff` (against /repo HEAD), `meta.json` (what was restructured and why behaviour is',
       'preserved) and `selfcheck.py` (the author\'s own differential check). Produced by sub-agents that saw only the module,',
       'its docstrings and the property statements. `tools/audit_refactorings.sh` re-runs the audit.', '',
       '| refactoring | applies | tests | self-check | quick checks run | alarms |', '|---|---|---|---|---|---|']
alarms = 0
for r in rows:
    n = os.path.basename(r['dir'].rstrip('/'))
    ch = r.get('checks', {})
    fa = r.get('false_alarms', [])
    alarms += len(fa)
    out.append('| %s | %s | %s | %s | %s | %s |' % (n, r.get('applies'), (r.get('tests') or '').split(' in ')[0], r.get('selfcheck_exit'),
                                                  ' '.join(sorted(ch)), ' '.join(fa) or '—'))
out += ['', '%d refactorings, %d checks run, %d alarms.' % (len(rows), sum(len(r.get('checks', {})) for r in rows), alarms), '']
for r in rows:
    n = os.path.basename(r['dir'].rstrip('/'))
    try:
        m = json.load(open(os.path.join(VERIF, 'refactorings', n, 'meta.json')))
        out.append('* **%s** — %s' % (n, m.get('summary', '')))
    except Exception:
        pass
open(os.path.join(VERIF, 'refactorings', 'SUMMARY.md'), 'w').write('\n'.join(out) + '\n')
print('%d refactorings, %d alarms' % (len(rows), alarms))

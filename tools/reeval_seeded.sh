#!/bin/sh
# Re-confirm seeded changes against the current /repo HEAD and the current checks, refreshing seeded/<id>/meta.json.
# usage: tools/reeval_seeded.sh <out.jsonl> <id-prefix>...   e.g. tools/reeval_seeded.sh /tmp/r.jsonl C01 C02
cd "$(dirname "$0")/.." || exit 2
out=$1; shift
for p in "$@"; do
  for d in seeded/$p-*/; do
    [ -f "$d/patch.diff" ] || continue
    n=$(basename "$d")
    tools/eval_mutant.py "$d" --keep-as "$n" >> "$out" 2>> "$out.err"
  done
done
echo DONE >> "$out"
/venv/bin/python tools/seeded_summary.py > /dev/null 2>&1

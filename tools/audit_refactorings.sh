#!/bin/sh
# False-alarm audit: every behaviour-preserving refactoring kept in /verif/refactorings is applied in a scratch worktree
# and the quick checks of the properties anchored in the refactored module must all stay silent (exit 0).
# usage: tools/audit_refactorings.sh [out.jsonl]     (about 2 h on an idle 16-core machine)
cd "$(dirname "$0")/.." || exit 2
out=${1:-refactorings/results.jsonl}
: > "$out"
props() {
  case $1 in
    events-*) echo C03,C04,C10 ;;
    world-*) echo C01,C02,C05,C06,C07,C19,C10 ;;
    coroutines-*) echo C08,C09 ;;
    tree-*) echo C11,C12,C17 ;;
    loop-*) echo C13,C14 ;;
    loader-*) echo C15,C16 ;;
  esac
}
for d in refactorings/*/; do
  n=$(basename "$d")
  tools/eval_refactoring.py "$d" "$(props "$n")" >> "$out" 2>> refactorings/err.log
done
/venv/bin/python tools/refactoring_summary.py "$out"

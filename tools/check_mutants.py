#!/venv/bin/python
"""Re-run every builder-made mutant (mutants/<Cxx>-<name>.diff) against the current /repo HEAD:
scratch worktree, git apply (3-way fallback), test suite must stay green, ./check <Cxx> --tier quick must alarm.
Writes mutants/SUMMARY.md."""
import glob
import os
import shutil
import subprocess
import sys
import tempfile

VERIF = os.path.dirname(os.path.dirname(os.path.abspath(__file__)))


def sh(cmd, cwd=None, env=None, timeout=1500):
    p = subprocess.run(cmd, cwd=cwd, env=env, stdout=subprocess.PIPE, stderr=subprocess.STDOUT, text=True, timeout=timeout)
    return p.returncode, p.stdout


rows = []
only = sys.argv[1:]
for f in sorted(glob.glob(os.path.join(VERIF, 'mutants', '*.diff'))):
    name = os.path.basename(f)[:-5]
    prop = name.split('-')[0]
    if only and prop not in only:
        continue
    wt = tempfile.mkdtemp(prefix='mu-%s-' % prop)
    os.rmdir(wt)
    try:
        sh(['git', '-C', '/repo', 'worktree', 'add', '-q', '--detach', wt, 'HEAD'])
        rc, o = sh(['git', '-C', wt, 'apply', f])
        if rc != 0:
            rc, o = sh(['git', '-C', wt, 'apply', '--3way', f])
        if rc != 0:
            rows.append((name, prop, 'does not apply to the current HEAD (superseded by later fix: commits)', '', ''))
            continue
        rc, o = sh(['/venv/bin/python', '-m', 'pytest', '-q', '-p', 'no:cacheprovider', '-x'], cwd=wt, timeout=600)
        green = rc == 0 and '111 passed' in o
        scratch = tempfile.mkdtemp(prefix='mu-out-')
        env = dict(os.environ, DESPER_REPO=wt, VERIF_EVIDENCE_DIR=scratch, VERIF_REPLAY_DIR=scratch)
        rc, o = sh([os.path.join(VERIF, 'check'), prop, '--tier', 'quick'], cwd=VERIF, env=env)
        viol = [l for l in o.split('\n') if l.startswith('VIOLATION')]
        shutil.rmtree(scratch, ignore_errors=True)
        rows.append((name, prop, 'tests green' if green else 'TESTS FAIL: ' + o.strip().split('\n')[-1][:60],
                     'caught' if rc == 1 and viol else 'MISSED (exit %d)' % rc, (viol[0][:150] if viol else '').replace('|', '/')))
        print(rows[-1][:4], flush=True)
    finally:
        sh(['git', '-C', '/repo', 'worktree', 'remove', '--force', wt])
        shutil.rmtree(wt, ignore_errors=True)
if not only:
    with open(os.path.join(VERIF, 'mutants', 'SUMMARY.md'), 'w') as fh:
        fh.write('# Builder-made mutants re-run against the current /repo HEAD\n\n| mutant | property | tests | verdict | first line |\n|---|---|---|---|---|\n')
        for r in rows:
            fh.write('| %s |\n' % ' | '.join(r))
print('%d mutants, %d caught, %d not applicable' % (len(rows), sum(1 for r in rows if r[3] == 'caught'), sum(1 for r in rows if not r[3])))

#!/venv/bin/python
"""Regenerate seeded/SUMMARY.md from seeded/*/meta.json."""
import glob
import json
import os

VERIF = os.path.dirname(os.path.dirname(os.path.abspath(__file__)))
rows = []
for m in sorted(glob.glob(os.path.join(VERIF, 'seeded', '*', 'meta.json'))):
    d = json.load(open(m))
    c = d.get('confirmed', {})
    name = os.path.basename(os.path.dirname(m))
    res = c.get('check_results', {}).get(d['property'], {})
    rows.append((name, d['property'], d.get('summary', '').replace('|', '/'), d.get('needs', '').replace('|', '/'),
                 'caught' if c.get('detected_by_own_property_check') else ('caught by ' + '/'.join(c.get('detected_by_checks', [])) + ' only' if c.get('detected_by_checks') else 'MISSED'),
                 res.get('first', '')[:160].replace('|', '/'), c.get('repo_head', '') + (' — ' + d['note'].replace('|', '/') if d.get('note') else '')))
with open(os.path.join(VERIF, 'seeded', 'SUMMARY.md'), 'w') as f:
    f.write('# Seeded changes (made by independent sub-agents from the property text only)\n\n')
    f.write('Each: 111 tests green with the change, demo.py exits 1 with it and 0 without; verdict of `./check <prop> --tier quick` '
            'run against the changed tree by tools/eval_mutant.py.\n\n')
    n = sum(1 for r in rows if r[4] == 'caught')
    n2 = sum(1 for r in rows if r[4].startswith('caught by'))
    f.write('%d of %d caught by their own property\'s check; %d more only by the check of another property.\n\n' % (n, len(rows), n2))
    f.write('| id | property | change | needs | verdict | first line of the check | /repo HEAD |\n|---|---|---|---|---|---|---|\n')
    for r in rows:
        f.write('| %s |\n' % ' | '.join(r))
print('%d/%d caught' % (n, len(rows)))

#!/bin/sh
# tools/run_all.sh [tier] [seed]  — run every registered check once; one status line per property
TIER=${1:-quick}; SEED=${2:-20260926}
cd "$(dirname "$0")/.."
for p in C01 C02 C03 C04 C05 C06 C07 C08 C09 C10 C11 C12 C13 C14 C15 C16 C17 C18 C19 C20; do
  s=$(date +%s)
  out=$(VERIF_SEED=$SEED ./check $p --tier $TIER 2>&1 | grep -E "^(OK|VIOLATION|MACHINERY|KNOWN)" | head -3 | cut -c1-200)
  rc=$?
  e=$(date +%s)
  echo "$p $((e-s))s $out"
done

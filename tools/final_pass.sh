#!/bin/sh
# Final consistency pass, two streams in parallel (8 workers each):
#   every seeded change re-confirmed against the current /repo HEAD and the current checks (seeded/*/meta.json, SUMMARY.md),
#   the false-alarm audit (refactorings/SUMMARY.md), the builder mutants (mutants/SUMMARY.md).
cd "$(dirname "$0")/.." || exit 2
out=${1:-/tmp/final}
mkdir -p "$out"
export VERIF_WORKERS=8
( tools/reeval_seeded.sh "$out/seeded_a.jsonl" C01 C02 C03 C04 C05 C06 C07 C08 C09 C10; tools/audit_refactorings.sh "$out/refactorings.jsonl" > "$out/refactorings.log" 2>&1 ) &
( tools/reeval_seeded.sh "$out/seeded_b.jsonl" C11 C12 C13 C14 C15 C16 C17 C18 C19 C20; tools/check_mutants.py > "$out/mutants.log" 2>&1 ) &
wait
/venv/bin/python tools/seeded_summary.py > "$out/seeded_summary.log" 2>&1
echo DONE > "$out/DONE"

"""Pipeline A: walk behaviours of the specification on the real objects and compare after every step.

An *adapter* binds one TLA+ module to the real classes:

    adapter.reset(init_state)                 fresh real objects for this behaviour
    adapter.step(name, args, pre) -> obs      perform the call; obs = {facet: observed value}
    adapter.expect(name, args, pre, post)     {facet: expected value | predicate(observed) -> bool}

A step is accepted when some successor `post` of the current model state under the same action label
explains every facet.  Facets are grouped by property: `own` facets decide the verdict of the property
under check, a divergence limited to foreign facets abandons the path (DESIGN 3.2 item 5).
"""
import gc
import json
import multiprocessing as mp
import os
import random
import resource
import signal
import time
import traceback

from . import tla


class Timeout(BaseException):
    pass


def _alarm(signum, frame):
    raise Timeout()


def guarded(fn, seconds=3.0):
    """Run fn() under a watchdog; returns (value, exc). Timeout is reported as exc.
    The limit is `seconds` of CPU time of this process (a call that does not come back burns CPU: the library never
    blocks) plus a generous wall-clock limit against anything that does block: on a loaded machine a process may not
    be scheduled for seconds, which must never look like a hang of the code under test."""
    old = signal.signal(signal.SIGALRM, _alarm)
    oldv = signal.signal(signal.SIGVTALRM, _alarm)
    signal.setitimer(signal.ITIMER_REAL, max(30.0, seconds * 10))
    signal.setitimer(signal.ITIMER_VIRTUAL, seconds)
    try:
        return fn(), None
    except Timeout as ex:
        return None, ex
    except BaseException as ex:  # noqa: the code under test may raise anything
        ex.__traceback__ = None     # frames would keep handlers alive
        return None, ex
    finally:
        signal.setitimer(signal.ITIMER_VIRTUAL, 0)
        signal.setitimer(signal.ITIMER_REAL, 0)
        signal.signal(signal.SIGVTALRM, oldv)
        signal.signal(signal.SIGALRM, old)


def exc_name(ex):
    return None if ex is None else type(ex).__name__


class _Skip:
    """Observed value of a white-box facet whose private attributes no longer have the anchored shape: the facet is
    not compared (a refactoring of private state is never an alarm); recorded in the statistics."""
    def __repr__(self):
        return 'SKIP'


SKIP = _Skip()


def _eq(obs, exp):
    if obs is SKIP:
        return True
    if callable(exp):
        try:
            return bool(exp(obs))
        except Exception:
            return False
    return obs == exp


def _trunc(v, n=40):
    if isinstance(v, list) and len(v) > n:
        return v[:n] + ['... %d more' % (len(v) - n)]
    return v


class Stats:
    def __init__(self):
        self.paths = 0
        self.steps = 0
        self.abandoned = 0
        self.abandoned_facets = {}
        self.violations = []       # dicts
        self.n_violations = 0
        self.edges = set()         # (src, name, args, dst) actually taken
        self.actions = {}          # name -> count
        self.known = {}            # known-finding signature -> count
        self.extra = {}            # adapter-defined counters

    def merge(self, o):
        self.paths += o.paths
        self.steps += o.steps
        self.abandoned += o.abandoned
        for k, v in o.abandoned_facets.items():
            self.abandoned_facets[k] = self.abandoned_facets.get(k, 0) + v
        self.n_violations += o.n_violations
        for v in o.violations:
            if len(self.violations) < 20:
                self.violations.append(v)
        self.edges |= o.edges
        for k, v in o.actions.items():
            self.actions[k] = self.actions.get(k, 0) + v
        for k, v in o.known.items():
            self.known[k] = self.known.get(k, 0) + v
        for k, v in o.extra.items():
            if isinstance(v, (set, frozenset)):
                self.extra[k] = set(self.extra.get(k, set())) | set(v)
            else:
                self.extra[k] = self.extra.get(k, 0) + v


def walk(graph, adapter, labels, own, stats, start=None, targets=None, known_ok=None):
    """Replay one behaviour given as a list of (name, args). Returns None or a violation dict.

    Where the specification is nondeterministic in something the step's observation does not show (adapter.multi:
    e.g. the position at which a started coroutine joins the line, visible only in the next frame), the walker
    tracks the SET of model states that explain everything observed so far instead of committing to one."""
    multi = getattr(adapter, 'multi', False)
    first = start if start is not None else graph.init[0]
    curs = [first]
    adapter.reset(graph.states[first])
    stats.paths += 1
    done = []
    for k, (name, args) in enumerate(labels):
        pre = graph.states[curs[0]]
        pairs = []
        for c in curs:
            cs = graph.succ(c, name, args)
            if targets is not None and targets[k] in cs:
                cs = [targets[k]] + [x for x in cs if x != targets[k]]
            pairs += [(c, d) for d in cs]
        if not pairs:
            return None      # label not enabled here (random walk drifted after following the code's choice)
        if len(curs) > 1 and name in getattr(adapter, 'needs_pre', ()):
            # the adapter derives the call from the model's pre-state, which is ambiguous here: stop, do not guess
            stats.extra['abandoned_ambiguous_pre_state'] = stats.extra.get('abandoned_ambiguous_pre_state', 0) + 1
            return None
        obs = adapter.step(name, args, pre)
        stats.steps += 1
        stats.actions[name] = stats.actions.get(name, 0) + 1
        for f, v in obs.items():
            if v is SKIP:
                stats.extra['whitebox_facet_skipped:' + f] = stats.extra.get('whitebox_facet_skipped:' + f, 0) + 1
        matched = []
        best = None
        foreign_only = None
        for c, d in pairs:
            exp = adapter.expect(name, args, graph.states[c], graph.states[d])
            bad = [f for f in exp if not _eq(obs.get(f), exp[f])]
            if not bad:
                if d not in [m[1] for m in matched]:
                    matched.append((c, d))
                if not multi:
                    break
                continue
            own_bad = [f for f in bad if own is None or f in own]
            if not own_bad and foreign_only is None:
                foreign_only = (d, bad)
            if best is None or len(own_bad) < len(best[1]):
                best = (d, own_bad, exp)
        done.append([name, tla.to_json(args)])
        if not matched:
            if foreign_only is not None:
                stats.abandoned += 1
                for f in foreign_only[1]:
                    stats.abandoned_facets[f] = stats.abandoned_facets.get(f, 0) + 1
                return None
            d, own_bad, exp = best
            return {
                'init_state': tla.to_json(graph.states[first]),
                'labels': done,
                'failing_step': k,
                'action': [name, tla.to_json(args)],
                'pre_state': tla.to_json(pre),
                'facets': own_bad,
                'expected': {f: (repr(exp[f]) if callable(exp[f]) else tla.to_json(exp[f])) for f in own_bad},
                'observed': {f: _trunc(tla.to_json(obs.get(f))) for f in own_bad},
                'n_candidates': len(pairs),
            }
        stats.edges.add((matched[0][0], name, args, matched[0][1]))
        if len(matched) > 1:
            stats.extra['steps_with_several_explanations'] = stats.extra.get('steps_with_several_explanations', 0) + 1
        curs = [m[1] for m in matched]
    fin = getattr(adapter, 'finish', None)
    if fin:
        fin(stats)
    return None


# ---------------------------------------------------------------------------------------------------
# path generators

def edge_paths(graph, edge_filter=None):
    """One behaviour per edge: BFS-tree path to the source, then the edge."""
    for s, outs in graph.out.items():
        if s not in graph.depth:
            continue
        prefix = None
        for (n, a, d) in outs:
            if edge_filter and not edge_filter(s, n, a, d):
                continue
            if prefix is None:
                p = graph.path_to(s)
                prefix = ([(x[1], x[2]) for x in p], [x[3] for x in p], p[0][0] if p else s)
            yield (prefix[2], prefix[0] + [(n, a)], prefix[1] + [d])


def all_paths(graph, depth, label_filter=None, limit=None):
    """Every path of exactly `depth` steps (or shorter if stuck) from each initial state, DFS order."""
    count = 0
    for i in graph.init:
        stack = [(i, [], [])]
        while stack:
            s, labs, tg = stack.pop()
            outs = graph.out.get(s, ())
            if len(labs) == depth or not outs:
                if labs:
                    yield (i, labs, tg)
                    count += 1
                    if limit and count >= limit:
                        return
                continue
            for (n, a, d) in outs:
                if label_filter and not label_filter(n, a):
                    continue
                stack.append((d, labs + [(n, a)], tg + [d]))


def random_walks(graph, n, length, seed, start_pool=None, weight=None):
    rnd = random.Random(seed)
    for _ in range(n):
        s = s0 = rnd.choice(start_pool or graph.init)
        labs, tg = [], []
        for _k in range(length):
            outs = graph.out.get(s, ())
            if not outs:
                break
            if weight:
                ws = [weight(e) for e in outs]
                e = rnd.choices(outs, ws)[0]
            else:
                e = rnd.choice(outs)
            labs.append((e[0], e[1]))
            tg.append(e[2])
            s = e[2]
        if labs:
            yield (s0, labs, tg)


# ---------------------------------------------------------------------------------------------------
# parallel driver

_G = {}
REPLAY = None     # set by `./check <id> --replay FILE`: {'labels': [[name, args-json], ...], 'init_state': json}


def _replay_one(graph, factory, own):
    """--replay mode: if the recorded history exists in this graph, execute exactly that history."""
    want = [(n, json.dumps(a, sort_keys=True)) for n, a in REPLAY['labels']]
    init_json = json.dumps(REPLAY.get('init_state'), sort_keys=True)
    st = Stats()
    for i in graph.init:
        if REPLAY.get('init_state') is not None and json.dumps(tla.to_json(graph.states[i]), sort_keys=True) != init_json:
            continue
        cur, labels, ok = i, [], True
        for n, aj in want:
            nxt = [(nn, a, d) for (nn, a, d) in graph.out.get(cur, ()) if nn == n and json.dumps(tla.to_json(a), sort_keys=True) == aj]
            if not nxt:
                ok = False
                break
            labels.append((nxt[0][0], nxt[0][1]))
            cur = nxt[0][2]
        if not ok:
            continue
        REPLAY['done'] = True
        # adapters vary what the model leaves open from one behaviour to the next (hash ranks, truth values, value
        # equality, class layout, identifiers ...) by a per-adapter counter: the history is executed under every
        # variant of the cycle until one diverges
        adapter = factory()
        v = None
        for variant in range(24):
            v = walk(graph, adapter, labels, own, st, start=i)
            if v:
                break
        print('REPLAY: %d steps executed on the real code: %s' % (len(labels), 'VIOLATION reproduced at step %s facets=%s (variant %d)' % (
            v['failing_step'], v.get('facets'), variant + 1) if v else 'no divergence in 24 variants (the history now conforms)'))
        if v:
            st.n_violations += 1
            st.violations.append(v)
        break
    return st


def _worker(chunk):
    graph, factory, own = _G['graph'], _G['factory'], _G['own']
    st = Stats()
    try:
        resource.setrlimit(resource.RLIMIT_AS, (6 << 30, 6 << 30))
    except Exception:
        pass
    adapter = factory()
    for start, labels, targets in chunk:
        try:
            v = walk(graph, adapter, labels, own, st, start=start, targets=targets)
        except Exception:
            v = {'labels': [[n, tla.to_json(a)] for n, a in labels], 'harness_error': traceback.format_exc()}
        if v:
            st.n_violations += 1
            if len(st.violations) < 5:
                st.violations.append(v)
    return st


def run_paths(graph, factory, paths, own=None, procs=None, chunk=200, max_violations=50):
    """Replay an iterable of (labels, targets) in parallel; returns merged Stats."""
    if REPLAY is not None:
        return Stats() if REPLAY.get('done') else _replay_one(graph, factory, own)
    procs = procs or int(os.environ.get('VERIF_WORKERS') or min(16, os.cpu_count() or 4))
    _G['graph'], _G['factory'], _G['own'] = graph, factory, own
    total = Stats()
    gc.collect()
    gc.freeze()      # the loaded graph is immortal: keeps gc.collect() in adapters cheap, and fork() pages shared

    def chunks():
        buf = []
        for p in paths:
            if total.n_violations >= max_violations:
                return          # enough counterexamples: stop FEEDING (see below), what is queued runs to its end
            buf.append(p)
            if len(buf) >= chunk:
                yield buf
                buf = []
        if buf:
            yield buf

    if procs <= 1:
        for c in chunks():
            total.merge(_worker(c))
            if total.n_violations >= max_violations:
                break
        return total
    ctx = mp.get_context('fork')
    # Never terminate() a pool whose workers may be writing results: a worker killed while it holds the result queue's
    # lock leaves the pool's handler thread blocked for ever (seen once in ~10 runs with dense violations).  The task
    # generator stops feeding instead; the pool is drained, closed and joined.
    pool = ctx.Pool(procs)
    try:
        for st in pool.imap_unordered(_worker, chunks()):
            total.merge(st)
        pool.close()
        pool.join()
    except BaseException:
        pool.terminate()
        raise
    return total

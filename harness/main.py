"""./check <Cxx> [--tier quick|thorough] [--replay FILE]"""
import argparse
import importlib
import os
import sys
import traceback

from . import common


def main():
    os.chdir(common.VERIF)
    ap = argparse.ArgumentParser()
    ap.add_argument('prop')
    ap.add_argument('--tier', default=os.environ.get('VERIF_TIER') or 'quick', choices=['quick', 'thorough'])
    ap.add_argument('--replay', default=None)
    ap.add_argument('--seed', type=int, default=int(os.environ.get('VERIF_SEED') or 20260926))
    a = ap.parse_args()
    prop = a.prop.upper()
    try:
        mod = importlib.import_module('harness.props.' + prop.lower())
    except ModuleNotFoundError:
        print('no check registered for %s' % prop)
        return 2
    res = common.Result(prop, a.tier, a.seed, level=getattr(mod, 'LEVEL', 'model_checking'))
    try:
        common.import_desper()
        if a.replay and callable(getattr(mod, 'replay', None)):     # (a module named replay imported by the property module is not callable)
            mod.replay(res, a.replay)
        elif a.replay:
            import json
            from . import replay as rp
            rp.REPLAY = dict(json.load(open(a.replay))['detail'])
            if 'labels' not in rp.REPLAY:
                print('REPLAY: this file holds a rejected recorded trace, not a specification behaviour; '
                      're-run the check to re-record (seed %s)' % json.load(open(a.replay)).get('seed'))
                return 2
            try:
                mod.run(res)
            except common.ReplayDone:
                pass
            if not rp.REPLAY.get('done'):
                print('REPLAY: the recorded history is not a behaviour of any instance this check builds')
                return 2
            res.evidence_suffix = '.replay'
        else:
            mod.run(res)
    except common.MachineryError as ex:
        print('MACHINERY-ERROR property=%s: %s' % (prop, ex))
        res.finish_scratch_only() if hasattr(res, 'finish_scratch_only') else None
        return 2
    except Exception:
        traceback.print_exc()
        print('MACHINERY-ERROR property=%s: unexpected exception in the check itself' % prop)
        return 2
    return res.finish()


if __name__ == '__main__':
    sys.exit(main())

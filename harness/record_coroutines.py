"""Randomized driver recording executions of the real CoroutineProcessor as JSON traces (pipeline B)."""
import random

from .adapters.coroutines import CoroutinesAdapter


def random_scripts(rnd, n):
    G = tuple('g%d' % i for i in range(1, n + 1))
    S = {}
    for g in G:
        steps = []
        for _ in range(rnd.randint(2, 5)):
            r = rnd.random()
            if r < 0.55:
                steps.append(('y', rnd.choice([0, 0, -1, 1, 1, 2, 3, 5, 6, 7])))
            elif r < 0.7:
                steps.append((rnd.choice(['kill', 'kill!']), rnd.randint(1, n)))
            elif r < 0.85:
                steps.append((rnd.choice(['start', 'start!']), rnd.randint(1, n)))
            elif r < 0.95:
                steps.append(('state', rnd.randint(1, n)))
            else:
                steps.append(('raise', 0))
        S[g] = tuple(steps)
    return G, S


def record(desper, K, seed, n_traces, n_calls):
    rnd = random.Random(seed)
    ad = CoroutinesAdapter(desper, K)
    G = list(K['G'])
    traces = []
    for _t in range(n_traces):
        ad.reset(None)
        events = []
        state = {g: 'TERMINATED' for g in G}

        def do(op, arg):
            obs = ad.step(op, (arg,), None)
            state.update(obs['state'])
            events.append({'op': op, 'arg': arg, 'ret': obs['ret'], 'log': [list(x) for x in obs['log']],
                           'state': [[g, obs['state'][g]] for g in G],
                           'pvalue': [[g, v] for g, v in sorted(obs['promise_value'].items())],
                           'held': [g for g in G if obs['held'][g]]})

        while len(events) < n_calls:
            r = rnd.random()
            paused = [g for g in G if state[g] == 'PAUSED']
            if r < 0.12 and paused:
                # the documented pause/resume idiom on a waiting coroutine: kill, then start again at once
                g = rnd.choice(paused)
                do('Kill', g)
                do('Start', g)
            elif r < 0.4:
                do('Start', rnd.choice(G))
            elif r < 0.5:
                do('Kill', rnd.choice(G))
            else:
                do('Process', rnd.choice(sorted(K['Dts'])))
        traces.append({'events': events})
    return traces

"""Pipeline B for spec/Resources.tla (C11, C12, C17): recorded executions of the real desper.model.tree classes
validated by TLC against spec/ResourcesTrace.tla, every invariant of Resources.tla evaluated in every recorded state."""
import copy
import json
import os
import subprocess

from .. import common, tla
from . import resources_common as rc

# every invariant of Resources.tla; the three that quantify over all paths in their memoised form (see ResourcesTrace.tla)
HEAVY = ('PathEquivalence', 'DefaultIffKeyError', 'LatestWins')
INVARIANTS = [('T_' + i) if i in HEAVY else i for i in rc.INV_ALL]
OPS = ('set', 'clear', 'push', 'call', 'hclear', 'fault', 'get', 'item', 'snap', 'sattr', 'sitem', 'sget', 'smut')


def write_module(res, gen, K):
    """The constants of one batch as a generated module EXTENDS ResourcesTrace plus cfg entries."""
    defs = {'MapOrder': tuple(K['MapOrder']), 'Hd': set(K['Hd']), 'Names': set(K['Names']), 'Ops': set(OPS),
            'KindSeq': tuple(K['KindSeq']), 'ClsSeq': tuple(K['ClsSeq'])}
    lines = ['K_%s == %s' % (k, tla.to_tla(v)) for k, v in defs.items()]
    lines += ['K_KindChoices == {K_KindSeq[i] : i \\in 1..Len(K_KindSeq)}',
              'K_ClsChoices == {K_ClsSeq[i] : i \\in 1..Len(K_ClsSeq)}']
    ov = {k: 'K_' + k for k in list(defs) + ['KindChoices', 'ClsChoices']}
    ov.update(Builders='M', Receivers='M')
    consts = {'MaxDepth': K['MaxDepth'], 'MaxLayers': K['MaxLayers'], 'MaxGen': K['MaxGen'],
              'Phased': 'FALSE', 'Resnap': 'TRUE', 'Staging': 'TRUE', 'Again': 'TRUE',
              'KeepSnap': 1000000}      # a snapshot is kept, and read, until get_static_map() is called again
    consts.update({s: 'TRUE' for s in rc.SWITCHES})
    with open(os.path.join(res.specdir, gen + '.tla'), 'w') as f:
        f.write('---- MODULE %s ----\nEXTENDS ResourcesTrace\n%s\n====\n' % (gen, '\n'.join(lines)))
    return consts, ov


def _history(t, at):
    return [[e['op'], e['a1'], e['a2'], e['a3']] for e in t['events'][:at + 1]]


def _report(res, what, traces, rej, extra=None):
    for idx, at in rej[:5]:
        t = traces[idx] if idx >= 0 else None
        ev = t['events'][at] if t and isinstance(at, int) and at < len(t['events']) else None
        d = {'matched_events': at, 'next_event': ev, 'kinds': t and t.get('ki'), 'classes': t and t.get('ci'),
             'history': _history(t, at) if t and isinstance(at, int) else []}
        d.update(extra or {})
        res.violation('recorded execution of desper.model.tree not explained by Resources.tla (%s): trace %d, event %s %s'
                      % (what, idx, at, (ev or {}).get('op')), d)


def op_counts(traces):
    c = {}
    for t in traces:
        for e in t['events']:
            c[e['op']] = c.get(e['op'], 0) + 1
    return dict(sorted(c.items()))


def _record_chunk(a):
    from .. import record_resources as rr
    K, seed, n, n_calls = a
    return rr.record(common.import_desper(), K, seed, n, n_calls)


def record_parallel(K, seed, n_traces, n_calls, procs=8):
    """The recorder in a few forked workers (chunk i uses seed + i: deterministic given the seed)."""
    from concurrent.futures import ProcessPoolExecutor
    import multiprocessing
    procs = max(1, min(procs, n_traces // 8 or 1))
    sizes = [n_traces // procs + (1 if i < n_traces % procs else 0) for i in range(procs)]
    jobs = [(K, seed * 1000 + i, n, n_calls) for i, n in enumerate(sizes) if n]
    if len(jobs) == 1:
        return _record_chunk(jobs[0])
    with ProcessPoolExecutor(len(jobs), mp_context=multiprocessing.get_context('fork')) as ex:
        return [t for part in ex.map(_record_chunk, jobs) for t in part]


def corrupt(t):
    """One observation of trace t altered: ([corrupted copy], index of the event) or (None, None)."""
    bad = copy.deepcopy(t)
    evs = bad['events']
    # a lookup that found something now claims another object; failing that, a handle claims to be cached
    k = next((i for i, e in enumerate(evs) if i >= len(evs) // 2 and e['den']), None)
    if k is not None:
        evs[k]['den'][-1][3] += 'x'
        return [bad], k
    k = next((i for i, e in enumerate(evs) if len(e['cached']) < len(e['nloads'])), None)
    if k is not None:
        evs[k]['cached'] = sorted(set(evs[k]['cached']) | {next(h for h, _n in evs[k]['nloads'] if h not in evs[k]['cached'])})
        return [bad], k
    return None, None


def validate_with_self_test(res, gen, name, traces, consts, ov, invariants, shards):
    """tracecheck.validate on the batch plus a corrupted copy of its first trace (same TLC runs: no extra JVM), which
    must be rejected exactly at the corrupted event.  Returns (rejected, event the corrupted copy was rejected at)."""
    from .. import tracecheck
    bad, k = corrupt(traces[0]) if traces else (None, None)
    rej_all = tracecheck.validate(res, gen, name, traces + (bad or []), consts, overrides=ov, invariants=invariants, shards=shards)
    rej = [(i, at) for i, at in rej_all if i != len(traces)]
    if bad is None:
        return rej, None
    run = res.tlc_runs[-1]
    run.update(traces=len(traces), events=run['events'] - len(bad[0]['events']), rejected=len(rej),
               plus='one corrupted copy of trace 0 (self-test), rejected as required')
    own = [at for i, at in rej_all if i == len(traces)]
    if not any(i == 0 for i, _at in rej) and not any(isinstance(at, str) for _i, at in rej_all):
        if own != [k]:
            raise common.MachineryError('trace validation accepted a corrupted resource-tree trace: rejected at %r, corrupted '
                                        'event %d' % (own, k))
        return rej, k
    # trace 0 itself is not explained (or a shard stopped at an invariant): the self-test takes the first accepted trace
    ok = [t for i, t in enumerate(traces) if i not in {j for j, _at in rej} and t['events']]
    bad, k = corrupt(ok[0]) if ok else (None, None)
    if bad is None:
        return rej, None
    r2 = tracecheck.validate(res, gen, name + '-corrupted', bad, consts, overrides=ov, shards=1)
    if not (len(r2) == 1 and r2[0][1] == k):
        raise common.MachineryError('trace validation accepted a corrupted resource-tree trace: %r (corrupted event %d)' % (r2, k))
    return rej, k


def trace_validate(res, name, n_traces, n_calls, K=None, shards=8, invariants=None):
    """Random histories over the big universe executed on the real classes, recorded, validated by TLC."""
    from .. import record_resources as rr, replay as _rp
    if _rp.REPLAY is not None:
        return
    common.import_desper()
    K = K or rr.universe()
    traces = record_parallel(K, res.seed, n_traces, n_calls)
    gen = 'ResourcesTrace_%s' % name
    consts, ov = write_module(res, gen, K)
    rej, self_test = validate_with_self_test(res, gen, name, traces, consts, ov,
                                             INVARIANTS if invariants is None else invariants, shards)
    res.traces += len(traces) - len(rej)
    cov = res.cov.setdefault('trace_validation', {})
    cov[name] = {'traces': len(traces), 'events': sum(len(t['events']) for t in traces),
                 'accepted': len(traces) - len(rej), 'rejected': len(rej), 'per_action': op_counts(traces),
                 'universe': {'maps': len(K['MapOrder']), 'handles': len(K['Hd']), 'names': len(K['Names']),
                              'max_key_depth': K['MaxDepth'], 'max_layers': K['MaxLayers']},
                 'observed_shapes': shapes(traces), 'corrupted_trace_rejected_at_event': self_test}
    _report(res, name, traces, rej)
    if traces and traces[0]['events']:
        res.sample({'recorded_trace_first_events': [[e['op'], e['a1'], e['a2'], e['a3'], e['rk'], e['ri']]
                                                    for e in traces[0]['events'][:10]]})


def shapes(traces):
    """How far the recorded histories went beyond the exhaustive instances (maxima over all recorded states)."""
    mx = {'paths_denoting': 0, 'links': 0, 'layers_in_one_map': 0, 'handles_cached': 0, 'loads_of_one_handle': 0,
          'snapshot_entries': 0, 'key_depth_denoting': 0}
    n = {'staged_moves': 0, 'composite_keys_set': 0, 'load_faults': 0, 'shadowed_handles': 0, 'reloads': 0,
         'stored_again_where_it_was': 0, 'reads_of_a_snapshot_older_than_its_map': 0}
    for t in traces:
        before, changed = set(), False      # places listed before the call; the tree changed since the snapshot was taken
        for e in t['events']:
            if e['op'] == 'Snapshot':
                changed = False
            elif e['op'] in ('SetItem', 'PushLayer', 'Clear'):
                changed = True
            elif e['op'] in ('SAttr', 'SItem', 'SGet'):
                n['reads_of_a_snapshot_older_than_its_map'] += changed
            now = {(x[0], x[1], x[3]) for x in e['links']}
            if e['op'] == 'SetItem':
                was = {x for x in before if x[2] == e['a3']}
                n['stored_again_where_it_was'] += bool(was) and was == {x for x in now if x[2] == e['a3']}
            before = now
            mx['paths_denoting'] = max(mx['paths_denoting'], len(e['den']))
            mx['links'] = max(mx['links'], len(e['links']))
            mx['layers_in_one_map'] = max([mx['layers_in_one_map']] + [len(ls) for _m, ls in e['layers']])
            mx['handles_cached'] = max(mx['handles_cached'], len(e['cached']))
            mx['loads_of_one_handle'] = max([mx['loads_of_one_handle']] + [k for _h, k in e['nloads']])
            mx['snapshot_entries'] = max(mx['snapshot_entries'], len(e['smirror']))
            mx['key_depth_denoting'] = max([mx['key_depth_denoting']] + [len(d[1]) for d in e['den']])
            n['load_faults'] += e['rk'] == 'exc' and e['ri'] == 'LoadFault'
            n['reloads'] += sum(1 for h in e['loaded'] if dict(map(tuple, e['nloads']))[h] > 1)
            if e['op'] == 'SetItem':
                n['composite_keys_set'] += len(e['a2']) > 1
                # the stored node shows twice in the tables: moved out of a staging map
                n['staged_moves'] += sum(1 for x in e['links'] if x[3] == e['a3']) > 1
            n['shadowed_handles'] += any(len({k for l in ls for k, _h in l}) < sum(len(l) for l in ls) for _m, ls in e['layers'])
    return {'max': mx, 'events_with': {k: int(v) for k, v in n.items()}}


def repo_tests_validate(res, node='tests'):
    """Pipeline B on the repository's own tests: the suite runs unmodified under harness/pytest_resrecorder.py; every
    test that uses ResourceMap / Handle / get_static_map() yields one trace over its own universe (its maps, handles
    and key parts; the tree its fixtures built is the initial state) and is validated by TLC against
    ResourcesTrace.tla with every invariant of Resources.tla on.  One TLC run per test (side by side)."""
    from concurrent.futures import ThreadPoolExecutor
    from .. import tracecheck, replay as _rp
    if _rp.REPLAY is not None:
        return
    out = os.path.join(res.scratch, 'repo_resource_tests.json')
    env = dict(os.environ, VERIF_TRACE_OUT_RES=out, PYTHONPATH=common.VERIF + os.pathsep + os.environ.get('PYTHONPATH', ''))
    p = subprocess.run(['/venv/bin/python', '-m', 'pytest', '-q', '-p', 'no:cacheprovider', '-p', 'harness.pytest_resrecorder', node],
                       cwd=common.REPO, env=env, stdout=subprocess.PIPE, stderr=subprocess.STDOUT, text=True, timeout=600)
    if not os.path.exists(out):
        raise common.MachineryError('recording the repository resource tests failed:\n' + p.stdout[-2000:])
    with open(out) as f:
        recs = json.load(f)
    usable = [r for r in recs if not r['unsupported'] and r['events']]
    cov = res.cov.setdefault('trace_validation', {})
    cov['repository-tests'] = {'node': node, 'pytest_tail': p.stdout.strip().split('\n')[-1], 'tests_recorded': len(usable),
                               'tests': [r['test'] for r in usable], 'events': sum(len(r['events']) for r in usable),
                               'per_action': op_counts(usable),
                               'unsupported': {r['test']: r['unsupported'] for r in recs if r['unsupported']}}
    if not usable:
        return

    def consts_of(r):
        return dict(MapOrder=r['MapOrder'], Hd=r['Hd'], Names=r['Names'], MaxDepth=r['MaxDepth'], MaxLayers=r['MaxLayers'],
                    MaxGen=1000000, KindSeq=({h: 'list' for h in r['Hd']},), ClsSeq=(r['cls'],))

    # tests over the same universe share a TLC run; tests that use handles only get the same (largest) handle pool
    bare = [r for r in usable if len(r['MapOrder']) == 2 and r['Names'] == ['n0']]
    for r in bare:
        r['Hd'] = max((x['Hd'] for x in bare), key=len)
        r['MaxLayers'] = 2
    groups = {}
    for k, r in enumerate(usable):
        groups.setdefault(json.dumps(consts_of(r), sort_keys=True), []).append(k)
    traces = [{'ki': 1, 'ci': 1, 'fresh': False, 'init': r['init'], 'events': r['events']} for r in usable]

    def one(g):
        members = groups[g]
        gen = 'ResourcesTrace_repo%d' % members[0]
        consts, ov = write_module(res, gen, consts_of(usable[members[0]]))
        rej = tracecheck.validate(res, gen, 'repo%d' % members[0], [traces[k] for k in members], consts, overrides=ov,
                                  invariants=INVARIANTS, shards=1)
        return [(members[i] if i >= 0 else members[0], at) for i, at in rej]

    with ThreadPoolExecutor(8) as ex:
        rej = sorted(x for part in ex.map(one, list(groups)) for x in part)
    for k, at in rej[:5]:
        _report(res, 'repository test %s' % usable[k]['test'], traces, [(k, at)], {'test': usable[k]['test']})
    rejected = len({k for k, _at in rej})
    res.traces += len(usable) - rejected
    cov['repository-tests'].update(accepted=len(usable) - rejected, rejected=rejected, tlc_runs=len(groups))
    # self-test: one observation of the longest accepted test altered
    ok = [k for k in range(len(usable)) if k not in {j for j, _at in rej}]
    if ok:
        k = max(ok, key=lambda i: len(usable[i]['events']))
        bad, at = corrupt(traces[k])
        if bad is not None:
            consts, ov = write_module(res, 'ResourcesTrace_repobad', consts_of(usable[k]))
            r2 = tracecheck.validate(res, 'ResourcesTrace_repobad', 'repo-corrupted', bad, consts, overrides=ov, shards=1)
            cov['repository-tests']['corrupted_trace_rejected_at_event'] = r2[0][1] if r2 else None
            if not (len(r2) == 1 and r2[0][1] == at):
                raise common.MachineryError('trace validation accepted a corrupted repository-test trace: %r (corrupted event %d)'
                                            % (r2, at))

"""C04 — disabled dispatchers defer events and release them once, in order (spec/Dispatcher.tla)."""
from . import dispatcher_common as dc


def run(res):
    thorough = res.tier == 'thorough'
    # faults (raise / disable / nested enable) at every delivery position of the release
    c, ov = dc.consts(H=2, subs='Subs_Fixed', beh='Beh_C04', maxq=2, maxeid=3)
    dc.check_and_replay(res, 'c04_quick', c, ov, depth_all=3, walks=3000)
    # (B) executions recorded from the real dispatcher, validated by TLC
    dc.trace_validate(res, 2000 if thorough else 200, 60)
    dc.repo_tests_validate(res)
    if thorough:
        dc.simulate_big(res)
    # non-vacuity: the as-implemented release loop violates the model's properties
    c2, ov2 = dc.consts(H=2, subs='Subs_Fixed', beh='Beh_C04', maxq=2, maxeid=3, pops=False)
    dc.switch_run(res, 'c04_asimpl_release', c2, ov2, expect=('NoBad', 'ReleaseProgress', 'QueueInOrder', 'DrainedOnReturn', 'StateBound'))

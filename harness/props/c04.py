"""C04 — disabled dispatchers defer events and release them once, in order (spec/Dispatcher.tla)."""
from . import dispatcher_common as dc


def run(res):
    thorough = res.tier == 'thorough'
    # faults (raise / disable / nested enable) at every delivery position of the release
    c, ov = dc.consts(H=2, subs='Subs_Fixed', beh='Beh_C04', maxq=2, maxeid=3)
    dc.check_and_replay(res, 'c04_quick', c, ov, depth_all=3, walks=3000)
    # (B) executions recorded from the real dispatcher, validated by TLC
    dc.trace_validate(res, 2000 if thorough else 200, 60)
    dc.repo_tests_validate(res)
    if thorough:
        dc.simulate_big(res)
    # ... and therefore a World (it is a dispatcher): lifecycle callbacks follow the same gate - an on_add that disables
    # dispatching in the middle of a multi-component create_entity, an on_remove that disables it: what follows is
    # postponed, nothing runs while the gate is closed, the release order is the order of the operations
    from . import world_common as wc
    C3 = {'c1': ('A', ('on_add', 'on_remove', 'probe')), 'c2': ('B', ('on_add', 'probe')), 'c3': ('B', ('on_remove',))}
    Kr = wc.base(Acts={'create', 'add', 'remove', 'toggle', 'reentrant', 'probe'}, Ids={1, 2}, MaxAuto=0, Types=wc.T2, Bases=wc.BASES2, MaxQ=2,
                 **wc.comps(C3, falsy={'c3'}))
    wc.check_and_replay(res, 'c04_world_gate', Kr, {'log', 'enabled', 'wb_queue_len', 'ret'}, depth_all=0, walks=3000 if thorough else 600, walk_len=25)
    # non-vacuity: the as-implemented release loop violates the model's properties
    c2, ov2 = dc.consts(H=2, subs='Subs_Fixed', beh='Beh_C04', maxq=2, maxeid=3, pops=False)
    dc.switch_run(res, 'c04_asimpl_release', c2, ov2, expect=('NoBad', 'ReleaseProgress', 'QueueInOrder', 'DrainedOnReturn', 'StateBound'))

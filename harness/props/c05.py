"""C05 — deferred entity deletion is applied at the next process, safely (spec/World.tla)."""
from . import world_common as wc

ACTS = {'create', 'add', 'remove', 'delete', 'process', 'fault', 'proc'}
C3 = {'c1': ('A', ('on_add', 'on_remove')), 'c2': ('B', ('on_remove',)), 'c3': ('A', ())}


def run(res):
    own = wc.OWN['C05']
    th = res.tier == 'thorough'
    P = wc.procs({'p1': ('P1', ()), 'q': ('Q', ())}, {'P1': ((), 0), 'Q': ((), 5)})
    K = wc.base(Acts=ACTS, Ids={1, 2}, MaxAuto=1, Types=wc.T2, Bases=wc.BASES2, Prios=set(), **wc.comps(C3), **P)
    wc.check_and_replay(res, 'c05_deferred', K, own, depth_all=4 if th else 3, walks=20000 if th else 3000, walk_len=40)
    # with dispatching disabled the removals of the deferred deletion are postponed like any other callback
    K2 = wc.base(Acts={'create', 'remove', 'delete', 'process', 'toggle'}, Ids={1, 2}, MaxAuto=1, Types=wc.T2, Bases=wc.BASES2,
                 MaxQ=3, **wc.comps(C3))
    wc.check_and_replay(res, 'c05_disabled', K2, own, depth_all=0, walks=20000 if th else 2000, walk_len=30)
    wc.trace_validate(res, 'c05_recorded', wc.big({'create', 'add', 'remove', 'delete', 'process', 'toggle', 'proc', 'fault'}), 2000 if th else 150, 60)
    wc.switch_run(res, 'c05', K, 'ClearDeadGuards', ('ProcessNeverFails', 'RegisteredIffAttached', 'FreedAfterProcess'))

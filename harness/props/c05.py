"""C05 — deferred entity deletion is applied at the next process, safely (spec/World.tla)."""
from . import world_common as wc

C3 = {'c1': ('A', ('on_add', 'on_remove')), 'c2': ('B', ('on_remove',)), 'c3': ('A', ())}
C2 = {'c1': ('A', ('on_add', 'on_remove')), 'c2': ('B', ('on_remove',))}


def run(res):
    own = wc.OWN['C05']
    th = res.tier == 'thorough'
    # deferred deletion mixed with every other operation on the same and on other entities; faults: a processor
    # raises, an on_remove raises at any position of the deletion, an on_remove deletes another entity immediately,
    # a mark on an identifier that never existed ("ghost")
    P = wc.procs({'p1': ('P1', ())}, {'P1': ((), 0)})
    acts = {'create', 'remove', 'delete', 'process', 'fault', 'proc', 'ghost', 'clear'} | ({'add'} if th else set())
    K = wc.base(Acts=acts, Ids={1, 2}, MaxAuto=1, Types=wc.T2, Bases=wc.BASES2, Prios=set(), **wc.comps(C3, falsy={'c1'}), **P)
    wc.check_and_replay(res, 'c05_deferred', K, own, depth_all=4 if th else 3, walks=20000 if th else 3000, walk_len=40)
    # with dispatching disabled the removals of the deferred deletion are postponed like any other callback
    K2 = wc.base(Acts={'create', 'remove', 'delete', 'process', 'toggle', 'fault'}, Ids={1, 2}, MaxAuto=0, Types=wc.T2, Bases=wc.BASES2,
                 MaxQ=3 if th else 2, **wc.comps(C2))
    wc.check_and_replay(res, 'c05_disabled', K2, own, depth_all=0, walks=20000 if th else 2000, walk_len=30)
    wc.trace_validate(res, 'c05_recorded', wc.big({'create', 'add', 'remove', 'delete', 'process', 'toggle', 'proc', 'fault', 'ghost'}), 2000 if th else 150, 60)
    wc.repo_tests_validate(res)
    if th:
        wc.simulate_big(res, salt=3)
    wc.switch_run(res, 'c05', K, 'ClearDeadGuards', ('ProcessNeverFails', 'RegisteredIffAttached', 'FreedAfterProcess', 'MarksHaveRows'))

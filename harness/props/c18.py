"""C18 — vector and matrix operations compute their textbook definitions (spec/VecMath.tla).

Claimed at level `exploration` (DESIGN section 7): TLC evaluates an exact integer/rational reference on
enumerated operand families and checks the algebraic clauses of the statement on the reference; every row
of the dumped table is then executed on the real desper.math classes with int and Fraction operands, and
with operands built through trivial subclasses of the vector and matrix classes.
"""
import json
from collections import Counter

from .. import common
from .. import replay as rp      # (this module must itself define replay() for --replay)
from ..adapters.vecmath import VecMathAdapter, Expect, OPS, TOL, _tup
from ..tla import FD, to_json

LEVEL = 'exploration'

INVARIANTS = ['TypeOK', 'Law_Entrywise', 'Law_DotCross', 'Law_Lerp', 'Law_ScaleClamp', 'Law_Lengths', 'Law_Limit',
              'Law_Turns', 'Law_Swizzle', 'Law_Product', 'Law_Transpose', 'Law_RowCol', 'Law_Inverse', 'Law_InverseScaled',
              'Law_Constructors']
ALL_GROUPS = ('vec2', 'vec3', 'vec4', 'swz', 'mat3', 'mat4', 'inv', 'ctor', 'big')

RULE = ('one case = one (operation, operands) row enumerated by Init of VecMath.tla: all ordered pairs / all members of '
        'integer grids {-R..R}^n plus asymmetric and Pythagorean extras for the vector operations, every letter word of '
        'length 1..4 over {x,y,z,w,q} (and two of length 5) per vector type for swizzling, elementary / weighted-permutation '
        '/ shear / singular / LCG pseudo-random matrices with entries in -3..3 for @, transpose and ~, the same matrices divided '
        'entrywise by 128 and 1000 (tiny non-zero determinants) for ~; cases are distinct '
        'TLC states; non-trivial = the expected result is not an exception, not all zero and not equal to an operand')

ASSUMPTIONS = [
    'A @ v treats v as a row vector (v times the written grid), the only reading under which the stated (A @ B) @ v == B @ (A @ v) holds',
    'vectors and matrices are instances of Vec2/Vec3/Vec4/Mat3/Mat4 or of trivial user-defined subclasses of them (every second '
    'row runs a third time with subclass operands); a result counts as a Vec3 (...) if it is an instance of it: neither the base class nor '
    'the subclass is demanded',
    'exact comparison (==) for + - * / dot cross lerp scale clamp swizzle @ transpose ~ and the constructors on Fraction operands; '
    'tolerance %g relative to the largest expected entry (at least 1) for sqrt/angle operations, orthogonal_projection (float literal 2.0) '
    'and for proper-rational results on int operands (float division)' % TOL,
    'angles are multiples of a quarter turn (rotate, from_heading, from_polar) and of an eighth (heading); limit/from_magnitude with m >= 0; clamp with lo <= hi',
    'not covered (DESIGN section 7): perspective_projection, Mat4.rotate/from_rotation, look_at*, Mat3.scale/translate/rotate/shear, Mat4.scale, __round__, '
    'and the universal quantifier over all rationals (polynomial identities are evaluated on the enumerated families, not proved)',
]


SAMPLE_ROWS = {
    'inv': lambda a, r: r['fmt'] == 'rat' and 0 not in a[0],
    'invq': lambda a, r: not r['warn'] and a[0][1] == 128 and 0 not in a[0][0],
    'mulvr': lambda a, r: len(a[2]) == 4,
    'limit': lambda a, r: len(a[0]) == 3 and r['fmt'] == 'root' and a[1] == (2, 1),
    'swz': lambda a, r: len(a[0]) == 4 and len(set(a[1])) == 4,
    'lerp': lambda a, r: a[2] == (3, 4) and len(set(a[0])) > 1 and a[0] != a[1],
}


def consts(groups, ru=(2, 2, 1), rw=(2, 1, 1), k4=2, np_=8, nt=4, big=(1, 0), seed=1, limit_square=True):
    return {'Groups': '{' + ', '.join('"%s"' % g for g in groups) + '}',
            'RU2': ru[0], 'RU3': ru[1], 'RU4': ru[2], 'RW2': rw[0], 'RW3': rw[1], 'RW4': rw[2], 'K4': k4,
            'NP': np_, 'NT': nt, 'BigLo': big[0], 'BigHi': big[1], 'Seed': seed,
            'Vec3LimitSquare': 'TRUE' if limit_square else 'FALSE'}


def _zero(x):
    """Zero entry in any of the result formats: integer, <<num, den>>, <<sgn, num, den>>."""
    return x[-2] == 0 if isinstance(x, tuple) else x == 0


def nontrivial(pre, post):
    r = post['res']
    return r['cls'] != 'exc' and not all(_zero(x) for x in r['val']) and r['val'] not in pre['args']


def table_stats(res, g, acc):
    """What the table exercises (measured on the dump, reported in the evidence)."""
    for i in g.init:
        pre = g.states[i]
        post = g.states[g.out[i][0][2]]
        op, a, r = pre['op'], pre['args'], post['res']
        acc['cases'] += 1
        key = (op, a)                         # (not hash(): hash(-1) == hash(-2) makes grid rows collide)
        if key not in acc['seen']:            # the same row may be enumerated by two runs (dense matrices 1..NP)
            acc['seen'].add(key)
            acc['nontrivial'] += nontrivial(pre, post)
        acc['per_op'][op] += 1
        if r['cls'] == 'exc':
            acc['expected_exceptions'][r['fmt']] += 1
        if op == 'swz':
            acc['swizzle_%s' % ('invalid' if r['cls'] == 'exc' else 'len%d' % len(a[1]))] += 1
        elif op == 'inv':
            if r['warn']:
                acc['inverse_singular'] += 1
            else:
                acc['inverse_regular'] += 1
                num = [x[0] for x in r['val']]
                for k in range(16):
                    t = 4 * (k % 4) + k // 4
                    # cofactor k matters in this row: non-zero and different from its mirror image
                    if num[k] != 0 and (k == t or num[k] != num[t]):
                        acc['cofactor_hits'][k] += 1
                    # ... and in isolation: the only non-zero entry of its row and column of the adjugate
                    if num[k] != 0 and sum(1 for j in range(16) if num[j] != 0 and (j // 4 == k // 4 or j % 4 == k % 4)) == 1:
                        acc['cofactor_isolated'][k] += 1
        elif op == 'invq':        # rational operands D / s: |det| = |det D| / s^4 is tiny, zero only if det D is
            if r['warn']:
                acc['inverse_scaled_singular'] += 1
            else:
                acc['inverse_scaled_regular'] += 1
                acc['inverse_scaled_regular_abs_det_below_1e-6'] += abs(r['val'][0][1]) < 1e-6 * a[0][1] ** 4
        elif op == 'limit':
            v, (p, q) = a
            l2 = sum(x * x for x in v)
            acc['limit_clipped' if r['fmt'] == 'root' else 'limit_unchanged'] += 1
            if len(v) == 3 and (l2 * q * q > p * p) != (l2 * q * q * q > p * p * p):
                acc['vec3_limit_rows_between_m2_and_m3'] += 1


def run_table(res, name, c, acc, procs=None):
    desper = common.import_desper()
    r, g = res.model_check('VecMath', name, c, invariants=INVARIANTS, dump=True)
    for i in g.init:
        if len(g.out[i]) != 1:
            raise common.MachineryError('case without exactly one Eval successor: %r' % (g.states[i],))
    table_stats(res, g, acc)
    # every row is executed even after the first divergences: the evidence must say which operations diverge
    st = rp.run_paths(g, lambda: VecMathAdapter(desper), rp.edge_paths(g), chunk=500, procs=procs, max_violations=10 ** 9)
    n0 = len(res.violations)
    res.absorb(st, name + ':every-row', g)
    for k in range(n0, len(res.violations)):          # say which row failed, not just "Eval"
        d = res.violations[k][1]
        if 'pre_state' in d:
            res.violations[k] = ('%s: %s%s  expected %s  observed %s' % (name, d['pre_state']['op'], d['pre_state']['args'],
                                 list(d['expected'].values())[0], list(d['observed'].values())[0]), d)
    if st.n_violations:
        ad = VecMathAdapter(desper)
        ad.sub_every = 1          # (every facet on every row: the share of rows is counted per adapter)
        div = res.cov.setdefault('diverging_rows_by_operation', {})
        for i in g.init:
            pre, post = g.states[i], g.states[g.out[i][0][2]]
            obs, exp = ad.step('Eval', (), pre), ad.expect('Eval', (), pre, post)
            if not all(exp[f](obs[f]) for f in exp):
                for sub in sorted({f == 'sub' for f in exp if not exp[f](obs[f])}):
                    k = '%s/%s' % (pre['op'], '+'.join(type(ad.build(kd, v, False, sub)).__name__ for kd, v in zip(OPS[pre['op']][0], pre['args'])))
                    div[k] = div.get(k, 0) + 1
    ad = VecMathAdapter(desper)
    for i in g.init:          # one telling row per operation family as sample
        pre, post = g.states[i], g.states[g.out[i][0][2]]
        want = SAMPLE_ROWS.get(pre['op'])
        if want and pre['op'] not in acc['sampled'] and nontrivial(pre, post) and want(pre['args'], post['res']):
            acc['sampled'].add(pre['op'])
            obs = ad.call(pre['op'], pre['args'], True)
            res.sample({'op': pre['op'], 'args': to_json(pre['args']), 'expected_by_TLC': to_json(post['res']),
                        'observed_with_Fraction_operands': json.loads(json.dumps(to_json(obs), default=str))})
    return st


def run(res):
    thorough = res.tier == 'thorough'
    acc = _Acc({'sampled': set(), 'seen': set(), 'per_op': Counter(), 'expected_exceptions': Counter(), 'cofactor_hits': Counter(), 'cofactor_isolated': Counter()})
    res.assumptions += ASSUMPTIONS
    if not thorough:
        run_table(res, 'c18_quick', consts(ALL_GROUPS, big=(1, 100), seed=res.seed), acc)
    else:
        run_table(res, 'c18_vec24', consts(('vec2', 'vec4', 'swz'), ru=(3, 2, 2), rw=(3, 2, 1), k4=4, seed=res.seed), acc)
        run_table(res, 'c18_vec3', consts(('vec3',), ru=(3, 3, 2), rw=(3, 2, 1), seed=res.seed), acc)
        run_table(res, 'c18_mat', consts(('mat3', 'mat4', 'inv', 'ctor'), rw=(2, 2, 1), np_=24, nt=7, seed=res.seed), acc)
        step = 12500
        for lo in range(1, 50001, step):          # 10^5 pseudo-random matrices in products, 5*10^4 inverses
            run_table(res, 'c18_big_%d' % lo, consts(('big',), big=(lo, lo + step - 1), seed=res.seed), acc)
    # non-vacuity and D19: with the comparison as implemented (|v|^2 > max^3) TLC finds a too-long result
    res.model_check('VecMath', 'c18_asimpl_vec3limit', consts(('vec3',), limit_square=False, seed=res.seed),
                    invariants=INVARIANTS, expect_violation='Law_Limit', count=False)
    cof_hit = sum(1 for k in range(16) if acc['cofactor_hits'][k])
    cof_iso = sum(1 for k in range(16) if acc['cofactor_isolated'][k])
    if cof_hit < 16 or cof_iso < 16:
        raise common.MachineryError('inverse table does not exercise every cofactor: %d/16 hit, %d/16 isolated' % (cof_hit, cof_iso))
    res.cov['table'] = {k: (dict(sorted(v.items())) if isinstance(v, Counter) else v) for k, v in acc.items() if k not in ('sampled', 'seen')}
    res.cov['table']['cofactors_exercised'] = '%d/16 (min %d rows each), in isolation %d/16' % (
        cof_hit, min(acc['cofactor_hits'][k] for k in range(16)), cof_iso)
    res.cov['operations_bound'] = sorted(OPS)
    res.cov['distinct_behaviours'] = acc['nontrivial']
    res.cov['rule'] = RULE


class _Acc(dict):
    def __missing__(self, k):
        return 0


# ---------------------------------------------------------------------------------------------------
def replay(res, path):
    """./check C18 --replay FILE : re-run the failing row of a replay file on the current tree."""
    desper = common.import_desper()
    with open(path) as f:
        d = json.load(f)['detail']
    pre = d['pre_state']
    op, args = pre['op'], _tup(pre['args'])
    ad = VecMathAdapter(desper)
    for facet in d['facets']:
        exp = json.loads(d['expected'][facet])
        rec = FD({k: (_tup(v) if isinstance(v, list) else v) for k, v in exp.items()})
        obs = ad.call_facet(op, args, facet)
        ok = Expect(rec, facet != 'int')(obs)
        print('%s%r [%s operands]\n  expected %s\n  observed %r\n  -> %s' % (op, args, facet, exp, obs, 'agrees' if ok else 'DIFFERS'))
        res.traces += 1
        if not ok:
            res.violation('replay of %s: %s%r facet %s' % (path, op, args, facet), d)

"""C01 — World queries always agree on who owns which component (spec/World.tla)."""
from . import world_common as wc

ACTS = {'create', 'add', 'remove', 'delete', 'process', 'clear'}
C4 = {'c1': ('A', ()), 'c2': ('A', ()), 'c3': ('D', ()), 'c4': ('B', ())}
C3 = {'c1': ('A', ()), 'c2': ('A', ()), 'c3': ('D', ())}


def run(res):
    own = wc.OWN['C01']
    K = wc.base(Acts=ACTS, **wc.comps(C4, falsy={'c2', 'c3'}))
    wc.check_and_replay(res, 'c01_tables', K, own, depth_all=3, walks=2000)
    # multi-component creation and a non-integer explicit id
    K2 = wc.base(Acts=ACTS | {'create2'}, Ids={2, 101}, **wc.comps(C3))
    wc.check_and_replay(res, 'c01_create2', K2, own, depth_all=0, walks=1000)
    # entities deleted (immediately or by scheduling) from inside the on_remove callbacks of a running deferred deletion
    CH = {'c1': ('A', ('on_remove',)), 'c2': ('B', ('on_remove',)), 'c3': ('A', ())}
    K3 = wc.base(Acts={'create', 'add', 'delete', 'process', 'fault'}, Ids={1, 2}, MaxAuto=0, Types=wc.T2, Bases=wc.BASES2, **wc.comps(CH, falsy={'c1'}))
    wc.check_and_replay(res, 'c01_callbacks', K3, own | {'log'}, depth_all=0, walks=1000)
    # clear() during which an on_remove callback schedules the deletion of another (possibly already torn down) entity:
    # nothing stays pending, the identifiers handed out afterwards name living entities
    K4 = wc.base(Acts={'create', 'add', 'delete', 'process', 'clear', 'fault'}, Ids={1, 2}, MaxAuto=2, Types=wc.T2, Bases=wc.BASES2, **wc.comps(CH))
    wc.check_and_replay(res, 'c01_clear_callbacks', K4, own | {'log'}, depth_all=0, walks=1000)
    # (B) recorded executions over larger pools (10 ids incl. non-integer ones, 10 components, diamond), validated by TLC
    th = res.tier == 'thorough'
    wc.trace_validate(res, 'c01_recorded', wc.big({'create', 'create2', 'add', 'remove', 'delete', 'process', 'clear', 'fault'}), 2000 if th else 150, 60)
    wc.repo_tests_validate(res)
    if th:
        wc.simulate_big(res, salt=1)
    # non-vacuity: the as-implemented branches violate the invariants
    wc.switch_run(res, 'c01', K, 'ReplaceBeforeIndex', ('IndexIsTranspose', 'QueriesAgree'))
    wc.switch_run(res, 'c01', K, 'AutoIdSkipsUsed', ('AutoIdFresh',))
    wc.switch_run(res, 'c01', K, 'WalkVisitsOnce', ('QueriesAgree',))

"""C07 — processors run once per frame in priority order, one per type (spec/World.tla, spec/Bisect.tla)."""
from . import world_common as wc

PT = {'P1': ((), 0), 'P2': (('P1',), 0), 'Q': ((), 5)}


def run(res):
    own = wc.OWN['C07']
    th = res.tier == 'thorough'
    base = dict(Ids={1}, MaxAuto=1, Types={'A'}, Bases={'A': set()})
    # ties, zero and negative explicit priorities, class defaults, a subclass processor; re-adding an instance;
    # a processor raising; a processor removing a processor (also itself) while the frame runs
    P3 = wc.procs({'p1': ('P1', ('on_add', 'on_remove')), 'p2': ('P2', ('on_remove',)), 'q': ('Q', ())}, PT)
    K = wc.base(Acts={'proc', 'process', 'fault', 'inframe'}, Prios={-1, 0, 5}, Dts={0, 1} if th else {1}, **base, **P3)
    wc.check_and_replay(res, 'c07_priorities', K, own, depth_all=4 if th else 3, walks=20000 if th else 2000, walk_len=40)
    # two instances of one exact type (replacement), fewer priorities
    P4 = wc.procs({'p1': ('P1', ('on_add', 'on_remove')), 'p1b': ('P1', ()), 'p2': ('P2', ('on_remove',)), 'q': ('Q', ())}, PT)
    K2 = wc.base(Acts={'proc', 'process', 'inframe'}, Prios={0, 5}, Dts={1}, **base, **P4)
    wc.check_and_replay(res, 'c07_replacement', K2, own, depth_all=0, walks=20000 if th else 2000, walk_len=40)
    if th:
        Kt = wc.base(Acts={'proc', 'process', 'fault', 'inframe'}, Prios={-1, 0, 5}, Dts={0, 1}, **base, **P4)
        wc.check_and_replay(res, 'c07_all', Kt, own, depth_all=0, walks=0, edges=False)
    # desper.bisect against its contract (the insertion index decides the execution order)
    from .. import common, replay
    from ..adapters.bisect import BisectAdapter
    desper = common.import_desper()
    r, g = res.model_check_py('Bisect', 'c07_bisect', {'Vals': {-1, 0, 1, 5}, 'MaxLen': 5 if th else 4},
                           invariants=['RightContract', 'LeftContract', 'InsortKeepsSorted', 'RightIsAfterEquals'], dump=True)
    st = replay.run_paths(g, lambda: BisectAdapter(desper), replay.edge_paths(g))
    res.absorb(st, 'c07_bisect:every-input', g)
    wc.trace_validate(res, 'c07_recorded', wc.big({'proc', 'process', 'fault', 'toggle', 'clear', 'inframe'}), 2000 if th else 150, 60)
    wc.repo_tests_validate(res)
    if th:
        wc.simulate_big(res, salt=4)

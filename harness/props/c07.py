"""C07 — processors run once per frame in priority order, one per type (spec/World.tla, spec/Bisect.tla)."""
from . import world_common as wc


def run(res):
    own = wc.OWN['C07']
    th = res.tier == 'thorough'
    P = wc.procs({'p1': ('P1', ('on_add', 'on_remove')), 'p1b': ('P1', ()), 'p2': ('P2', ('on_remove',)), 'q': ('Q', ('on_add',))},
                 {'P1': ((), 0), 'P2': (('P1',), 0), 'Q': ((), 5)})
    K = wc.base(Acts={'proc', 'process', 'fault'}, Ids={1}, MaxAuto=1, Types={'A'}, Bases={'A': set()}, Prios={-1, 0, 5},
                Dts={0, 1}, **P)
    wc.check_and_replay(res, 'c07_processors', K, own, depth_all=4 if th else 3, walks=20000 if th else 3000, walk_len=40)
    wc.trace_validate(res, 'c07_recorded', wc.big({'proc', 'process', 'fault', 'toggle', 'clear'}), 2000 if th else 150, 60)

"""C03 — an enabled dispatcher delivers each event once to each listener (spec/Dispatcher.tla, spec/EventDeco.tla)."""
from . import dispatcher_common as dc


def run(res):
    thorough = res.tier == 'thorough'
    # registration histories with calls made from inside callbacks (add / remove / nested dispatch)
    c, ov = dc.consts(H=2, subs='Subs_Fixed', beh='Beh_C03', maxq=1, maxeid=2, clear=True)
    dc.check_and_replay(res, 'c03_h2', c, ov, depth_all=3, walks=3000)
    # three listeners (all iteration orders of one dispatch), only h1 misbehaves
    c, ov = dc.consts(H=3, subs='Subs_Fixed', beh='Beh_C03_H1', maxq=1, maxeid=2 if thorough else 1, clear=False)
    dc.check_and_replay(res, 'c03_h3', c, ov, depth_all=0, walks=2000)
    dc.trace_validate(res, 1000 if thorough else 100, 50)
    dc.repo_tests_validate(res)
    if thorough:
        dc.simulate_big(res)
    # class-hierarchy clause: event_handler composes inherited mappings without altering the bases
    from .eventdeco import run_deco
    run_deco(res)

"""throw-away driver for run_deco"""
from .eventdeco import run_deco


def run(res):
    run_deco(res)

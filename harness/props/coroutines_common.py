"""Shared driver for the properties decided on spec/Coroutines.tla (C08, C09)."""
from .. import common, replay
from ..adapters.coroutines import CoroutinesAdapter

INVARIANTS = ['NoBad', 'SentinelFirst', 'StateCoherent', 'NoDuplicates', 'StructuresAgree', 'PromiseHoldsReturn', 'TimerInvariant']
PROPERTIES = ['ErrorsChangeNothing', 'ReleasedInTime', 'WakeExactlyOnTime', 'OneStepPerFrame', 'RelativeOrderKept']


def check_and_replay(res, name, K, own=None, depth_all=4, walks=2000, walk_len=30, dump=True):
    desper = common.import_desper()
    r, g = res.model_check_py('Coroutines', name, K, invariants=INVARIANTS, properties=PROPERTIES, dump=dump)
    if not dump:
        return None

    def factory():
        return CoroutinesAdapter(desper, K)

    st = replay.run_paths(g, factory, replay.edge_paths(g), own=own)
    res.absorb(st, name + ':every-edge', g)
    if depth_all and not st.n_violations:
        st = replay.run_paths(g, factory, replay.all_paths(g, depth_all), own=own)
        res.absorb(st, name + ':all-paths-depth-%d' % depth_all, g)
    if walks and not st.n_violations:
        st = replay.run_paths(g, factory, replay.random_walks(g, walks, walk_len, res.seed), own=own)
        res.absorb(st, name + ':random-walks', g)
    for s, labs, _t in replay.random_walks(g, 2, 10, res.seed + 1):
        res.sample({'config': name, 'scripts': {k: [list(x) for x in v] for k, v in K['Script'].items()},
                    'calls': ['%s%s' % (n, list(a)) for n, a in labs]})
    return g

"""Shared driver for the properties decided on spec/Coroutines.tla (C08, C09)."""
from .. import common, replay
from ..adapters.coroutines import CoroutinesAdapter

INVARIANTS = ['NoBad', 'SentinelFirst', 'StateCoherent', 'NoDuplicates', 'StructuresAgree', 'PromiseHoldsReturn', 'TimerInvariant']
PROPERTIES = ['ErrorsChangeNothing', 'ReleasedInTime', 'WakeExactlyOnTime', 'OneStepPerFrame', 'RelativeOrderKept']


def check_and_replay(res, name, K, own=None, depth_all=4, walks=2000, walk_len=30, dump=True):
    desper = common.import_desper()
    r, g = res.model_check_py('Coroutines', name, K, invariants=INVARIANTS, properties=PROPERTIES, dump=dump)
    if not dump:
        return None

    def factory():
        return CoroutinesAdapter(desper, K)

    st = replay.run_paths(g, factory, replay.edge_paths(g), own=own)
    res.absorb(st, name + ':every-edge', g)
    if depth_all and not st.n_violations:
        st = replay.run_paths(g, factory, replay.all_paths(g, depth_all), own=own)
        res.absorb(st, name + ':all-paths-depth-%d' % depth_all, g)
    if walks and not st.n_violations:
        st = replay.run_paths(g, factory, replay.random_walks(g, walks, walk_len, res.seed), own=own)
        res.absorb(st, name + ':random-walks', g)
    for s, labs, _t in replay.random_walks(g, 2, 10, res.seed + 1):
        res.sample({'config': name, 'scripts': {k: [list(x) for x in v] for k, v in K['Script'].items()},
                    'calls': ['%s%s' % (n, list(a)) for n, a in labs]})
    return g


def trace_validate(res, name, n_coroutines, n_traces, n_calls):
    """Pipeline B: random scripts for n coroutines; random start/kill/process schedules on the real processor."""
    from .. import replay as _rp
    if _rp.REPLAY is not None:
        return
    import copy
    import os
    import random
    from .. import tracecheck, record_coroutines as rc, tla
    desper = common.import_desper()
    rnd = random.Random(res.seed)
    G, S = rc.random_scripts(rnd, n_coroutines)
    K = dict(G=G, Script=S, Dts={0, 1, 2, 3}, MaxTimer=1000000, WithKill=True, StartCancelsPendingKill=True, FinishDropsKillMark=True, BodyExceptionCleansUp=True)
    traces = rc.record(desper, K, res.seed, n_traces, n_calls)
    gen = 'CoroutinesTrace_%s' % name
    defs, consts, ov = [], {}, {}
    for k, v in K.items():
        if isinstance(v, (bool, int)):
            consts[k] = tla.to_tla(v)
        else:
            defs.append('K_%s == %s' % (k, tla.to_tla(v)))
            ov[k] = 'K_' + k
    with open(os.path.join(res.specdir, gen + '.tla'), 'w') as f:
        f.write('---- MODULE %s ----\nEXTENDS CoroutinesTrace\n%s\n====\n' % (gen, '\n'.join(defs)))
    rej = tracecheck.validate(res, gen, name, traces, consts, overrides=ov, invariants=INVARIANTS)
    res.traces += len(traces) - len(rej)
    res.cov.setdefault('trace_validation', {})[name] = {'coroutines': n_coroutines, 'traces': len(traces), 'events': sum(len(t['events']) for t in traces),
                                                        'accepted': len(traces) - len(rej), 'rejected': len(rej),
                                                        'scripts': {g: [list(x) for x in s] for g, s in S.items()}}
    for idx, at in rej[:5]:
        t = traces[idx] if idx >= 0 else None
        res.violation('recorded execution of CoroutineProcessor not explained by Coroutines.tla: trace %d, event %s' % (idx, at),
                      {'scripts': {g: [list(x) for x in s] for g, s in S.items()}, 'matched_events': at,
                       'history': [[e['op'], e['arg']] for e in (t['events'][:at + 1] if t and isinstance(at, int) else [])],
                       'next_event': t['events'][at] if t and isinstance(at, int) and at < len(t['events']) else None})
    res.sample({'recorded_schedule': [[e['op'], e['arg']] for e in traces[0]['events'][:12]], 'scripts': {g: [list(x) for x in s] for g, s in S.items()}})
    bad = copy.deepcopy(traces[:1])
    k = next((i for i, e in enumerate(bad[0]['events']) if e['log']), None)
    if k is not None and not rej:       # (a rejected recording is reported as it is: the self-test needs a sound trace)
        bad[0]['events'][k]['log'] = bad[0]['events'][k]['log'][:-1]
        r2 = tracecheck.validate(res, gen, name + '-corrupted', bad, consts, overrides=ov)
        res.cov['trace_validation'][name]['corrupted_trace_rejected_at_event'] = r2[0][1] if r2 else None
        if not (len(r2) == 1 and r2[0][1] == k):
            raise common.MachineryError('trace validation accepted a corrupted coroutine trace: %r (corrupted event %d)' % (r2, k))


def repo_tests_validate(res, node='tests'):
    """Pipeline B on the repository's own tests: the suite runs unmodified under harness/pytest_corecorder.py; every
    CoroutineProcessor a test uses yields one trace, the scripts of its coroutines are derived from what their bodies
    were seen doing; all traces are validated in one TLC run against CoroutinesTrace.tla, every invariant on."""
    import json
    import os
    import subprocess
    from .. import tracecheck, tla, replay as _rp
    if _rp.REPLAY is not None:
        return
    out = os.path.join(res.scratch, 'repo_coroutine_tests.json')
    env = dict(os.environ, VERIF_TRACE_OUT_CO=out, PYTHONPATH=common.VERIF + os.pathsep + os.environ.get('PYTHONPATH', ''))
    p = subprocess.run(['/venv/bin/python', '-m', 'pytest', '-q', '-p', 'no:cacheprovider', '-p', 'harness.pytest_corecorder', node],
                       cwd=common.REPO, env=env, stdout=subprocess.PIPE, stderr=subprocess.STDOUT, text=True, timeout=600)
    if not os.path.exists(out):
        raise common.MachineryError('recording the repository coroutine tests failed:\n' + p.stdout[-2000:])
    recs = json.load(open(out))
    usable = [r for r in recs if not r['unsupported'] and r['events']]
    G, S, dts, traces = [], {}, {0}, []
    for k, r in enumerate(usable):
        def nm(g, k=k):
            return 't%d_%s' % (k, g)
        base = len(G)
        idx = {g: base + i + 1 for i, g in enumerate(r['G'])}
        G += [nm(g) for g in r['G']]
        for g in r['G']:
            S[nm(g)] = tuple((op, idx[a] if op != 'y' and op != 'raise' else a) for op, a in r['Script'][g])
        dts |= set(r['Dts'])
        evs = []
        for e in r['events']:
            evs.append({'op': e['op'], 'arg': nm(e['arg']) if e['op'] != 'Process' else e['arg'], 'ret': e['ret'],
                        'log': [[nm(x[0]), x[1], x[2]] for x in e['log']],
                        'state': [[nm(g), s] for g, s in e['state']],
                        'pvalue': [[nm(g), (100 + idx[g]) if v == 'RET' else v] for g, v in e['pvalue']],
                        'held': []})
        traces.append({'events': evs})
    cov = res.cov.setdefault('trace_validation', {})
    cov['repository-tests'] = {'node': node, 'pytest_tail': p.stdout.strip().split('\n')[-1], 'processors_recorded': len(usable),
                               'tests': [r['test'] for r in usable], 'coroutines': len(G), 'events': sum(len(t['events']) for t in traces),
                               'unsupported': {r['test']: r['unsupported'] for r in recs if r['unsupported']}}
    if not traces:
        return
    K = dict(G=tuple(G), Script=S, Dts=dts, MaxTimer=10000000, WithKill=True, StartCancelsPendingKill=True, FinishDropsKillMark=True, BodyExceptionCleansUp=True)
    gen = 'CoroutinesTrace_repo'
    defs, consts, ov = [], {}, {}
    for k, v in K.items():
        if isinstance(v, (bool, int)):
            consts[k] = tla.to_tla(v)
        else:
            defs.append('K_%s == %s' % (k, tla.to_tla(v)))
            ov[k] = 'K_' + k
    with open(os.path.join(res.specdir, gen + '.tla'), 'w') as f:
        f.write('---- MODULE %s ----\nEXTENDS CoroutinesTrace\n%s\n====\n' % (gen, '\n'.join(defs)))
    rej = tracecheck.validate(res, gen, 'repo-tests', traces, consts, overrides=ov, invariants=INVARIANTS, shards=1)
    res.traces += len(traces) - len(rej)
    cov['repository-tests']['accepted'] = len(traces) - len(rej)
    # the binding is not vacuous: one recorded frame with its last log entry removed must be rejected at that event
    import copy
    small = min(range(len(traces)), key=lambda i: (not any(e['log'] for e in traces[i]['events']), len(traces[i]['events'])))
    bad = copy.deepcopy([traces[small]])
    kk = next((i for i, e in enumerate(bad[0]['events']) if e['log']), None)
    if kk is not None and not rej:
        bad[0]['events'][kk]['log'] = bad[0]['events'][kk]['log'][:-1]
        r2 = tracecheck.validate(res, gen, 'repo-tests-corrupted', bad, consts, overrides=ov, shards=1)
        cov['repository-tests']['corrupted_trace_rejected_at_event'] = r2[0][1] if r2 else None
        if not (len(r2) == 1 and r2[0][1] == kk):
            raise common.MachineryError('trace validation accepted a corrupted repository-test trace: %r (corrupted event %d)' % (r2, kk))
    for idx_, at in rej:
        t = usable[idx_] if idx_ >= 0 else None
        res.violation('execution of repository test %s not explained by Coroutines.tla (matched %s events)' % (t and t['test'], at),
                      {'test': t and t['test'], 'matched_events': at, 'scripts': t and t['Script'],
                       'history': [[e['op'], e['arg'], e['ret']] for e in (t['events'][:at + 1] if t and isinstance(at, int) else [])],
                       'next_event': t['events'][at] if t and isinstance(at, int) and at < len(t['events']) else None})


def apalache_timer_core(res):
    """Optional extra (unbounded integers): Apalache discharges the inductive invariant of spec/TimerCore.tla, the
    timing core of the coroutine scheduler, and the wake-exactly-on-time statement from any state satisfying it.
    No verdict depends on it: a missing tool or a timeout is recorded, a refuted obligation is a specification bug."""
    import os
    import shutil
    import subprocess
    import time
    from .. import replay as _rp
    if _rp.REPLAY is not None:
        return
    exe = shutil.which('apalache-mc')
    rec = res.cov.setdefault('apalache_timer_core', {})
    if not exe:
        rec['status'] = 'apalache-mc not found'
        return
    obligations = [('Init => IndInv', ['--init=Init', '--inv=IndInv', '--length=0']),
                   ('IndInv /\\ Next => IndInv\'', ['--init=IndInit', '--inv=IndInv', '--length=1']),
                   ('IndInv /\\ Next => WakeOnTime\'', ['--init=IndInit', '--inv=WakeOnTime', '--length=1'])]
    done = 0
    for name, args in obligations:
        out = os.path.join(res.scratch, 'apa-%d' % done)
        t = time.time()
        try:
            p = subprocess.run([exe, 'check'] + args + ['--out-dir=' + out, os.path.join(res.specdir, 'TimerCore.tla')],
                               stdout=subprocess.PIPE, stderr=subprocess.STDOUT, text=True, timeout=300, cwd=res.specdir)
        except subprocess.TimeoutExpired:
            rec[name] = 'timeout'
            continue
        ok = 'EXITCODE: OK' in p.stdout
        rec[name] = {'discharged': ok, 'wall_s': round(time.time() - t, 1)}
        if 'Checker has found an error' in p.stdout:
            raise common.MachineryError('Apalache refuted "%s" on TimerCore.tla: the inductive invariant is wrong\n%s' % (name, p.stdout[-1500:]))
        done += ok
    rec['obligations'] = len(obligations)
    rec['discharged'] = done
    rec['note'] = 'unbounded waits and dt, 3 coroutines; TimerCore.tla abstracts the wake-up arithmetic of Coroutines.tla (same equations: TimerInvariant)'


def simulate_big(res, sets=10, num_per_worker=60, depth=50):
    """Model-level exploration beyond the exhaustive instances (thorough tier): 4 coroutines with random scripts mixing
    waits, in-body kill / start / state calls (yielding or not) and bodies that raise, top-level kills, dt in 0..3:
    `tlc -simulate` evaluates every invariant and action property along random behaviours.  Nothing is replayed
    (recorded executions - pipeline B - cover the code at that scale): this looks for interactions between features
    that no exhaustive instance combines, in the design itself."""
    import random
    from .. import record_coroutines as rc
    rnd = random.Random(res.seed)
    for i in range(sets):
        G, S = rc.random_scripts(rnd, 4)
        K = dict(G=G, Script=S, Dts={0, 1, 2, 3}, MaxTimer=30, WithKill=True, StartCancelsPendingKill=True, FinishDropsKillMark=True,
                 BodyExceptionCleansUp=True)
        res.simulate_py('Coroutines', 'sim_big_%d' % i, K, num_per_worker, depth, spec='Spec', invariants=INVARIANTS,
                        properties=PROPERTIES, parse=False, workers=16, timeout=600)

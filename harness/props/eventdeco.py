"""C03, class-hierarchy clause — handler classes inherit their bases' event mappings, extended and overridden by their
own, without altering the bases (spec/EventDeco.tla).  `run_deco(res)` is called from the C03 check."""
from concurrent.futures import ThreadPoolExecutor

from .. import common, replay
from ..adapters.eventdeco import EventDecoAdapter

INVARIANTS = ['TypeOK', 'MroMonotone', 'MappingIsInheritedOverridden', 'DispatchRunsMappedMethod']
PROPERTIES = ['BasesUntouched']


def consts(n, decos, shapes, union=True, new=True):
    c = {'N': n, 'AllowUnion': 'TRUE' if union else 'FALSE', 'ComposeBuildsNewMapping': 'TRUE' if new else 'FALSE'}
    return c, {'Decos': decos, 'Shapes': shapes}


def replay_graph(res, name, g, depth_all, walks, walk_len=12):
    desper = common.import_desper()

    def factory():
        return EventDecoAdapter(desper)

    st = replay.run_paths(g, factory, replay.edge_paths(g))
    res.absorb(st, name + ':every-edge', g)
    if not st.n_violations and depth_all:
        st = replay.run_paths(g, factory, replay.all_paths(g, depth_all))
        res.absorb(st, name + ':all-paths-depth-%d' % depth_all, g)
    if not st.n_violations and walks:
        # Decorate steps weighted down: walks interleave Register/Dispatch probes with the growth of the hierarchy
        st = replay.run_paths(g, factory, replay.random_walks(g, walks, walk_len, res.seed,
                                                              weight=lambda e: 1 if e[0] == 'Decorate' else 6))
        res.absorb(st, name + ':random-walks', g)
    for s, labs, _t in replay.random_walks(g, 1, 6, res.seed + 2):
        res.sample({'instance': name, 'calls': ['%s%s' % (n, [str(x) for x in a]) for n, a in labs]})


def run_deco(res):
    thorough = res.tier == 'thorough'
    res.assumptions += [
        'class hierarchies: up to 3 classes with every choice of 0..2 earlier bases in either order (quick), 4 classes on '
        'six shapes incl. chain and diamond; hierarchies rejected by type() (inconsistent MRO, duplicate base) are skipped',
        'with several bases carrying mappings both "first in MRO" (attribute lookup, what the decorator does) and the '
        'union of all bases (nearer in the MRO wins) are accepted for the inherited part of a decorated class',
        'only effective mappings (getattr(cls, "__events__", {})) are compared, not which class namespace holds the dict',
    ]
    instances = [
        ('deco_3', consts(3, 'Decos_5' if thorough else 'Decos_4', 'Shapes_All'), dict(depth_all=3, walks=1000)),
        ('deco_4', consts(4, 'Decos_5', 'Shapes_4') if thorough else consts(4, 'Decos_3', 'Shapes_4few'),
         dict(depth_all=0, walks=1000)),
    ]

    def mc(inst):
        name, (c, ov), _kw = inst
        return res.model_check('EventDecoMC', name, c, invariants=INVARIANTS, properties=PROPERTIES, overrides=ov,
                               dump=True, count=False, workers=6)

    def inplace():
        # non-vacuity of BasesUntouched: the in-place variant (`events |= ...`) alters the base's mapping
        c, ov = consts(3, 'Decos_4', 'Shapes_All', new=False)
        res.model_check('EventDecoMC', 'deco_3_inplace', c, invariants=['TypeOK'], properties=PROPERTIES, overrides=ov,
                        expect_violation='BasesUntouched', count=False, workers=4)

    with ThreadPoolExecutor(len(instances) + 1) as pool:
        futs = [pool.submit(mc, i) for i in instances]
        sw = pool.submit(inplace)
        for (name, _c, kw), fut in zip(instances, futs):
            r, g = fut.result()
            res.states += r.distinct
            res.transitions += r.states
            replay_graph(res, name, g, **kw)
        sw.result()

"""Shared driver for the properties decided on spec/Dispatcher.tla (C03, C04, C10)."""
from .. import common, replay
from ..adapters.dispatcher import DispatcherAdapter

INVARIANTS = ['TypeOK', 'RegisteredAreAlive', 'NoBad', 'OnlySubscribersCalled', 'QueueInOrder',
              'QueuedNotDelivered', 'ReleaseInOrder', 'DrainedOnReturn']
PROPERTIES = ['DeliveredToAllWhoStayed', 'StartsOnlyWhenEnabled', 'ReleaseProgress', 'UnknownEventIgnored']


def consts(H=2, ev=('a', 'b'), subs='Subs_AllA', beh='Beh_All', maxq=2, maxeid=3, clear=False,
           pops=True, skips=True, ghosts=True):
    hs = ['h%d' % i for i in range(1, H + 1)]
    c = {'H': '{' + ', '.join('"%s"' % h for h in hs) + '}',
         'Ev': '{' + ', '.join('"%s"' % e for e in ev) + '}',
         'MaxQ': maxq, 'MaxEid': maxeid, 'WithClear': 'TRUE' if clear else 'FALSE', 'Ghosts': 'TRUE' if ghosts else 'FALSE',
         'ReleasePopsBeforeDeliver': 'TRUE' if pops else 'FALSE',
         'DispatchSkipsDead': 'TRUE' if skips else 'FALSE'}
    ov = {'SubsChoices': subs, 'BehChoices': beh}
    return c, ov


def idle(st):
    return st['stack'] == ()


def check_and_replay(res, name, c, ov, depth_all=3, walks=2000, walk_len=25, own=None):
    desper = common.import_desper()
    # (M) the instance with history ghosts: all declarative properties
    cg = dict(c, Ghosts='TRUE')
    res.model_check('DispatcherMC', name + '_ghosts', cg, invariants=INVARIANTS, properties=PROPERTIES, overrides=ov)
    # (C) the same instance without ghosts (same operational behaviour, far fewer states) is dumped and replayed
    cl = dict(c, Ghosts='FALSE')
    r, g = res.model_check('DispatcherMC', name + '_lean', cl, invariants=['TypeOK', 'RegisteredAreAlive', 'NoDeadReceiver', 'QueueInOrder', 'DrainedOnReturn'],
                           properties=['ReleaseProgress'], overrides=ov, dump=True, count=False)
    q = g.quotient(idle)
    res.cov.setdefault('quotient', {})[name] = {'small_step_states': len(g.states), 'small_step_edges': g.n_edges(),
                                                'idle_states': len(q.states), 'call_outcomes': q.n_edges(),
                                                'initial_states': len(q.init)}

    def factory():
        return DispatcherAdapter(desper)

    st = replay.run_paths(q, factory, replay.edge_paths(q), own=own)
    res.absorb(st, name + ':every-call-outcome', q)
    if not st.n_violations and depth_all:
        st = replay.run_paths(q, factory, replay.all_paths(q, depth_all), own=own)
        res.absorb(st, name + ':all-paths-depth-%d' % depth_all, q)
    if not st.n_violations and walks:
        st = replay.run_paths(q, factory, replay.random_walks(q, walks, walk_len, res.seed), own=own)
        res.absorb(st, name + ':random-walks', q)
    # a sample behaviour
    for s, labs, _t in replay.random_walks(q, 2, 8, res.seed + 1):
        res.sample({'init': {'subs': str(dict(q.states[s]['subs'])), 'beh': str(dict(q.states[s]['beh']))},
                    'calls': ['%s%s' % (n, list(a)) for n, a in labs]})
    return q


def switch_run(res, name, c, ov, expect):
    res.model_check('DispatcherMC', name, c, invariants=INVARIANTS, properties=PROPERTIES, overrides=ov,
                    expect_violation=expect, count=False)


TRACE_CONSTS = {'H': '{"h1","h2","h3","h4","h5","h6"}', 'Ev': '{"a","b","c"}', 'SubsChoices': '{}', 'BehChoices': '{}',
                'MaxQ': 1000, 'MaxEid': 1000000, 'WithClear': 'TRUE', 'Ghosts': 'TRUE',
                'ReleasePopsBeforeDeliver': 'TRUE', 'DispatchSkipsDead': 'TRUE'}
TRACE_INV = ['TypeOK', 'RegisteredAreAlive', 'NoBad', 'OnlySubscribersCalled', 'QueueInOrder', 'QueuedNotDelivered', 'DrainedOnReturn']


def trace_validate(res, n_traces, n_calls, what='random-histories'):
    """Pipeline B: long random histories over 6 handlers / 3 events executed on the real dispatcher, recorded,
    and checked by TLC against DispatcherTrace.tla with every invariant of Dispatcher.tla on."""
    from .. import replay as _rp
    if _rp.REPLAY is not None:
        return
    import copy
    from .. import tracecheck, record_dispatcher as rd
    desper = common.import_desper()
    traces = rd.record(desper, res.seed, n_traces, n_calls)
    rej = tracecheck.validate(res, 'DispatcherTrace', what, traces, TRACE_CONSTS, invariants=TRACE_INV)
    res.traces += len(traces) - len(rej)
    res.cov.setdefault('trace_validation', {})[what] = {'traces': len(traces), 'events': sum(len(t['events']) for t in traces),
                                                        'accepted': len(traces) - len(rej), 'rejected': len(rej)}
    for idx, at in rej[:5]:
        t = traces[idx] if idx >= 0 else None
        res.violation('recorded execution not explained by Dispatcher.tla: trace %d, matched %s events' % (idx, at),
                      {'trace': t, 'matched_events': at})
    if traces:
        res.sample({'recorded_trace_header': traces[0]['header'], 'first_events': traces[0]['events'][:4]})
    # binding self-test: one corrupted observation must be rejected exactly there
    bad = copy.deepcopy(traces[:1])
    k = next((i for i, e in enumerate(bad[0]['events']) if e['log']), None)
    if k is not None and not rej:       # (a rejected recording is reported as it is: the self-test needs a sound trace)
        bad[0]['events'][k]['log'] = bad[0]['events'][k]['log'][:-1]
        r2 = tracecheck.validate(res, 'DispatcherTrace', what + '-corrupted', bad, TRACE_CONSTS)
        ok = len(r2) == 1 and r2[0][1] == k
        res.cov['trace_validation'][what]['corrupted_trace_rejected_at_event'] = r2[0][1] if r2 else None
        if not ok:
            raise common.MachineryError('trace validation accepted a corrupted trace (or rejected it at the wrong event): %r, corrupted event %d' % (r2, k))


def repo_tests_validate(res, test_file='tests/test_events.py'):
    """Pipeline B on the repository's own tests: the tests run unmodified under an observing pytest plugin; every
    test's use of an EventDispatcher becomes a trace validated by TLC against DispatcherTrace.tla."""
    import json
    import os
    import subprocess
    from .. import tracecheck, replay as _rp
    if _rp.REPLAY is not None:
        return
    out = os.path.join(res.scratch, 'repo_tests.json')
    env = dict(os.environ, VERIF_TRACE_OUT=out, PYTHONPATH=common.VERIF + os.pathsep + os.environ.get('PYTHONPATH', ''))
    p = subprocess.run(['/venv/bin/python', '-m', 'pytest', '-q', '-p', 'no:cacheprovider', '-p', 'harness.pytest_recorder', test_file],
                       cwd=common.REPO, env=env, stdout=subprocess.PIPE, stderr=subprocess.STDOUT, text=True, timeout=600)
    if not os.path.exists(out):
        raise common.MachineryError('recording the repository tests failed:\n' + p.stdout[-2000:])
    recs = json.load(open(out))
    usable = [r for r in recs if not r['unsupported'] and r['events']]
    # (TLC's JSON module has no null: pass only what the trace specification reads)
    rej = tracecheck.validate(res, 'DispatcherTrace', 'repo-tests', [{'header': r['header'], 'events': r['events']} for r in usable],
                              TRACE_CONSTS, invariants=TRACE_INV, shards=1)
    res.traces += len(usable) - len(rej)
    res.cov.setdefault('trace_validation', {})['repository-tests'] = {
        'test_file': test_file, 'pytest_tail': p.stdout.strip().split('\n')[-1],
        'tests_recorded': [r['test'] for r in usable], 'accepted': len(usable) - len(rej),
        'unsupported': {r['test']: r['unsupported'] for r in recs if r['unsupported']}}
    for idx, at in rej:
        t = usable[idx] if idx >= 0 else None
        res.violation('execution of repository test %s not explained by Dispatcher.tla (matched %s events)' % (t and t['test'], at),
                      {'trace': t, 'matched_events': at})


def simulate_big(res, num_per_worker=1000, depth=60):
    """Model-level exploration beyond the exhaustive instances (thorough tier): 3 handlers, every subscription
    pattern, every combination of handler behaviours (raise, disable, enable, add, remove, drop, nested dispatch),
    clear(), queue bound 3: `tlc -simulate` evaluates every invariant and property along random behaviours."""
    import os
    from .. import tlc
    c, ov = consts(H=3, subs='Subs_All', beh='Beh_All', maxq=3, maxeid=5, clear=True, ghosts=True)
    cfg = os.path.join(res.scratch, 'dispatcher_sim_big.cfg')
    tlc.write_cfg(cfg, spec='Spec', constants=c, invariants=INVARIANTS, properties=PROPERTIES, overrides=ov)
    r = tlc.run('DispatcherMC', cfg, res.scratch, simulate='num=%d' % num_per_worker, depth=depth, seed=res.seed, workers=16,
                timeout=900, module_dir=res.specdir)
    res.tlc_runs.append({'module': 'DispatcherMC', 'config': 'sim_big', 'mode': 'simulate num=%d/worker depth=%d' % (num_per_worker, depth),
                         'constants': {k: str(v) for k, v in c.items()}, 'invariants': INVARIANTS, 'properties': PROPERTIES,
                         'states_generated': r.states, 'wall_s': round(r.wall, 1), 'result': 'ok' if r.ok else r.violated})
    if not r.ok:
        raise common.MachineryError('intended model DispatcherMC/sim_big does not satisfy its own properties in simulation (%s) — '
                                    'specification bug\n%s' % (r.violated, r.out[-4000:]))
    res.transitions += r.states or 0

"""C16 — directory population mirrors the file tree under the rules (spec/Populator.tla)."""
import contextlib
import json
import os
import shutil
import tempfile

from .. import common, tla
from .. import replay as replay_mod      # `replay` is this module's --replay entry point
from ..adapters.populator import PopulatorAdapter, materialise, path_str

INVARIANTS = ['TypeOK', 'ColumnsAsStated', 'EveryAcceptedFileReachable', 'KeyIsRelPath', 'DirsOnTheWayAreMaps',
              'NothingElseAdded', 'FactoryGotPathAndArgs', 'NotADirectoryIsValueError', 'MissingSkipped', 'ErrorsAsStated']
PROPERTIES = ['NestKeepsOlderBeneath', 'NoNestReplaces']
LENIENT = ['glob order is a choice of the specification: files whose keys coincide may appear in either order',
           'the split of a map\'s handles into ChainMap layers is not compared, only each key\'s column (visible handle first)',
           'sub-maps: required for directories on the way to an accepted file, allowed for every directory under (or '
           'leading to) a populating rule\'s directory; empty / filtered-out directories may or may not appear',
           'outside the domain: dot-files, a trimmed file key equal to a sibling directory, rule paths other than '
           'plain relative names, parent/key back-links of maps (C11)',
           'repeated population may read another tree (root per call): a name that was a file may be a directory on the '
           'way to an accepted file later (then it is a sub-map and holds no handle); outside the domain: a directory '
           'that later is a file key, a file key that later is a directory from which nothing is taken',
           'special files (FIFOs, dangling symbolic links) as rule paths and as entries inside populated directories, with and '
           'without extensions the rules accept: nothing corresponds to them in the map; sockets and device nodes are not generated']


def consts(valueerror=True, drops=True):
    return {'NotADirValueError': 'TRUE' if valueerror else 'FALSE', 'NoNestDropsOlder': 'TRUE' if drops else 'FALSE'}


@contextlib.contextmanager
def memo_parse():
    """The scenario is printed in every state of its behaviour: parse each distinct text once."""
    orig, cache = tla.parse_value, {}

    def parse(s):
        v = cache.get(s)
        if v is None:
            v = cache[s] = orig(s)
        return v
    tla.parse_value = parse
    try:
        yield
    finally:
        tla.parse_value = orig


def module_of(family):
    return 'PopulatorMCT' if family.startswith('Sc_t') and family != 'Sc_tiny' else 'PopulatorMC'


def graph_of(res, family):
    with memo_parse():
        # 4 workers: TLC's dot writer is serialised, more workers only contend for it
        _r, g = res.model_check(module_of(family), family, consts(), invariants=INVARIANTS, properties=PROPERTIES,
                                overrides={'Scenarios': family}, dump=True, workers=4)
    return g


def check_and_replay(res, family):
    desper = common.import_desper()
    g = graph_of(res, family)
    scenarios = [g.states[i]['sc'] for i in g.init]
    base = tempfile.mkdtemp(prefix='c16-trees-', dir=res.scratch)
    try:
        roots = materialise(scenarios, base)

        def factory():
            return PopulatorAdapter(desper, roots)

        st = replay_mod.run_paths(g, factory, replay_mod.edge_paths(g))
        res.absorb(st, family + ':every-call-outcome', g)
        if not st.n_violations:
            # a behaviour is at most three calls: depth 3 enumerates every behaviour of the graph
            st = replay_mod.run_paths(g, factory, replay_mod.all_paths(g, 3))
            res.absorb(st, family + ':all-behaviours', g)
    finally:
        shutil.rmtree(base, ignore_errors=True)
    multi = sum(1 for s, outs in g.out.items() if len(outs) > 1)
    res.cov.setdefault('domain', {})[family] = {
        'scenarios': len(g.init), 'distinct_trees': len(roots), 'states_with_order_choice': multi,
        'distinct_rule_lists': len({sc['calls'] for sc in scenarios}),
        'multi_call_scenarios': sum(1 for sc in scenarios if len(sc['calls']) >= 2),
        'overlay_scenarios': sum(1 for sc in scenarios if len(sc['trees']) >= 2),
        'scenarios_with_a_fifo': sum(1 for sc in scenarios if any(t['specials'] for t in sc['trees'])),
        'scenarios_with_special_entries_inside_directories': sum(1 for sc in scenarios if any(len(p) > 1 for t in sc['trees'] for p in t['specials'])),
        'fresh_map_scenarios': sum(1 for sc in scenarios if sc['fresh'])}
    res.cov['distinct_behaviours'] = res.cov.get('distinct_behaviours', 0) + len(g.init)
    return g


def sample(res, g, pick):
    for i in g.init:
        sc = g.states[i]['sc']
        if pick(sc) and g.out.get(i):
            _n, _a, d = g.out[i][0]
            post = g.states[d]
            res.sample({'trees': [{'files': sorted(path_str(p) for p in t['files']), 'dirs': sorted(path_str(p) for p in t['dirs']),
                                   'fifos': sorted(path_str(p) for p in t['specials'])} for t in sc['trees']],
                        'ctor': {'nest': sc['cn'], 'trim': sc['ct']},
                        'calls': [{'add_rules': [(path_str(r['dir']), r['fac'], r['args'], sorted(r['exts'])) for r in c['add']],
                                   'nest': c['n'], 'trim': c['t'], 'reads_tree': c['root']} for c in sc['calls']],
                        'after_call_1': {'exc': post['exc'], 'maps': sorted(path_str(m) for m in post['maps']),
                                         'layers': {path_str(m): [{'.'.join(k): '%s (call %d, rule %d)' % (path_str(h['p']), h['c'], h['r'])
                                                                  for k, h in tla.fmap(l).items()} for l in ls]
                                                    for m, ls in tla.fmap(post['layers']).items()}}})
            return


def run(res):
    res.assumptions.extend(LENIENT)
    if res.tier == 'thorough':
        for fam in ('Sc_t1', 'Sc_t2', 'Sc_t3', 'Sc_t4', 'Sc_t5', 'Sc_t6'):
            g = check_and_replay(res, fam)
            if res.violations:
                break
    else:
        g = check_and_replay(res, 'Sc_quick')
    sample(res, g, lambda sc: len(sc['calls']) == 2 and len(sc['trees'][0]['files']) >= 2)
    sample(res, g, lambda sc: any(r['exts'] for c in sc['calls'] for r in c['add']) and len(sc['trees'][0]['dirs']) >= 2)
    sample(res, g, lambda sc: len(sc['trees']) == 2 and len(sc['calls']) == 3)
    # non-vacuity: as implemented, the model violates the properties
    res.model_check('PopulatorMC', 'asimpl_D18', consts(valueerror=False), invariants=INVARIANTS, properties=PROPERTIES,
                    overrides={'Scenarios': 'Sc_tiny'}, expect_violation=('NotADirectoryIsValueError', 'ErrorsAsStated'), count=False, workers=4)
    res.model_check('PopulatorMC', 'asimpl_nonest', consts(drops=False), invariants=INVARIANTS, properties=PROPERTIES,
                    overrides={'Scenarios': 'Sc_tiny'}, expect_violation=('ColumnsAsStated', 'NoNestReplaces'),
                    count=False, workers=4)


def replay(res, path):
    """./check C16 --replay FILE: run the one history of a replay file again."""
    with open(path) as f:
        doc = json.load(f)
    detail, family = doc['detail'], doc['summary'].split(':')[0]
    g = graph_of(res, family)
    starts = [i for i in g.init if tla.to_json(g.states[i]) == detail['init_state']]
    if not starts:
        raise common.MachineryError('the scenario of %s is not in family %s' % (path, family))
    base = tempfile.mkdtemp(prefix='c16-trees-', dir=res.scratch)
    try:
        adapter = PopulatorAdapter(common.import_desper(), materialise([g.states[starts[0]]['sc']], base))
        st = replay_mod.Stats()
        v = replay_mod.walk(g, adapter, [(n, tuple(a)) for n, a in detail['labels']], None, st, start=starts[0])
    finally:
        shutil.rmtree(base, ignore_errors=True)
    if v:
        st.violations.append(v)
        st.n_violations = 1
    res.absorb(st, family + ':replay', g)

"""C20 — transform setters notify listeners with the value that was stored (spec/Transform.tla)."""
from .. import common, replay
from ..adapters.transform import TransformAdapter

INVARIANTS = ['TypeOK', 'StoredIsReduced', 'NotifiedValueIsReadBack', 'OnlyMatchingEvent', 'OncePerListener']
PROPERTIES = ['ConstructedLikeAssigned', 'DefaultsNotShared', 'StoresAssigned']


def _set(xs):
    return '{' + ', '.join('"%s"' % x for x in xs) + '}'


def consts(t2, t3, vecs, ops, rot='Rot_All', subs='Subs_Some', ctor='Ctor_Some', reg='Reg_None', d20=True):
    c = {'T2': _set(t2), 'T3': _set(t3), 'L': _set(['l1', 'l2']), 'Vecs': _set(vecs),
         'WithListenerOps': 'TRUE' if ops else 'FALSE', 'RotationNotifiesStored': 'TRUE' if d20 else 'FALSE'}
    ov = {'Rot': rot, 'SubsChoices': subs, 'CtorChoices': ctor, 'RegChoices': reg}
    return c, ov


def check_and_replay(res, name, t2, t3, c, ov, depth_all=4, walks=1500, walk_len=20):
    """(M) all declarative properties on the instance; (C) its whole graph replayed on the real classes."""
    desper = common.import_desper()
    r, g = res.model_check('TransformMC', name, c, invariants=INVARIANTS, properties=PROPERTIES, overrides=ov, dump=True)
    kinds = dict([(t, '2d') for t in t2] + [(t, '3d') for t in t3])

    def factory():
        return TransformAdapter(desper, kinds)

    st = replay.run_paths(g, factory, replay.edge_paths(g))
    res.absorb(st, name + ':every-edge', g)
    if not st.n_violations and depth_all:
        # Build + (depth_all - 1) calls from one initial state per constructor/subscription choice would be
        # |Init| * 16^k paths: the exhaustive short paths start from every 7th initial state
        some = g.init[::7] or g.init
        saved, g.init = g.init, some
        try:
            st = replay.run_paths(g, factory, replay.all_paths(g, depth_all))
        finally:
            g.init = saved
        res.absorb(st, name + ':all-paths-depth-%d' % depth_all, g)
    if not st.n_violations and walks:
        st = replay.run_paths(g, factory, replay.random_walks(g, walks, walk_len, res.seed))
        res.absorb(st, name + ':random-walks', g)
    for s, labs, _t in replay.random_walks(g, 1, 7, res.seed + 1):
        res.sample({'instance': name, 'init': {'subs': str(dict(g.states[s]['subs'])), 'ctor': str(dict(g.states[s]['ctor'])),
                                               'reg': str(dict(g.states[s]['reg']))},
                    'calls': ['%s%s' % (n, list(a)) for n, a in labs]})
    return g


def run(res):
    thorough = res.tier == 'thorough'
    res.assumptions += [
        'rotations from {-370, -10, 0, 10, 359, 360, 370, 725} given as ints and as floats (exact in binary floating point); '
        'vectors are Vec2/Vec3 instances and plain tuples',
        'payloads, reads and constructor arguments are compared by value (10 == 10.0, Vec2(1, 2) == (1, 2)); in addition a '
        'vector payload must be the object the read returns right after the assignment; a read made inside the callback is '
        'not compared',
        'listener order within one dispatch is not compared (per-call log is a multiset)',
        'sharing of default objects between instances is flagged only if the shared object is mutable (Vec types are tuples)',
    ]
    vecs = ['va', 'vb']
    # one 2D transform, the full rotation alphabet, listeners added and removed, every constructor shape
    c, ov = consts(['p'], [], vecs, True)
    check_and_replay(res, 'c20_2d', ['p'], [], c, ov, depth_all=4, walks=1500)
    # one 3D transform (vector rotation, not reduced)
    c, ov = consts([], ['q'], vecs, True, rot='Rot_Few')
    check_and_replay(res, 'c20_3d', [], ['q'], c, ov, depth_all=4, walks=800)
    # two transforms with different (overlapping) listener sets: cross-talk between instances and between events,
    # default values of one instance after assignments on the other
    c, ov = consts(['p'], ['q'], ['va'], False, rot='Rot_Few', subs='Subs_Two', ctor='Ctor_Shapes', reg='Reg_Cross')
    check_and_replay(res, 'c20_2d3d', ['p'], ['q'], c, ov, depth_all=4, walks=1000)
    c, ov = consts(['p', 'q'], [], ['va'], False, rot='Rot_Few', subs='Subs_Two', ctor='Ctor_Shapes', reg='Reg_Cross')
    check_and_replay(res, 'c20_2d2d', ['p', 'q'], [], c, ov, depth_all=4, walks=1000)
    if thorough:
        c, ov = consts(['p'], ['q'], vecs, True, subs='Subs_Two', ctor='Ctor_None')
        res.model_check('TransformMC', 'c20_big', c, invariants=INVARIANTS, properties=PROPERTIES, overrides=ov)
    # non-vacuity, D20: with the setter as written at 05622c8 (dispatches the raw value) TLC finds the violation
    c, ov = consts(['p'], [], vecs, True, d20=False)
    res.model_check('TransformMC', 'c20_asimpl_rotation', c, invariants=INVARIANTS, properties=PROPERTIES, overrides=ov,
                    expect_violation='NotifiedValueIsReadBack', count=False)

"""C20 — transform setters notify listeners with the value that was stored (spec/Transform.tla)."""
from concurrent.futures import ThreadPoolExecutor

from .. import common
from .. import replay as rp      # not `replay`: main.py takes a module attribute of that name for a --replay entry point
from ..adapters.transform import TransformAdapter

INVARIANTS = ['TypeOK', 'StoredIsReduced', 'NotifiedValueIsReadBack', 'DeliveryReadsPayload', 'StoredIsLastAssigned',
              'LastNotificationIsReadBack', 'OnlyMatchingEvent', 'OncePerListener', 'RaiseEndsTheCall']
PROPERTIES = ['ConstructedLikeAssigned', 'DefaultsNotShared', 'StoresAssigned']
NEVER = 10 ** 9


def _set(xs):
    return '{' + ', '.join('"%s"' % x for x in xs) + '}'


def consts(t2, t3, vecs, ops, rot='Rot_All', subs='Subs_Some', ctor='Ctor_Some', reg='Reg_None', beh='Beh_Nop',
           d20=True, store_first=True):
    c = {'T2': _set(t2), 'T3': _set(t3), 'L': _set(['l1', 'l2']), 'Vecs': _set(vecs),
         'WithListenerOps': 'TRUE' if ops else 'FALSE', 'RotationNotifiesStored': 'TRUE' if d20 else 'FALSE',
         'StoreBeforeNotify': 'TRUE' if store_first else 'FALSE'}
    ov = {'Rot': rot, 'SubsChoices': subs, 'CtorChoices': ctor, 'RegChoices': reg, 'BehChoices': beh}
    return c, ov


def replay_graph(res, name, g, kinds, depth_all=4, init_stride=1, walks=1500, walk_len=20):
    """(C) the whole graph of one instance replayed on the real classes."""
    desper = common.import_desper()

    def factory():
        return TransformAdapter(desper, kinds)

    if rp.REPLAY is not None:
        # --replay: listener order / style / exception class of the original run came from a per-worker counter
        # that is not part of the record: execute the history under every combination until one diverges
        if not rp.REPLAY.get('done'):
            for k in range(TransformAdapter.VARIANTS):
                rp.REPLAY.pop('done', None)
                st = rp.run_paths(g, lambda: TransformAdapter(desper, kinds, start=k), ())
                if st.n_violations or not rp.REPLAY.get('done'):
                    break
            res.absorb(st, name + ':replay', g)
        return
    # max_violations: never stop a replay half-way.  Stopping means Pool.terminate() while workers are sending their
    # (large) statistics: a worker killed inside the result queue's lock leaves it locked and the check hangs (seen
    # once in some ten runs on a change that makes every other behaviour fail).  A failing family is replayed to
    # the end instead - at most what a passing run costs - and the families after it are skipped.
    st = rp.run_paths(g, factory, rp.edge_paths(g), max_violations=NEVER)
    res.absorb(st, name + ':every-edge', g)
    if not st.n_violations and depth_all:
        # Build + every sequence of (depth_all - 1) calls; from every init_stride-th initial state only
        saved, g.init = g.init, g.init[::init_stride]
        try:
            st = rp.run_paths(g, factory, rp.all_paths(g, depth_all), max_violations=NEVER)
        finally:
            g.init = saved
        res.absorb(st, name + ':all-paths-depth-%d' % depth_all, g)
    if not st.n_violations and walks:
        st = rp.run_paths(g, factory, rp.random_walks(g, walks, walk_len, res.seed), max_violations=NEVER)
        res.absorb(st, name + ':random-walks', g)
    for s, labs, _t in rp.random_walks(g, 1, 7, res.seed + 1):
        res.sample({'instance': name, 'init': {k: str(dict(g.states[s][k])) for k in ('subs', 'beh', 'ctor', 'reg')},
                    'calls': ['%s%s' % (n, list(a)) for n, a in labs]})


def run(res):
    thorough = res.tier == 'thorough'
    res.assumptions += [
        'rotations from {-370, -10, 0, 10, 359, 360, 370, 725} given as ints and as floats (exact in binary floating point); '
        'vectors are Vec2/Vec3 instances and plain tuples',
        'payloads, reads and constructor arguments are compared by value (10 == 10.0, Vec2(1, 2) == (1, 2)); in addition a '
        'vector payload must be the object a read made inside the callback returns',
        'listener order within one dispatch is a choice of the specification: the observed delivery sequence must be one '
        'of the sequences the model allows for the call (both orders of two listeners are steered through __hash__)',
        'listeners that re-assign the notified property from their callback ("clamp"): a listener that comes later in the '
        'iteration order is told the outer, already overwritten value last (stale delivery) - inherent to synchronous '
        'dispatch, not counted against C20; every non-stale last notification must equal the read, and the stored value '
        'must be the most recently assigned one',
        'sharing of default objects between instances is flagged only if the shared object is mutable (Vec types are tuples)',
        'listeners are instances of one decorated class each or (every other pair of behaviours) of ONE class with the '
        'event -> method mapping in a per-instance __events__, which is all the EventHandler protocol asks for',
        'a listener that raises from its callback (an Exception or a BaseException subclass of the harness): the value '
        'has been stored and stays stored, the listeners of the snapshot not yet served are not called (which ones '
        'were served before is the iteration order: a choice of the specification), the exception reaches the caller '
        'of the assignment - through the callback of a re-assigning listener too; "exactly once" is demanded of the '
        'assignments during which nobody raised, "at most once" of the others',
    ]
    vecs = ['va', 'vb']
    instances = [
        # one 2D transform, the full rotation alphabet, listeners added and removed, every constructor shape
        ('c20_2d', ['p'], [], consts(['p'], [], vecs, True), dict(init_stride=9, walks=1500)),
        # one 3D transform (rotation is a vector, stored as given)
        ('c20_3d', [], ['q'], consts([], ['q'], vecs, True, rot='Rot_Few'), dict(init_stride=3, walks=800)),
        # two transforms with different, overlapping listener sets: cross-talk between instances and between
        # events, values (defaults included) of one instance while the other one is assigned
        ('c20_2d3d', ['p'], ['q'], consts(['p'], ['q'], ['va'], False, rot='Rot_Few', subs='Subs_Two',
                                          ctor='Ctor_Shapes', reg='Reg_Cross'), dict(init_stride=2, walks=1000)),
        ('c20_2d2d', ['p', 'q'], [], consts(['p', 'q'], [], ['va'], False, rot='Rot_Few', subs='Subs_Two',
                                            ctor='Ctor_Shapes', reg='Reg_Cross'), dict(init_stride=3, walks=1000)),
        # a listener re-assigns the property it is told about (re-entrant setter): order of store and notify,
        # final value, complete delivery sequences for both iteration orders
        ('c20_clamp2d', ['p'], [], consts(['p'], [], vecs, False, rot='Rot_Few', subs='Subs_Both', ctor='Ctor_None',
                                          reg='Reg_Full', beh='Beh_Clamp'), dict(walks=800)),
        ('c20_clamp3d', [], ['q'], consts([], ['q'], vecs, False, rot='Rot_Few', subs='Subs_Both', ctor='Ctor_None',
                                          reg='Reg_Full', beh='Beh_Clamp'), dict(walks=800)),
        # a listener raises from its callback, alone or next to a re-assigning one: outcome of the call, how far the
        # dispatch got (both iteration orders), the value kept
        ('c20_raise2d', ['p'], [], consts(['p'], [], vecs, False, rot='Rot_Few', subs='Subs_Both', ctor='Ctor_None',
                                          reg='Reg_Full', beh='Beh_Raise'), dict(init_stride=3, walks=800)),
        ('c20_raise3d', [], ['q'], consts([], ['q'], vecs, False, rot='Rot_Few', subs='Subs_Both', ctor='Ctor_None',
                                          reg='Reg_Full', beh='Beh_Raise'), dict(init_stride=3, walks=800)),
    ]

    def mc(inst):
        name, _t2, _t3, (c, ov), _kw = inst
        return res.model_check('TransformMC', name, c, invariants=INVARIANTS, properties=PROPERTIES, overrides=ov,
                               dump=True, count=False, workers=4)

    def asimpl():
        # non-vacuity, D20: with the setter as written at 05622c8 (dispatches the raw value) TLC finds the violation
        c, ov = consts(['p'], [], vecs, True, d20=False)
        res.model_check('TransformMC', 'c20_asimpl_rotation', c, invariants=INVARIANTS, properties=PROPERTIES,
                        overrides=ov, count=False, workers=4,
                        expect_violation=('NotifiedValueIsReadBack', 'DeliveryReadsPayload', 'LastNotificationIsReadBack'))

    clamp3d = dict(rot='Rot_Few', subs='Subs_Both', ctor='Ctor_None', reg='Reg_Full', beh='Beh_Clamp')

    def swapped():
        # non-vacuity of the order properties: dispatch before store (the two statements of a setter swapped)
        c, ov = consts([], ['q'], vecs, False, store_first=False, **clamp3d)
        res.model_check('TransformMC', 'c20_notify_before_store', c, invariants=INVARIANTS, properties=PROPERTIES,
                        overrides=ov, count=False, workers=2,
                        expect_violation=('DeliveryReadsPayload', 'StoredIsLastAssigned', 'LastNotificationIsReadBack',
                                          'NotifiedValueIsReadBack', 'StoresAssigned'))
        # ... and "what survives is the most recent assignment" alone (a clamp overwritten by the outer store)
        res.model_check('TransformMC', 'c20_notify_before_store_final', c, invariants=['StoredIsLastAssigned'],
                        overrides=ov, count=False, workers=2, expect_violation='StoredIsLastAssigned')
        # ... with a raising listener (and nobody re-assigning: the only way these two can fail then) the value is
        # never stored: told to the listeners served, not what a read returns
        c, ov = consts([], ['q'], vecs, False, store_first=False, **dict(clamp3d, beh='Beh_RaiseOnly'))
        res.model_check('TransformMC', 'c20_raise_not_stored', c, overrides=ov, count=False, workers=2,
                        invariants=['NotifiedValueIsReadBack', 'StoredIsLastAssigned'],
                        expect_violation=('NotifiedValueIsReadBack', 'StoredIsLastAssigned'))
        # documentation: without the stale-delivery exception the property fails on the *intended* model
        c, ov = consts([], ['q'], vecs, False, **clamp3d)
        res.model_check('TransformMC', 'c20_strict_last_notification', c, invariants=['LastNotificationIsReadBackStrict'],
                        overrides=ov, count=False, workers=2, expect_violation='LastNotificationIsReadBackStrict')

    def big():
        # (M) only: both kinds together, every rotation, listeners added and removed on both (too large to replay)
        c, ov = consts(['p'], ['q'], vecs if thorough else ['va'], True, subs='Subs_Some' if thorough else 'Subs_Two',
                       ctor='Ctor_None')
        r, _g = res.model_check('TransformMC', 'c20_both_full', c, invariants=INVARIANTS, properties=PROPERTIES,
                                overrides=ov, count=False, workers=8)
        # both kinds with a clamping / a raising listener registered on one or both of them
        for beh in ('Beh_Clamp', 'Beh_Raise') if thorough else ():
            c, ov = consts(['p'], ['q'], vecs, False, rot='Rot_Few', subs='Subs_Both', ctor='Ctor_None', reg='Reg_Cross',
                           beh=beh)
            r2, _g = res.model_check('TransformMC', 'c20_both_' + beh[4:].lower(), c, invariants=INVARIANTS,
                                     properties=PROPERTIES, overrides=ov, count=False, workers=8)
            r.distinct += r2.distinct
            r.states += r2.states
        return r, None

    # the TLC runs are independent processes: start them together, replay as the graphs arrive
    with ThreadPoolExecutor(len(instances) + 3) as pool:
        futs = [pool.submit(mc, i) for i in instances]
        others = [pool.submit(asimpl), pool.submit(big), pool.submit(swapped)]
        for inst, fut in zip(instances, futs):
            name, t2, t3, _c, kw = inst
            r, g = fut.result()
            res.states += r.distinct
            res.transitions += r.states
            replay_graph(res, name, g, dict([(t, '2d') for t in t2] + [(t, '3d') for t in t3]), **kw)
        others[0].result()
        others[2].result()
        r, _g = others[1].result()
        res.states += r.distinct
        res.transitions += r.states

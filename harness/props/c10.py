"""C10 — handlers are held weakly and never called after they are gone (spec/Dispatcher.tla)."""
from . import dispatcher_common as dc


def run(res):
    thorough = res.tier == 'thorough'
    c, ov = dc.consts(H=2, subs='Subs_AllA', beh='Beh_C10', maxq=1, maxeid=2, clear=False)
    dc.check_and_replay(res, 'c10_h2', c, ov, depth_all=3, walks=3000)
    # three listeners: the killer runs before / between / after its victims, all orders
    c, ov = dc.consts(H=3, subs='Subs_Fixed', beh='Beh_C10_H1', maxq=1, maxeid=2 if thorough else 1, clear=False)
    dc.check_and_replay(res, 'c10_h3', c, ov, depth_all=0, walks=2000)
    # a handler whose event mapping is empty is a registered handler like any other: removed when asked, forgotten when dropped
    c, ov = dc.consts(H=2, subs='Subs_OneSilent', beh='Beh_C10', maxq=1, maxeid=2, clear=False)
    dc.check_and_replay(res, 'c10_silent', c, ov, depth_all=3, walks=500)
    dc.trace_validate(res, 1000 if thorough else 100, 50)
    # ... and therefore a World: a probe listener deletes, from inside its callback, another entity whose components
    # listen to the same event; the world held the only strong reference to them (weak harness)
    from . import world_common as wc
    from .. import common, replay
    from ..adapters.world import WorldAdapter
    C3 = {'c1': ('A', ('on_add', 'on_remove', 'probe')), 'c2': ('A', ('probe',)), 'c3': ('B', ('on_remove', 'probe'))}
    Kw = wc.base(Acts={'create', 'add', 'remove', 'delete', 'process', 'probe', 'probekill', 'reentrant', 'toggle'}, MaxQ=2, Ids={1, 2}, MaxAuto=0, Types=wc.T2, Bases=wc.BASES2,
                 **wc.comps(C3))
    desper = common.import_desper()
    r, g = res.model_check_py('World', 'c10_world', Kw, invariants=wc.INVARIANTS, properties=wc.PROPERTIES, dump=True)
    own = {'log', 'is_handler', 'ret', 'comps', 'enabled', 'wb_queue_len', 'alive_detached'}
    st = replay.run_paths(g, lambda: WorldAdapter(desper, Kw, weak=True), replay.edge_paths(g), own=own)
    res.absorb(st, 'c10_world:every-edge (world holds the only strong references)', g)
    # non-vacuity: as implemented (no dead-reference check) the model calls a dead receiver
    c2, ov2 = dc.consts(H=2, subs='Subs_AllA', beh='Beh_C10', maxq=1, maxeid=2, skips=False)
    dc.switch_run(res, 'c10_asimpl_dead', c2, ov2, expect=('NoBad',))

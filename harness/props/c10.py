"""C10 — handlers are held weakly and never called after they are gone (spec/Dispatcher.tla)."""
from . import dispatcher_common as dc


def run(res):
    thorough = res.tier == 'thorough'
    c, ov = dc.consts(H=2, subs='Subs_AllA', beh='Beh_C10', maxq=1, maxeid=2, clear=False)
    dc.check_and_replay(res, 'c10_h2', c, ov, depth_all=3, walks=3000)
    # three listeners: the killer runs before / between / after its victims, all orders
    c, ov = dc.consts(H=3, subs='Subs_Fixed', beh='Beh_C10_H1', maxq=1, maxeid=2, clear=False)
    dc.check_and_replay(res, 'c10_h3', c, ov, depth_all=0, walks=2000)
    dc.trace_validate(res, 1000 if thorough else 100, 50)
    # non-vacuity: as implemented (no dead-reference check) the model calls a dead receiver
    c2, ov2 = dc.consts(H=2, subs='Subs_AllA', beh='Beh_C10', maxq=1, maxeid=2, skips=False)
    dc.switch_run(res, 'c10_asimpl_dead', c2, ov2, expect=('NoBad',))

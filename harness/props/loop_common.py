"""Shared driver for the properties decided on spec/Loop.tla (C13, C14)."""
from .. import common, replay
from ..adapters.loop import LoopAdapter

INV = ['CurrentEnabled', 'StartAlwaysFresh']
PROPS_C14 = ['FirstDtZero', 'DtIsDifference', 'LastIsReading', 'QuitReturnsNormally', 'OnQuitDeliveredInCurrent']
PROPS_C13 = ['RunsOnlyCurrent', 'FrameAbandoned', 'OutOnceInLeft', 'InOnceInEntered', 'LeftWorldMuted', 'ClearYieldsFresh']


def consts(**kw):
    K = dict(Hs={'A', 'B'}, MaxInst=4, MaxFrames=3, Incs={0, 2}, Sites={'p1', 'p2'},
             Reqs={'nop', 'switch', 'raise', 'quit', 'quit_loop', 'error', 'poke'},
             SwitchClearsBeforeLoad=True, StartResetsInFinally=True, SelfSwitchByHandle=True)
    K.update(kw)
    return K


def check_and_replay(res, name, K, invariants, properties, own=None, depth_all=0, walks=1000, walk_len=8, edges=True):
    desper = common.import_desper()
    r, g = res.model_check_py('Loop', name, K, invariants=invariants, properties=properties, dump=True)

    def factory():
        return LoopAdapter(desper, K)

    st = None
    if edges:
        st = replay.run_paths(g, factory, replay.edge_paths(g), own=own)
        res.absorb(st, name + ':every-edge', g)
    if walks and not (st and st.n_violations):
        st = replay.run_paths(g, factory, replay.random_walks(g, walks, walk_len, res.seed), own=own)
        res.absorb(st, name + ':random-walks', g)
    for s, labs, _t in replay.random_walks(g, 2, 6, res.seed + 1):
        res.sample({'config': name, 'calls': ['%s%s' % (n, list(a)) for n, a in labs]})
    return g


BIG = dict(Hs={'A', 'B', 'C'}, MaxInst=14, MaxFrames=25, Incs={0, 1, 3}, Sites={'p1', 'upd', 'co', 'p2'},
           Reqs={'nop', 'switch', 'raise', 'quit', 'quit_loop', 'quitto', 'error', 'poke', 'clrquit', 'qlerr', 'switchq', 'direct', 'respawn'},
           SwitchClearsBeforeLoad=True, StartResetsInFinally=True, SelfSwitchByHandle=True)


def simulate_and_replay(res, name, num, depth, own=None, K=None):
    """Beyond the dumpable instances: three handles, every request kind at every site, runs of up to 25 frames with
    restarts of the same loop object - random behaviours from `tlc -simulate` on spec/LoopSim.tla (all invariants and
    action properties checked along them), each replayed step by step on the real SimpleLoop."""
    K = dict(K or BIG)
    desper = common.import_desper()
    g, paths = res.simulate_py('LoopSim', name, K, num, depth, invariants=INV, properties=PROPS_C13 + PROPS_C14)

    def factory():
        return LoopAdapter(desper, K)

    st = replay.run_paths(g, factory, iter(paths), own=own, chunk=8)
    res.absorb(st, name + ':simulated-behaviours', g)
    if paths:
        res.sample({'config': name, 'calls': ['%s%s' % (n, list(a)) for n, a in paths[0][1][:12]]})
    return g

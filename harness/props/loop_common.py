"""Shared driver for the properties decided on spec/Loop.tla (C13, C14)."""
from .. import common, replay
from ..adapters.loop import LoopAdapter

INV = ['CurrentEnabled', 'StartAlwaysFresh']
PROPS_C14 = ['FirstDtZero', 'DtIsDifference', 'LastIsReading', 'QuitReturnsNormally', 'OnQuitDeliveredInCurrent']
PROPS_C13 = ['RunsOnlyCurrent', 'FrameAbandoned', 'OutOnceInLeft', 'InOnceInEntered', 'LeftWorldMuted', 'ClearYieldsFresh']


def consts(**kw):
    K = dict(Hs={'A', 'B'}, MaxInst=4, MaxFrames=3, Incs={0, 2}, Sites={'p1', 'p2'},
             Reqs={'nop', 'switch', 'raise', 'quit', 'quit_loop', 'error', 'poke'},
             SwitchClearsBeforeLoad=True, StartResetsInFinally=True)
    K.update(kw)
    return K


def check_and_replay(res, name, K, invariants, properties, own=None, depth_all=0, walks=1000, walk_len=8, edges=True):
    desper = common.import_desper()
    r, g = res.model_check_py('Loop', name, K, invariants=invariants, properties=properties, dump=True)

    def factory():
        return LoopAdapter(desper, K)

    st = None
    if edges:
        st = replay.run_paths(g, factory, replay.edge_paths(g), own=own)
        res.absorb(st, name + ':every-edge', g)
    if walks and not (st and st.n_violations):
        st = replay.run_paths(g, factory, replay.random_walks(g, walks, walk_len, res.seed), own=own)
        res.absorb(st, name + ':random-walks', g)
    for s, labs, _t in replay.random_walks(g, 2, 6, res.seed + 1):
        res.sample({'config': name, 'calls': ['%s%s' % (n, list(a)) for n, a in labs]})
    return g

"""C14 — SimpleLoop feeds exact time deltas and stops cleanly on Quit (spec/Loop.tla)."""
from . import loop_common as lc
from . import game_common as gm

OWN = {'ret', 'log', 'loop'}


def run(res):
    th = res.tier == 'thorough'
    # time accounting across switches, quits and errors at every site, restarts of the same loop object.
    # (thorough: all four request sites; runs longer than three frames are covered by the simulated behaviours below -
    # four frames at four sites cost half an hour of replay for no new kind of behaviour)
    K = lc.consts(MaxFrames=3, Sites={'p1', 'upd', 'co', 'p2'} if th else {'p1', 'p2'},
                  Reqs={'nop', 'switch', 'raise', 'quit', 'quit_loop', 'quitto', 'clrquit', 'error', 'qlerr', 'direct'}, Hs={'A', 'B'})
    lc.check_and_replay(res, 'c14_time', K, lc.INV, lc.PROPS_C14, own=OWN, walks=3000 if th else 1000, walk_len=10)
    lc.simulate_and_replay(res, 'c14_simulated', 1500 if th else 250, 30, own=OWN)
    # composed end to end (spec/Game.tla): the dt every processor of the running world sees, across switches requested
    # by the worlds' own processors (frames abandoned half way, handles cleared and reloaded)
    gm.check_and_replay(res, 'c14_game', gm.consts(MaxFrames=4 if th else 3, Incs={0, 1, 3}),
                        own={'dts', 'iterations', 'exc'}, walks=2000 if th else 300)
    K2 = dict(lc.consts(), StartResetsInFinally=False)
    res.model_check_py('Loop', 'c14_asimpl_start', K2, invariants=lc.INV, properties=lc.PROPS_C14,
                       expect_violation=('StartAlwaysFresh', 'FirstDtZero'), count=False)

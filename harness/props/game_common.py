"""Shared driver for spec/Game.tla: Loop o World o CoroutineProcessor o Handle composed end to end (C08, C13, C14)."""
from .. import common, replay
from ..adapters.game import GameAdapter

INV = ['TypeOK', 'NoOversleep']
PROPS = ['WakeOnWorldTime', 'OthersFrozen', 'GenMonotone', 'FreshRunsAtOnce']


def consts(**kw):
    K = dict(Hs={'A', 'B'}, Wait={'A': 3, 'B': 2}, Incs={0, 1, 2}, MaxFrames=5, MaxGen=3, WakeAtDeadline=True)
    K.update(kw)
    return K


def check_and_replay(res, name, K=None, own=None, walks=1500, walk_len=8, edges=True):
    """Exhaustive TLC run of the composed module, then its behaviours on the real SimpleLoop running real worlds
    whose CoroutineProcessor holds a sleeping coroutine: every edge once, then random walks."""
    K = K or consts()
    desper = common.import_desper()
    r, g = res.model_check_py('Game', name, K, invariants=INV, properties=PROPS, dump=True, workers=4)

    def factory():
        return GameAdapter(desper, K)

    st = None
    if edges:
        st = replay.run_paths(g, factory, replay.edge_paths(g), own=own)
        res.absorb(st, name + ':every-edge', g)
    if walks and not (st and st.n_violations):
        st = replay.run_paths(g, factory, replay.random_walks(g, walks, walk_len, res.seed), own=own)
        res.absorb(st, name + ':random-walks', g)
    for s, labs, _t in replay.random_walks(g, 1, 6, res.seed + 1):
        res.sample({'config': name, 'calls': ['%s%s' % (n, list(a)) for n, a in labs]})
    return g


def model_only(res, name, K):
    """Instances too large to dump: the TLC properties of the composed module over more handles, frames and instances."""
    res.model_check_py('Game', name, K, invariants=INV, properties=PROPS, dump=False)


def non_vacuity(res, name):
    """A sleeper woken one comparison too late: TLC must report the wake-up properties of the composed module."""
    res.model_check_py('Game', name, consts(MaxFrames=4, WakeAtDeadline=False), invariants=INV, properties=PROPS,
                       expect_violation=('NoOversleep', 'WakeOnWorldTime'), count=False)

"""C17 — a static resource map is a faithful, immutable mirror (spec/Resources.tla)."""
from . import resources_common as rc
from ..adapters.resources import FACETS_STATIC

LENIENT = [
    'C17: names colliding with the snapshot\'s own members (get, _handle_names, __class__, ...) are not generated',
    'C17: attribute access is exercised for identifier names only (real attribute syntax where the grammar allows, '
    'getattr for keywords); item access and get for every name',
    'C17: item access with a composite key on the snapshot (s["a/b"]) is not demanded, paths are walked one name at a time',
    'C17: what an absent name or a mutation attempt raises is compared as "raises", the class is not',
    'C17: a snapshot is a frozen mirror: while its map changes it keeps answering as when it was taken (it neither '
    'follows the map nor breaks); get_static_map() called again after the change must mirror the map as it is then.  '
    'One snapshot is looked at at a time (the latest), through a bounded number of changes (KeepSnap)',
    'C17: writing through the instance __dict__ that non-identifier names force into existence is not an '
    '"attempt to set an attribute" in the weaker reading; only setattr / delattr are exercised',
]
OPS_NAMES = '{"set", "snap", "sattr", "sitem", "sget", "smut"}'
OPS_NAMES_PUSH = '{"set", "push", "snap", "sattr", "sitem", "sget", "smut"}'
OPS_RESNAP = '{"set", "clear", "snap", "sitem"}'                         # (get is read after every step anyway: smirror)
OPS_RESNAP_ALL = '{"set", "clear", "snap", "sattr", "sitem", "sget"}'
OPS_LAYERS = '{"set", "push", "item", "snap", "sattr", "sitem", "sget", "smut"}'
INV = rc.INV_STATIC + ['AtMostOneLoad', 'CachedTellsTruth']
PROP = rc.PROP_STATIC + ['SameObject']


def _configs(thorough):
    if thorough:
        return {'c17_names': rc.consts(maps=2, handles=2, layers=2, gen=1, ops=OPS_NAMES_PUSH, builders=['m0'], phased=True,
                                       cls='Cls_Mix'),
                'c17_deep': rc.consts(maps=3, handles=2, layers=1, gen=1, ops=OPS_NAMES, builders=['m0'], phased=True,
                                      cls='Cls_Two'),
                'c17_layers': rc.consts(maps=2, handles=2, layers=2, gen=1, ops=OPS_LAYERS, builders=['m0'], phased=True,
                                        cls='Cls_Two'),
                'c17_resnap': rc.consts(maps=2, handles=2, layers=1, gen=1, ops=OPS_RESNAP_ALL, receivers=['m0'], resnap=True,
                                        keep_snap=1),
                'c17_resnap_layers': rc.consts(maps=3, handles=2, layers=2, gen=1, receivers=['m0'], resnap=True,
                                               ops='{"set", "clear", "push", "snap", "sget"}')}
    # every lexical class of names (slots / __dict__ / mangling), flat and nested; then layered handles; then
    # snapshot - change the root or a sub-map directly - read the old snapshot (it has not moved) - snapshot again
    return {'c17_names': rc.consts(maps=2, handles=2, layers=1, gen=1, ops=OPS_NAMES, builders=['m0'], phased=True,
                                   cls='Cls_Mix'),
            'c17_layers': rc.consts(maps=2, handles=2, layers=2, gen=1, ops=OPS_LAYERS, builders=['m0'], receivers=['m0'],
                                    phased=True, cls='Cls_Plain'),
            'c17_resnap': rc.consts(maps=2, handles=2, layers=1, gen=1, ops=OPS_RESNAP, receivers=['m0'], resnap=True,
                                    keep_snap=1)}


def run(res):
    thorough = res.tier == 'thorough'
    rc.note_leniencies(res, LENIENT)
    # non-vacuity: private-style names declared as __slots__ (as implemented) make the snapshot impossible
    join = rc.switch_runs(res, [('c17_asimpl_StaticSlotsUnmangled',
                                 rc.consts(maps=2, handles=2, layers=1, gen=1, ops=OPS_NAMES, builders=['m0'], phased=True,
                                           cls='Cls_Private', StaticSlotsUnmangled=False),
                                 INV, PROP, ('SnapshotSucceeds',)),
                                # (no defect behind it) a snapshot whose _handle_names is a live view of the map's table
                                # answers differently once the map has moved on
                                ('c17_mutant_live_names',
                                 rc.consts(maps=2, handles=2, layers=1, gen=1, ops=OPS_RESNAP, receivers=['m0'], builders=['m0'],
                                           resnap=True, keep_snap=1, HandleNamesCopied=False),
                                 INV, PROP, ('SnapshotReadsThrough',))])
    cfgs = _configs(thorough)
    pre = rc.dumps_in_parallel(res, cfgs, INV, PROP)
    join()
    for name, (c, ov) in cfgs.items():
        rc.check_and_replay(res, name, c, ov, INV, PROP, own=FACETS_STATIC, probe=False,
                            depth_all=4 if name == 'c17_resnap' else 3,     # snapshot - change below - snapshot again
                            walks=3000 if thorough else 1000, walk_len=30, shifts=(0,), pre=pre[name])
        if res.violations:
            break
    if not res.violations:
        # (B) recorded executions: 6 maps, 8 handles, 5 names, keys up to depth 3, 3 layers, armed load faults, staging
        # moves, re-snapshots - and the repository's own tests that use ResourceMap / Handle
        from . import resources_trace as rt
        rt.trace_validate(res, 'c17_recorded', 600 if thorough else 100, 60 if thorough else 40)
        rt.repo_tests_validate(res)


def replay(res, path):
    cfgs = {n: (c, ov, FACETS_STATIC, False) for n, (c, ov) in _configs(res.tier == 'thorough').items()}
    rc.replay_file(res, path, cfgs)

"""Shared driver for the properties decided on spec/World.tla (C01, C02, C05, C07, C19)."""
from .. import common, replay
from ..adapters.world import WorldAdapter

SWITCHES = ['ReplaceBeforeIndex', 'AutoIdSkipsUsed', 'ImmediateDeleteNotifies', 'ClearKeepsSelf',
            'RelayOnlyDeclared', 'CreateNotifiesReplaced', 'ClearDeadGuards', 'WalkVisitsOnce']

INVARIANTS = ['MarksHaveRows', 'IndexIsTranspose', 'RowsWellTyped', 'OneOwner', 'QueriesAgree', 'AutoIdFresh',
              'RegisteredIffAttached', 'WorldListensToItself', 'NoBadRelay', 'DrainedWhenEnabled', 'PendingConsistent',
              'SortedStable', 'OnePerType', 'AddedKnowsWorld']
PROPERTIES = ['FreedAfterProcess', 'MarkHidesAtOnce', 'ProcessNeverFails', 'NoPermanentFailure',
              'InsertAfterEquals', 'KeepsRelativeOrder']

T5 = {'A', 'B', 'C', 'D', 'X'}
BASES5 = {'A': set(), 'B': {'A'}, 'C': {'A'}, 'D': {'B', 'C'}, 'X': set()}
T2 = {'A', 'B'}
BASES2 = {'A': set(), 'B': {'A'}}

OWN = {
    'C01': {'ret', 'get', 'get_component', 'has', 'comps', 'exists', 'entities', 'wb_tables'},
    'C02': {'log', 'is_handler', 'self_handler', 'enabled', 'wb_queue_len', 'ret'},
    'C05': {'exists', 'entities', 'comps', 'log', 'ret', 'get'},
    'C07': {'processors', 'get_processor', 'pworld', 'pprio', 'log', 'ret'},
}


def base(**kw):
    K = dict(Ids={1, 2}, MaxAuto=2, Types=T5, Bases=BASES5,
             Comps=set(), TypeOf={}, Decl={},
             Procs=set(), PTypes=set(), PBases={}, PTypeOf={}, PDefault={}, PDecl={},
             Prios=set(), Dts={1}, MaxQ=0, Acts=set())
    for s in SWITCHES:
        K[s] = True
    K.update(kw)
    return K


def comps(spec):
    """spec: {name: (type, decl-set)}"""
    return dict(Comps=set(spec), TypeOf={c: v[0] for c, v in spec.items()}, Decl={c: set(v[1]) for c, v in spec.items()})


def procs(spec, ptypes):
    """spec: {name: (ptype, decl)}, ptypes: {ptype: (bases, default prio)}"""
    return dict(Procs=set(spec), PTypeOf={p: v[0] for p, v in spec.items()}, PDecl={p: set(v[1]) for p, v in spec.items()},
                PTypes=set(ptypes), PBases={t: set(v[0]) for t, v in ptypes.items()}, PDefault={t: v[1] for t, v in ptypes.items()})


def check_and_replay(res, name, K, own, depth_all=3, walks=2000, walk_len=30, invariants=INVARIANTS,
                     properties=PROPERTIES, edges=True, label_filter=None):
    desper = common.import_desper()
    r, g = res.model_check_py('World', name, K, invariants=invariants, properties=properties, dump=True)

    def factory():
        return WorldAdapter(desper, K)

    st = None
    if edges:
        st = replay.run_paths(g, factory, replay.edge_paths(g), own=own)
        res.absorb(st, name + ':every-edge', g)
    if depth_all and not (st and st.n_violations):
        st = replay.run_paths(g, factory, replay.all_paths(g, depth_all, label_filter=label_filter), own=own)
        res.absorb(st, name + ':all-paths-depth-%d' % depth_all, g)
    if walks and not (st and st.n_violations):
        st = replay.run_paths(g, factory, replay.random_walks(g, walks, walk_len, res.seed), own=own)
        res.absorb(st, name + ':random-walks', g)
    for s, labs, _t in replay.random_walks(g, 2, 10, res.seed + 1):
        res.sample({'config': name, 'calls': ['%s%s' % (n, list(a)) for n, a in labs]})
    return g


def switch_run(res, name, K, switch, expect, invariants=INVARIANTS, properties=PROPERTIES):
    K2 = dict(K)
    K2[switch] = False
    res.model_check_py('World', name + '_asimpl_' + switch, K2, invariants=invariants, properties=properties,
                       expect_violation=expect, count=False)

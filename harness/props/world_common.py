"""Shared driver for the properties decided on spec/World.tla (C01, C02, C05, C07, C19)."""
from .. import common, replay
from ..adapters.world import WorldAdapter

SWITCHES = ['ReplaceBeforeIndex', 'AutoIdSkipsUsed', 'ImmediateDeleteNotifies', 'ClearKeepsSelf',
            'RelayOnlyDeclared', 'CreateNotifiesReplaced', 'ClearDeadGuards', 'WalkVisitsOnce', 'CreateAttachesInTurn', 'SharedStaysRegistered']

INVARIANTS = ['MarksHaveRows', 'IndexIsTranspose', 'RowsWellTyped', 'OneOwner', 'QueriesAgree', 'AutoIdFresh',
              'RegisteredIffAttached', 'WorldListensToItself', 'NoBadRelay', 'DrainedWhenEnabled', 'PendingConsistent',
              'SortedStable', 'OnePerType', 'AddedKnowsWorld']
PROPERTIES = ['FreedAfterProcess', 'MarkHidesAtOnce', 'ProcessNeverFails', 'NoPermanentFailure',
              'InsertAfterEquals', 'KeepsRelativeOrder']

T5 = {'A', 'B', 'C', 'D', 'X'}
BASES5 = {'A': set(), 'B': {'A'}, 'C': {'A'}, 'D': {'B', 'C'}, 'X': set()}
T2 = {'A', 'B'}
BASES2 = {'A': set(), 'B': {'A'}}

OWN = {
    'C01': {'ret', 'get', 'get_component', 'has', 'comps', 'exists', 'entities', 'wb_tables', 'bystander'},
    'C02': {'log', 'is_handler', 'self_handler', 'enabled', 'wb_queue_len', 'ret', 'bystander'},
    'C05': {'exists', 'entities', 'comps', 'log', 'ret', 'get', 'bystander'},
    'C07': {'processors', 'get_processor', 'pworld', 'pprio', 'log', 'ret', 'bystander'},
}


def base(**kw):
    K = dict(Ids={1, 2}, MaxAuto=2, Types=T5, Bases=BASES5,
             Comps=set(), TypeOf={}, Decl={},
             Procs=set(), PTypes=set(), PBases={}, PTypeOf={}, PDefault={}, PDecl={},
             Prios=set(), Dts={1}, MaxQ=0, Acts=set())
    for s in SWITCHES:
        K[s] = True
    K.update(kw)
    return K


def comps(spec, falsy=()):
    """spec: {name: (type, decl-set)}; falsy: instances whose truth value is False (adapter-only)"""
    return dict(_Falsy=set(falsy), Comps=set(spec), TypeOf={c: v[0] for c, v in spec.items()}, Decl={c: set(v[1]) for c, v in spec.items()})


def procs(spec, ptypes):
    """spec: {name: (ptype, decl)}, ptypes: {ptype: (bases, default prio)}"""
    return dict(Procs=set(spec), PTypeOf={p: v[0] for p, v in spec.items()}, PDecl={p: set(v[1]) for p, v in spec.items()},
                PTypes=set(ptypes), PBases={t: set(v[0]) for t, v in ptypes.items()}, PDefault={t: v[1] for t, v in ptypes.items()})


def check_and_replay(res, name, K, own, depth_all=3, walks=2000, walk_len=30, invariants=INVARIANTS,
                     properties=PROPERTIES, edges=True, label_filter=None, weak_pass=False):
    desper = common.import_desper()
    r, g = res.model_check_py('World', name, K, invariants=invariants, properties=properties, dump=True)

    def factory():
        return WorldAdapter(desper, K)

    st = None
    if edges:
        st = replay.run_paths(g, factory, replay.edge_paths(g), own=own)
        res.absorb(st, name + ':every-edge', g)
    if weak_pass and not (st and st.n_violations):
        # the same edges with the world holding the ONLY strong reference to every attached component: what the world
        # owes a component after detaching it (a postponed on_remove) must not depend on somebody else keeping it alive
        st = replay.run_paths(g, lambda: WorldAdapter(desper, K, weak=True), replay.edge_paths(g), own=own)
        res.absorb(st, name + ':every-edge (world holds the only strong references)', g)
    if depth_all and not (st and st.n_violations):
        st = replay.run_paths(g, factory, replay.all_paths(g, depth_all, label_filter=label_filter), own=own)
        res.absorb(st, name + ':all-paths-depth-%d' % depth_all, g)
    if walks and not (st and st.n_violations):
        st = replay.run_paths(g, factory, replay.random_walks(g, walks, walk_len, res.seed), own=own)
        res.absorb(st, name + ':random-walks', g)
    for s, labs, _t in replay.random_walks(g, 2, 10, res.seed + 1):
        res.sample({'config': name, 'calls': ['%s%s' % (n, list(a)) for n, a in labs]})
    return g


def switch_run(res, name, K, switch, expect, invariants=INVARIANTS, properties=PROPERTIES):
    K2 = dict(K)
    K2[switch] = False
    res.model_check_py('World', name + '_asimpl_' + switch, K2, invariants=invariants, properties=properties,
                       expect_violation=expect, count=False)


def trace_validate(res, name, K, n_traces, n_calls, invariants=None):
    """Pipeline B: random histories over larger pools executed on the real World, recorded, validated by TLC."""
    from .. import replay as _rp
    if _rp.REPLAY is not None:
        return
    import copy
    import os
    from .. import tracecheck, record_world, tla
    desper = common.import_desper()
    traces = record_world.record(desper, K, res.seed, n_traces, n_calls)
    # constants go into a generated module, as in model_check_py
    gen = 'WorldTrace_%s' % name
    defs, consts, ov = [], {}, {}
    for k, v in K.items():
        if k.startswith('_'):
            continue
        if isinstance(v, (bool, int)):
            consts[k] = tla.to_tla(v)
        else:
            defs.append('K_%s == %s' % (k, tla.to_tla(v)))
            ov[k] = 'K_' + k
    with open(os.path.join(res.specdir, gen + '.tla'), 'w') as f:
        f.write('---- MODULE %s ----\nEXTENDS WorldTrace\n%s\n====\n' % (gen, '\n'.join(defs)))
    inv = invariants or [i for i in INVARIANTS]
    rej = tracecheck.validate(res, gen, name, traces, consts, overrides=ov, invariants=inv)
    res.traces += len(traces) - len(rej)
    res.cov.setdefault('trace_validation', {})[name] = {'traces': len(traces), 'events': sum(len(t['events']) for t in traces),
                                                        'accepted': len(traces) - len(rej), 'rejected': len(rej)}
    for idx, at in rej[:5]:
        t = traces[idx] if idx >= 0 else None
        ev = t['events'][at] if t and isinstance(at, int) and at < len(t['events']) else None
        res.violation('recorded execution of World not explained by World.tla: trace %d, event %s %s' % (
            idx, at, (ev or {}).get('op')), {'matched_events': at, 'next_event': ev,
                                             'history': [[e['op'], e['a1'], e['a2']] for e in (t['events'][:at + 1] if t and isinstance(at, int) else [])]})
    if traces and traces[0]['events']:
        res.sample({'recorded_trace_first_events': [[e['op'], e['a1'], e['a2'], e['ret']] for e in traces[0]['events'][:8]]})
    bad = copy.deepcopy(traces[:1])
    k = next((i for i, e in enumerate(bad[0]['events']) if e['entities']), None)
    if k is not None and not rej:       # (a rejected recording is reported as it is: the self-test needs a sound trace)
        bad[0]['events'][k]['entities'] = bad[0]['events'][k]['entities'][:-1]
        r2 = tracecheck.validate(res, gen, name + '-corrupted', bad, consts, overrides=ov)
        res.cov['trace_validation'][name]['corrupted_trace_rejected_at_event'] = r2[0][1] if r2 else None
        if not (len(r2) == 1 and r2[0][1] == k):
            raise common.MachineryError('trace validation accepted a corrupted World trace: %r (corrupted event %d)' % (r2, k))


BIG_COMPS = {'c1': ('A', ('on_add', 'on_remove')), 'c2': ('A', ('on_add',)), 'c3': ('B', ('on_remove',)), 'c4': ('B', ()),
             'c5': ('C', ('on_add', 'on_remove')), 'c6': ('D', ('on_add', 'on_remove')), 'c7': ('D', ()), 'c8': ('X', ('on_remove',)),
             'c9': ('A', ()), 'c10': ('C', ())}
BIG_PROCS = ({'p1': ('P1', ('on_add', 'on_remove')), 'p1b': ('P1', ()), 'p2': ('P2', ('on_remove',)), 'q': ('Q', ('on_add',)), 'r': ('R', ())},
             {'P1': ((), 0), 'P2': (('P1',), 0), 'Q': ((), 5), 'R': ((), -2)})


def big(acts, **kw):
    K = base(Acts=set(acts), Ids=set(range(1, 9)) | {101, 102}, MaxAuto=60, MaxQ=1000, Prios={-3, -1, 0, 2, 5}, Dts={0, 1, 3},
             **comps(BIG_COMPS, falsy={'c1', 'c3', 'c7'}), **procs(*BIG_PROCS))
    K.update(kw)
    return K


def repo_tests_validate(res, node='tests'):
    """Pipeline B on the repository's own World tests: they run unmodified under harness/pytest_recorder.py; each
    test becomes one trace with its own constants (classes, instances, handler declarations read off the objects the
    test used) and is validated by TLC against WorldTrace.tla with every invariant of World.tla on."""
    import json
    import os
    import subprocess
    from .. import tracecheck, tla, replay as _rp
    if _rp.REPLAY is not None:
        return
    out = os.path.join(res.scratch, 'repo_world_tests.json')
    env = dict(os.environ, VERIF_TRACE_OUT_WORLD=out, PYTHONPATH=common.VERIF + os.pathsep + os.environ.get('PYTHONPATH', ''))
    p = subprocess.run(['/venv/bin/python', '-m', 'pytest', '-q', '-p', 'no:cacheprovider', '-p', 'harness.pytest_recorder', node],
                       cwd=common.REPO, env=env, stdout=subprocess.PIPE, stderr=subprocess.STDOUT, text=True, timeout=600)
    if not os.path.exists(out):
        raise common.MachineryError('recording the repository World tests failed:\n' + p.stdout[-2000:])
    recs = json.load(open(out))
    usable = [r for r in recs if not r['unsupported'] and r['events'] and r['constants']]

    # one TLC run for all tests: instance / class / processor names get a per-test prefix, the constants are the union
    def pre(k, n):
        return 't%d_%s' % (k, n)

    U = dict(Ids=set(), MaxAuto=1, Types=set(), Bases={}, Comps=set(), TypeOf={}, Decl={}, Procs=set(), PTypes=set(), PBases={},
             PTypeOf={}, PDefault={}, PDecl={}, Prios=set(), Dts=set())
    traces = []
    for k, r in enumerate(usable):
        C = r['constants']
        U['Ids'] |= set(C['Ids'])
        U['MaxAuto'] = max(U['MaxAuto'], C['MaxAuto'])
        U['Prios'] |= set(C['Prios'])
        U['Dts'] |= set(C['Dts'])
        # classes are shared by the tests (the helpers module): only instances get the per-test prefix
        for t in C['Types']:
            U['Types'].add(t)
            U['Bases'][t] = U['Bases'].get(t, set()) | set(C['Bases'].get(t, []))
        for c in C['Comps']:
            U['Comps'].add(pre(k, c))
            U['TypeOf'][pre(k, c)] = C['TypeOf'][c]
            U['Decl'][pre(k, c)] = set(C['Decl'][c])
        for t in C['PTypes']:
            U['PTypes'].add(t)
            U['PBases'][t] = U['PBases'].get(t, set()) | set(C['PBases'].get(t, []))
            if U['PDefault'].get(t, C['PDefault'][t]) != C['PDefault'][t]:
                raise common.MachineryError('processor class %s has different default priorities in different tests' % t)
            U['PDefault'][t] = C['PDefault'][t]
        for c in C['Procs']:
            U['Procs'].add(pre(k, c))
            U['PTypeOf'][pre(k, c)] = C['PTypeOf'][c]
            U['PDecl'][pre(k, c)] = set(C['PDecl'][c])
        names = set(C['Comps']) | set(C['Procs'])

        def ren(v):
            if isinstance(v, str) and v in names:
                return pre(k, v)
            if isinstance(v, list):
                return [ren(x) for x in v]
            return v
        traces.append({'events': [{kk: ren(vv) for kk, vv in e.items()} for e in r['events']]})
    K = base(Acts={'create', 'create2', 'createdup', 'shared', 'add', 'remove', 'delete', 'process', 'clear', 'toggle', 'proc', 'ghost', 'fault'}, MaxQ=1000, **U)
    gen = 'WorldTrace_repo'
    defs, consts, ov = [], {}, {}
    for kk, v in K.items():
        if kk.startswith('_'):
            continue
        if isinstance(v, (bool, int)):
            consts[kk] = tla.to_tla(v)
        else:
            defs.append('K_%s == %s' % (kk, tla.to_tla(v)))
            ov[kk] = 'K_' + kk
    with open(os.path.join(res.specdir, gen + '.tla'), 'w') as f:
        f.write('---- MODULE %s ----\nEXTENDS WorldTrace\n%s\n====\n' % (gen, '\n'.join(defs)))
    rej = tracecheck.validate(res, gen, 'repo-tests', traces, consts, overrides=ov, invariants=INVARIANTS, shards=2)
    bad = [(usable[idx]['test'], at) for idx, at in rej]
    res.traces += len(usable) - len(bad)
    res.cov.setdefault('trace_validation', {})['repository-tests'] = {
        'node': node, 'pytest_tail': p.stdout.strip().split('\n')[-1], 'tests_recorded': len(usable),
        'accepted': len(usable) - len(bad), 'unsupported': {r['test']: r['unsupported'] for r in recs if r['unsupported']}}
    for test, at in bad:
        r = next(x for x in usable if x['test'] == test)
        res.violation('execution of repository test %s not explained by World.tla (event %s)' % (test, at),
                      {'test': test, 'matched_events': at, 'constants': r['constants'],
                       'events': [[e['op'], e['a1'], e['a2'], e['ret']] for e in r['events']],
                       'next_event': r['events'][at] if isinstance(at, int) and at < len(r['events']) else None})


def simulate_big(res, num_per_worker=100, depth=40, salt=0):
    """Model-level exploration beyond the exhaustive instances (thorough tier): 3 entities, 5 component instances over
    the diamond hierarchy, 3 processors (one a subclass of another), a queue bound of 4 and EVERY action family of
    World.tla enabled at once (faults, in-frame killers / schedulers / removers, re-entrant callbacks, ghost marks,
    probes): `tlc -simulate` walks random behaviours of that instance and evaluates every invariant and action
    property in every state.  Nothing is replayed: interactions between families that no exhaustive instance
    combines are looked for in the design itself; recorded executions (pipeline B) cover the code at that scale."""
    C = comps({'c1': ('A', {'on_add', 'on_remove'}), 'c2': ('B', {'on_add'}), 'c3': ('D', {'on_remove'}), 'c4': ('X', set()),
               'c5': ('B', {'on_add', 'on_remove'})})
    P = procs({'p1': ('P', {'on_add', 'on_remove'}), 'p2': ('Q', set()), 'p3': ('R', {'on_add'})},
              {'P': (set(), 0), 'Q': ({'P'}, 1), 'R': (set(), 0)})
    K = base(Ids={1, 2, 3}, MaxAuto=3, Prios={0, 1, 2}, Dts={1}, MaxQ=4,
             Acts={'create', 'create2', 'add', 'remove', 'delete', 'process', 'clear', 'toggle', 'probe', 'proc', 'fault', 'ghost',
                   'inframe', 'probekill', 'reentrant'}, **C, **P)
    seed = res.seed
    res.seed = seed + salt
    try:
        res.simulate_py('World', 'sim_big', K, num_per_worker, depth, spec='Spec', invariants=INVARIANTS, properties=PROPERTIES,
                        parse=False, workers=16, timeout=900)
    finally:
        res.seed = seed

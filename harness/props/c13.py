"""C13 — world switching delivers in/out events to the worlds that run (spec/Loop.tla)."""
from .. import common
from . import loop_common as lc
from . import game_common as gm

OWN = {'ret', 'log', 'loop', 'muted'}
SIG_D16 = ('switch(target, clear_next=True) or switch(<current handle>, clear_current=True): on_switch_in is queued on the '
           'world instance that the loop then discards; the instance that runs never receives it (and the target is loaded twice)')


def run(res):
    th = res.tier == 'thorough'
    sites = {'p1', 'upd', 'co', 'p2'}
    # (M) intended semantics: every C13 property holds
    Ki = lc.consts(MaxFrames=3, Sites={'p1', 'p2'})
    res.model_check_py('Loop', 'c13_intended', Ki, invariants=lc.INV, properties=lc.PROPS_C13 + lc.PROPS_C14)
    # as implemented (known finding D16): TLC shows which property breaks, all the others still hold
    Ka = dict(Ki, SwitchClearsBeforeLoad=False)
    res.model_check_py('Loop', 'c13_asimpl_switch', Ka, invariants=lc.INV, properties=lc.PROPS_C13,
                       expect_violation=('InOnceInEntered',), count=False)
    # D27 (found by the simulated behaviours below): the running code un-caches the handle it runs from, the loop is
    # started again and re-enters that handle with clear_current: the switch must be recognised as a self-switch by the
    # handle, or the loop discards the instance that was told on_switch_in
    Kd = lc.consts(Hs={'A'}, MaxFrames=2, Sites={'p1'}, Incs={1}, Reqs={'nop', 'switch', 'clrquit'}, SelfSwitchByHandle=False)
    res.model_check_py('Loop', 'c13_selfswitch_by_instance_only', Kd, invariants=lc.INV, properties=lc.PROPS_C13,
                       expect_violation=('InOnceInEntered',), count=False)
    # (C) conformance: the intended instance is dumped and replayed on the real loop
    Kr = lc.consts(MaxFrames=4 if th else 3, Sites=sites if th else {'p1', 'co'}, Incs={1},
                   Reqs={'nop', 'switch', 'raise', 'quit_loop', 'poke', 'switchq', 'direct', 'respawn'})
    lc.check_and_replay(res, 'c13_switching', Kr, lc.INV, lc.PROPS_C13, own=OWN, walks=5000 if th else 1500, walk_len=10)
    Ks = lc.consts(MaxFrames=2, Sites=sites, Incs={1}, Reqs={'nop', 'switch', 'raise'})
    lc.check_and_replay(res, 'c13_all_sites', Ks, lc.INV, lc.PROPS_C13, own=OWN, walks=0)
    lc.simulate_and_replay(res, 'c13_simulated', 1500 if th else 250, 30, own=OWN)
    # composed end to end (spec/Game.tla): worlds made of real processors and a sleeping coroutine; only the current
    # instance runs, a left world is frozen, a cleared handle yields a fresh instance whose coroutine starts over
    gm.check_and_replay(res, 'c13_game', gm.consts(MaxFrames=4 if th else 3, Incs={0, 1, 2} if th else {1, 2}),
                        own={'cur', 'cached', 'runs', 'iterations', 'exc'}, walks=2000 if th else 300)
    if th:
        gm.check_and_replay(res, 'c13_game_3', gm.consts(Hs={'A', 'B', 'C'}, Wait={'A': 3, 'B': 2, 'C': 1}, MaxFrames=3, Incs={1, 2}),
                            own={'cur', 'cached', 'runs', 'iterations', 'exc'}, walks=0)
    n = sum(c.get('known_D16', 0) for c in res.cov.get('replay', {}).values())
    if n:
        listed = [f for f in common.load_findings().get('findings', []) if f.get('property') == 'C13' and f.get('id') == 'D16']
        if listed:
            res.known[SIG_D16] = n
        else:
            res.violation('on_switch_in not delivered in the entered instance', {'count': n})

"""C11 — resource paths, shadowing and back-links stay consistent (spec/Resources.tla)."""
from . import resources_common as rc
from ..adapters.resources import FACETS_TREE

LENIENT = [
    'C11: a node that is still held by some map (even shadowed in a deeper layer) is never assigned again — one '
    'parent pointer cannot describe two places; assignments that would create a cycle are not generated',
    'C11: back-links of nodes no map holds any more (replaced, popped, shadowed at the time of a clear) are not compared',
    'C11: m[a][b] through a handle in the middle may fail with any exception class; only [] on the map itself '
    'must raise KeyError',
    'C11: the number and content of ChainMap layers is white-box (wb_layers): a divergence there alone abandons '
    'the path instead of failing it',
]


def _configs(thorough):
    if thorough:
        return {'c11_tree': rc.consts(maps=3, handles=3, depth=2, ops='Ops_Tree'),
                'c11_deep': rc.consts(maps=3, handles=2, depth=3, ops='Ops_Tree')}
    return {'c11_tree': rc.consts(maps=3, handles=2, depth=2, ops='Ops_Tree')}


def run(res):
    thorough = res.tier == 'thorough'
    rc.note_leniencies(res, LENIENT)
    # non-vacuity: each as-implemented deviation violates the declarative layer
    join = rc.switch_runs(res, [('c11_asimpl_' + sw, rc.consts(maps=3, handles=2, depth=2, ops='Ops_Tree', **{sw: False}),
                                 rc.INV_TREE, rc.PROP_TREE, expect)
                                for sw, expect in (('ImplicitMapsLinked', ('BackLinks',)),
                                                   ('ClearAllLayers', ('LatestWins', 'ClearDetaches', 'PathEquivalence')),
                                                   ('SetItemPopsAllLayers', ('PathEquivalence', 'HandleXorMap', 'LatestWins')))])
    for name, (c, ov) in _configs(thorough).items():
        rc.check_and_replay(res, name, c, ov, rc.INV_TREE, rc.PROP_TREE, own=FACETS_TREE, probe=True,
                            depth_all=3, walks=3000 if thorough else 1000, walk_len=25, before_replay=join)
        if res.violations:
            break
    join()
    if thorough and not res.violations:
        # (M) only: four maps (two implicit maps at once, deeper subtrees replaced); too large to dump
        c, ov = rc.consts(maps=4, handles=2, depth=2, ops='Ops_Tree')
        res.model_check('ResourcesMC', 'c11_four_maps', c, invariants=rc.INV_TREE, properties=rc.PROP_TREE, overrides=ov)


def replay(res, path):
    cfgs = {n: (c, ov, FACETS_TREE, True) for n, (c, ov) in _configs(res.tier == 'thorough').items()}
    rc.replay_file(res, path, cfgs)

"""C11 — resource paths, shadowing and back-links stay consistent (spec/Resources.tla)."""
from . import resources_common as rc
from ..adapters.resources import FACETS_TREE

LENIENT = [
    'C11: a node that is still held by a map is assigned again only in two controlled ways: (moved) a direct child of '
    'a staging map (root-level, outside the main tree) is moved into the main tree; its back-links follow the latest '
    'assignment and the superseded place in the staging map is exempt from the back-link demand; (again) it is stored '
    'once more under the path where it is already - nothing changes, its back-links stay - or below a key part that '
    'evicts it from where it was.  No node is ever twice inside one tree; assignments that would create a cycle are '
    'not generated',
    'C11: back-links of nodes no map holds any more (replaced, popped, shadowed at the time of a clear) are not compared',
    'C11: m[a][b] through a handle in the middle may fail with any exception class; only [] on the map itself '
    'must raise KeyError',
    'C11: the number and content of ChainMap layers is white-box (wb_layers): a divergence there alone abandons '
    'the path instead of failing it',
]
SET_CLEAR = '{"set", "clear"}'


def _configs(thorough):
    b01 = None if thorough else ['m0', 'm1']     # quick: the program assigns through the root and one other map
    cfgs = {
        # all three mutators, layered maps, pre-populated maps built off the tree
        'c11_tree': (rc.consts(maps=3, handles=3 if thorough else 2, depth=2, ops='Ops_Tree'), 3 if thorough else 2),
        # composite keys of depth 3 over four maps: leading parts that exist (explicit or implicit) followed by parts
        # that have to be created, one or two implicit maps per call
        # ... and resources that are in the tree stored again where they are (through plain and composite keys)
        'c11_deep': (rc.consts(maps=4, handles=1, depth=3, ops=SET_CLEAR, builders=b01, again=True), 3 if thorough else 2),
        # resources moved from a staging map into the main tree, either map cleared afterwards
        'c11_staging': (rc.consts(maps=3, handles=2, depth=2, ops=SET_CLEAR, staging=True, again=thorough, builders=b01),
                        3 if thorough else 2),
        # handles and maps stored again where they are in layered maps (a handle found in a deeper layer is written to
        # the first one), cleared, layered again
        'c11_again': (rc.consts(maps=3, handles=2, depth=2, ops='Ops_Tree', again=True, builders=['m0', 'm1'] if thorough else ['m0']),
                      3 if thorough else 2),
    }
    if thorough:
        cfgs['c11_deep_layers'] = (rc.consts(maps=3, handles=2, depth=3, ops='Ops_Tree'), 3)
    return cfgs


def run(res):
    thorough = res.tier == 'thorough'
    rc.note_leniencies(res, LENIENT)
    # non-vacuity: each as-implemented deviation violates the declarative layer
    join = rc.switch_runs(res, [('c11_asimpl_' + sw, rc.consts(maps=3, handles=2, depth=2, ops='Ops_Tree', **{sw: False}),
                                 rc.INV_TREE, rc.PROP_TREE, expect)
                                for sw, expect in (('ImplicitMapsLinked', ('BackLinks', 'RootBackLinks')),
                                                   ('ClearAllLayers', ('LatestWins', 'ClearDetaches', 'PathEquivalence')),
                                                   ('SetItemPopsAllLayers', ('PathEquivalence', 'HandleXorMap', 'LatestWins')))])
    join2 = rc.switch_runs(res, [('c11_asimpl_WalkLinksOnlyCreated',
                                  rc.consts(maps=3, handles=2, depth=2, ops=SET_CLEAR, staging=True, WalkLinksOnlyCreated=False),
                                  rc.INV_TREE, rc.PROP_TREE, ('BackLinks', 'RootBackLinks'))])
    cfgs = _configs(thorough)
    pre = rc.dumps_in_parallel(res, {n: co for n, (co, _d) in cfgs.items()}, rc.INV_TREE, rc.PROP_TREE)
    join()
    join2()
    for name, ((c, ov), depth_all) in cfgs.items():
        rc.check_and_replay(res, name, c, ov, rc.INV_TREE, rc.PROP_TREE, own=FACETS_TREE, probe=True, depth_all=depth_all,
                            walks=3000 if thorough else 800, walk_len=25, pre=pre[name])
        if res.violations:
            break
    if thorough and not res.violations:
        # (M) only, too large to dump: four maps with layers; staging with layers
        for name, co in (('c11_four_maps', rc.consts(maps=4, handles=2, depth=2, ops='Ops_Tree')),
                         ('c11_staging_layers', rc.consts(maps=3, handles=2, depth=2, ops='Ops_Tree', staging=True))):
            res.model_check('ResourcesMC', name, co[0], invariants=rc.INV_TREE, properties=rc.PROP_TREE, overrides=co[1])
    if not res.violations:
        # (B) recorded executions: 6 maps, 8 handles, 5 names, keys up to depth 3, 3 layers, armed load faults, staging
        # moves, re-snapshots - and the repository's own tests that use ResourceMap / Handle
        from . import resources_trace as rt
        rt.trace_validate(res, 'c11_recorded', 600 if thorough else 100, 60 if thorough else 40)
        rt.repo_tests_validate(res)


def replay(res, path):
    cfgs = {n: (c, ov, FACETS_TREE, True) for n, ((c, ov), _d) in _configs(res.tier == 'thorough').items()}
    rc.replay_file(res, path, cfgs)

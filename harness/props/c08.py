"""C08 — coroutines advance one step per frame and wake exactly on time (spec/Coroutines.tla)."""
from . import coroutines_common as cc
from . import game_common as gm


def run(res):
    th = res.tier == 'thorough'
    # overlapping waits of different lengths against uneven dt: the shared resetting timer must agree with
    # per-coroutine time (TimerInvariant, WakeExactlyOnTime); coroutines are started at any time, in any order
    S3 = {'g1': (('y', 2), ('y', 0), ('y', 3)), 'g2': (('y', 0), ('y', 3), ('y', -1)), 'g3': (('y', 1), ('y', 1))}
    K = dict(G=('g1', 'g2', 'g3'), Script=S3, Dts={0, 1, 2}, MaxTimer=8, WithKill=False, StartCancelsPendingKill=True, FinishDropsKillMark=True, BodyExceptionCleansUp=True)
    cc.check_and_replay(res, 'c08_timing', K, depth_all=5 if th else 4, walks=20000 if th else 3000, walk_len=40)
    # an exception escaping a coroutine body (Quit / SwitchWorld are raised from coroutines by design): the frame is
    # abandoned, the next frame advances everybody again, relative order kept
    Sr = {'g1': (('y', 0), ('y', 0), ('y', 1)), 'g2': (('y', 0), ('raise', 0)), 'g3': (('y', 2), ('y', 0), ('raise', 0))}
    Kr = dict(K, Script=Sr, Dts={1, 2}, WithKill=False)
    cc.check_and_replay(res, 'c08_body_raises', Kr, depth_all=0, walks=10000 if th else 1500, walk_len=30)
    Kx = dict(Kr, BodyExceptionCleansUp=False)
    res.model_check_py('Coroutines', 'c08_asimpl_body_exception', Kx, invariants=cc.INVARIANTS, properties=cc.PROPERTIES,
                       expect_violation=('SentinelFirst', 'StateCoherent', 'StructuresAgree', 'OneStepPerFrame', 'NoBad'), count=False)
    # 'never earlier' at the finest grain: one time unit = 2^-31 s, a wait of 2^29 units (0.25 s), dt values one unit
    # short of it: any tolerance in the wake-up comparison shows (all values exactly representable)
    W = 2 ** 29
    Kf = dict(K, G=('g1', 'g2'), Script={'g1': (('y', W), ('y', 0)), 'g2': (('y', 0), ('y', W), ('y', 0))}, Dts={0, W - 1, W}, MaxTimer=2 * W,
              WithKill=False, _Q=2.0 ** -31)
    cc.check_and_replay(res, 'c08_fine_grain', Kf, depth_all=0, walks=1000, walk_len=20)
    # a sleeper is paused and resumed (kill, start) from inside a body while another coroutine goes to sleep later in
    # the same frame: 'never later, whatever other coroutines are waiting for'
    Ka = dict(K, G=('m', 's', 'b'), Script={'m': (('y', 0), ('kill!', 2), ('start', 2), ('y', 0)), 's': (('y', 3), ('y', 0)), 'b': (('y', 0), ('y', 2), ('y', 0))},
              Dts={1, 2}, MaxTimer=8, WithKill=False)
    cc.check_and_replay(res, 'c08_restart_in_frame', Ka, depth_all=0, walks=1000, walk_len=30)
    # composed end to end (spec/Game.tla): the dt comes from a real SimpleLoop, the coroutine sleeps in a real world
    # that the loop leaves and re-enters (or discards: clear_current / clear_next): it wakes on *world time*
    gm.check_and_replay(res, 'c08_world_time', gm.consts(MaxFrames=5 if th else 4), own={'ticks', 'order'},
                        walks=3000 if th else 300)
    gm.non_vacuity(res, 'c08_world_time_late_wake')
    if th:
        gm.model_only(res, 'c08_world_time_large', gm.consts(Hs={'A', 'B', 'C'}, Wait={'A': 3, 'B': 2, 'C': 1}, Incs={0, 1, 2}, MaxFrames=6, MaxGen=4))
        gm.check_and_replay(res, 'c08_world_time_3', gm.consts(Hs={'A', 'B', 'C'}, Wait={'A': 3, 'B': 2, 'C': 1}, MaxFrames=3),
                            own={'ticks', 'order'}, walks=0)
    # (B) recorded executions: 7 coroutines with random scripts (waits up to 7, in-body start/kill), random schedules
    for i in range(4 if th else 2):
        res.seed += i
        cc.trace_validate(res, 'c08_recorded_%d' % i, 7, 600 if th else 80, 60)
        res.seed -= i
    if th:
        cc.repo_tests_validate(res)
    cc.apalache_timer_core(res)
    if th:
        # longer waits, dt up to 4: model checking only (too large to dump; without top-level kills - with them the
        # free placement of restarted coroutines puts this instance beyond half an hour, C09's instances cover kills)
        S3b = {'g1': (('y', 2), ('y', 5), ('y', 0)), 'g2': (('y', 3), ('y', 0), ('y', 1)), 'g3': (('y', 1), ('y', 2), ('y', 3))}
        Kb = dict(G=('g1', 'g2', 'g3'), Script=S3b, Dts={0, 1, 2, 4}, MaxTimer=12, WithKill=False, StartCancelsPendingKill=True, FinishDropsKillMark=True, BodyExceptionCleansUp=True)
        cc.check_and_replay(res, 'c08_timing_large', Kb, dump=False)

"""C06 — type queries match exactly the subclasses, once each (spec/TypeQueries.tla)."""
from .. import common, replay
from ..adapters.typequeries import TypeQueriesAdapter
from ..tla import fmap

INV = ['GetOnce', 'MatchesExactlySub', 'CandsAreSubclasses', 'ExactPreferred']


def run(res):
    desper = common.import_desper()
    n = 5 if res.tier == 'thorough' else 4
    # every hierarchy x assignment x (one removal by every query type); all read-only queries compared in every state
    r, g = res.model_check('TypeQueries', 'c06_n%d' % n, {'N': n, 'WalkVisitsOnce': 'TRUE', 'Deep': 'FALSE'}, invariants=INV,
                           properties=['RemovesOne'], dump=True)
    if res.tier == 'thorough':
        # removal sequences of any length on the smaller universe (no constraint; not dumped)
        res.model_check('TypeQueries', 'c06_n4_sequences', {'N': 4, 'WalkVisitsOnce': 'TRUE', 'Deep': 'TRUE'}, invariants=INV, properties=['RemovesOne'])
    res.cov['initial_states_(hierarchy x components x processors)'] = len(g.init)

    def factory():
        return TypeQueriesAdapter(desper, n)

    st = replay.run_paths(g, factory, replay.edge_paths(g))
    res.absorb(st, 'c06:every-edge', g)
    if not st.n_violations:
        st = replay.run_paths(g, factory, replay.random_walks(g, 3000, 3, res.seed))
        res.absorb(st, 'c06:random-removal-sequences', g)
    for s, labs, _t in replay.random_walks(g, 2, 4, res.seed + 1):
        res.sample({'bases': {k: sorted(v) for k, v in fmap(g.states[s]['bases']).items()}, 'components': sorted(g.states[s]['comps']),
                    'processors': sorted(g.states[s]['procs']), 'calls': ['%s%s' % (n_, list(a)) for n_, a in labs]})
    res.model_check('TypeQueries', 'c06_asimpl_walk', {'N': n, 'WalkVisitsOnce': 'FALSE', 'Deep': 'FALSE'}, invariants=INV,
                    expect_violation=('GetOnce', 'MatchesExactlySub'), count=False)

"""C09 — coroutine lifecycle: state, kill, restart and promise are coherent (spec/Coroutines.tla)."""
from . import coroutines_common as cc

BASE = dict(WithKill=True, StartCancelsPendingKill=True, FinishDropsKillMark=True, BodyExceptionCleansUp=True)


def run(res):
    th = res.tier == 'thorough'
    # start / kill / restart from outside and from inside bodies, over runnable, waiting and finished coroutines
    K = dict(G=('g1', 'g2'), Script={'g1': (('y', 0), ('y', 2), ('kill', 2)), 'g2': (('y', 1), ('start', 1), ('y', 0))},
             Dts={1, 2} if th else {1}, MaxTimer=6, **BASE)
    cc.check_and_replay(res, 'c09_two', K, depth_all=5 if th else 4, walks=20000 if th else 2000)
    # a coroutine that kills itself (and goes on, or returns at once), that tries to restart itself, state queries from
    # inside bodies - also in the very frame in which a wait elapses
    Ks = dict(G=('g1', 'g2'), Script={'g1': (('y', 0), ('kill!', 1), ('start', 1), ('y', 0)), 'g2': (('y', 2), ('state', 2), ('kill!', 2))},
              Dts={1, 2}, MaxTimer=6, **BASE)
    cc.check_and_replay(res, 'c09_self', Ks, depth_all=0, walks=10000 if th else 1000)
    Kw = dict(G=('g1', 'g2'), Script={'g1': (('state', 2), ('state', 2), ('kill!', 2), ('start', 2), ('state', 2)), 'g2': (('y', 1), ('state', 2), ('y', 0))},
              Dts={1}, MaxTimer=6, **BASE)
    cc.check_and_replay(res, 'c09_wake_frame', Kw, depth_all=0, walks=10000 if th else 1000)
    K3 = dict(G=('g1', 'g2', 'g3'), Script={'g1': (('y', 0), ('kill', 3)), 'g2': (('y', 2),), 'g3': (('start', 2), ('y', 1))},
              Dts={1}, MaxTimer=6, **dict(BASE, WithKill=th))
    cc.check_and_replay(res, 'c09_three', K3, depth_all=0, walks=10000 if th else 1000)
    # a manager pauses and resumes a sleeping coroutine from inside its body (kill, start), and a coroutine that runs
    # later in that very frame goes to sleep: every structure touched by the restart must still be the one the frame uses
    Ka = dict(G=('m', 's', 'b'), Script={'m': (('y', 0), ('kill!', 2), ('start', 2), ('y', 0)), 's': (('y', 3), ('y', 0)), 'b': (('y', 0), ('y', 2), ('y', 0))},
              Dts={1, 2}, MaxTimer=8, **dict(BASE, WithKill=False))
    cc.check_and_replay(res, 'c09_restart_in_frame', Ka, depth_all=0, walks=10000 if th else 1000)
    # a coroutine that is killed during its own step (by itself, or by what it calls) and then leaves that step with an
    # exception (Quit / SwitchWorld are raised from bodies by design): no mark may stay behind, it can be started again
    Kx = dict(G=('g1', 'g2'), Script={'g1': (('y', 0), ('kill!', 1), ('raise', 0)), 'g2': (('y', 0), ('kill', 1), ('y', 1))},
              Dts={1}, MaxTimer=4, **BASE)
    cc.check_and_replay(res, 'c09_selfkill_raise', Kx, depth_all=0, walks=5000 if th else 800)
    cc.trace_validate(res, 'c09_recorded', 6, 1000 if th else 100, 60)
    cc.repo_tests_validate(res)
    if th:
        cc.simulate_big(res)
    for sw in ('StartCancelsPendingKill', 'FinishDropsKillMark'):
        K2 = dict(Ks if sw == 'FinishDropsKillMark' else K)
        K2[sw] = False
        res.model_check_py('Coroutines', 'c09_asimpl_' + sw, K2, invariants=cc.INVARIANTS, properties=cc.PROPERTIES,
                           expect_violation=('NoBad', 'StateCoherent', 'NoDuplicates', 'StructuresAgree'), count=False)

"""C09 — coroutine lifecycle: state, kill, restart and promise are coherent (spec/Coroutines.tla)."""
from . import coroutines_common as cc


def run(res):
    th = res.tier == 'thorough'
    # start / kill / restart from outside and from inside bodies, over runnable, waiting and finished coroutines
    K = dict(G=('g1', 'g2'), Script={'g1': (('y', 0), ('y', 2), ('kill', 2)), 'g2': (('y', 1), ('start', 1), ('y', 0))},
             Dts={1, 2}, MaxTimer=6, WithKill=True, StartCancelsPendingKill=True)
    cc.check_and_replay(res, 'c09_two', K, depth_all=4, walks=3000)
    K3 = dict(G=('g1', 'g2', 'g3'), Script={'g1': (('y', 0), ('kill', 3)), 'g2': (('y', 2),), 'g3': (('start', 2), ('y', 1))},
              Dts={1}, MaxTimer=6, WithKill=True, StartCancelsPendingKill=True)
    cc.check_and_replay(res, 'c09_three', K3, depth_all=0, walks=2000)
    K2 = dict(K, StartCancelsPendingKill=False)
    res.model_check_py('Coroutines', 'c09_asimpl_start', K2, invariants=cc.INVARIANTS, properties=cc.PROPERTIES,
                       expect_violation=('NoBad', 'StateCoherent', 'NoDuplicates', 'StructuresAgree'), count=False)

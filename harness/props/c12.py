"""C12 — a handle loads its resource at most once between clears (spec/Resources.tla)."""
from . import resources_common as rc
from ..adapters.resources import FACETS_CACHE

LENIENT = [
    'C12: identity of a returned object is compared with the products of the harness load() by `is`; for kinds whose '
    'values are interned singletons (None, 0, "") two loads cannot be told apart by identity, the load counter can',
    'C12: loaded values: None, 0, "", [], an object with raising __bool__ / always-true __eq__, and values of the library\'s own '
    'types (a ResourceMap holding a handle, a Handle, a World); the kinds rotate from behaviour to behaviour, so an edge of the '
    'graph meets three of the eight in the every-edge passes',
    'C12: tree-shape facets (paths, back-links) belong to C11: a divergence limited to them abandons the path',
    "C12: Loop.switch's clears are decided with the loop properties (C13), not here",
]
OPS_STATIC = '{"set", "push", "call", "hclear", "item", "snap", "sattr", "sitem", "fault"}'
OPS_MIXED = '{"set", "call", "hclear", "item"}'
OPS_MAPS = '{"set", "push", "call", "hclear", "item"}'


def _configs(thorough):
    if thorough:
        return {'c12_static': rc.consts(maps=3, handles=1, ops=OPS_STATIC, builders=['m0'], phased=True),
                'c12_two': rc.consts(maps=2, handles=2, ops=OPS_STATIC, builders=['m0'], phased=True),
                'c12_mixed': rc.consts(maps=3, handles=1, layers=1, ops=OPS_MIXED, staging=True),
                'c12_mixed_two': rc.consts(maps=2, handles=2, layers=1, ops=OPS_MIXED, builders=['m0'])}
    # every way to reach one handle (call, [] from each enclosing map, snapshot attribute / item), layered maps,
    # load() failing once at any point (ArmFault)
    # two handles (a value must never leak from one to the other), no snapshot
    # handles stored, aliased in a second map and moved *after* they have loaded, accesses in between (not phased)
    return {'c12_static': rc.consts(maps=2, handles=1, ops=OPS_STATIC, builders=['m0'], phased=True),
            'c12_two': rc.consts(maps=2, handles=2, ops=OPS_MAPS, builders=['m0'], phased=True),
            'c12_mixed': rc.consts(maps=3, handles=1, layers=1, ops=OPS_MIXED, staging=True, builders=['m0', 'm1'],
                                   receivers=['m0'])}


def run(res):
    thorough = res.tier == 'thorough'
    rc.note_leniencies(res, LENIENT)
    # non-vacuity (no defect behind it): a cache that tests the stored value instead of the flag reloads None
    join = rc.switch_runs(res, [('c12_mutant_value_test', rc.consts(maps=2, handles=1, ops=OPS_STATIC, builders=['m0'], phased=True,
                                                             CacheTestsFlag=False),
                          rc.INV_CACHE, rc.PROP_CACHE, ('AtMostOneLoad', 'CachedTellsTruth', 'SameObject')),
                         # ... and one that sets the flag before load() returned claims to be cached after a failed load
                         ('c12_mutant_flag_first', rc.consts(maps=2, handles=1, ops=OPS_STATIC, builders=['m0'], phased=True,
                                                             FlagAfterLoad=False),
                          rc.INV_CACHE, rc.PROP_CACHE, ('CachedTellsTruth', 'SameObject'))])
    cfgs = _configs(thorough)
    inv, prop = rc.INV_CACHE + ['MirrorsMap'], rc.PROP_CACHE + ['SnapshotReadsThrough']
    pre = rc.dumps_in_parallel(res, cfgs, inv, prop)
    join()
    for name, (c, ov) in cfgs.items():
        # one handle: every edge under three value kinds (which three rotates with the behaviour: all eight kinds,
        # the library-typed ones included, occur in every pass)
        rc.check_and_replay(res, name, c, ov, inv, prop, own=FACETS_CACHE, probe=False, depth_all=3,
                            walks=3000 if thorough else 1000, walk_len=30, pre=pre[name],
                            shifts=(0, 1, 2, 3, 4) if thorough else (2, 3, 4) if name == 'c12_static' else (0,))
        if res.violations:
            break
    if not res.violations:
        # (B) recorded executions: 6 maps, 8 handles, 5 names, keys up to depth 3, 3 layers, armed load faults, staging
        # moves, re-snapshots - and the repository's own tests that use ResourceMap / Handle
        from . import resources_trace as rt
        rt.trace_validate(res, 'c12_recorded', 600 if thorough else 100, 60 if thorough else 40)
        rt.repo_tests_validate(res)


def replay(res, path):
    cfgs = {n: (c, ov, FACETS_CACHE, False) for n, (c, ov) in _configs(res.tier == 'thorough').items()}
    rc.replay_file(res, path, cfgs)

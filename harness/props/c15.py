"""C15 — a loaded world contains exactly what its description says (spec/WorldLoad.tla).

(M)  small-step instance (pipeline stage by stage) with every declarative invariant + BigStepAgrees;
     as-implemented switch runs for D2 (AutoIdSkipsUsed) and D14 (ImplicitMapsLinked) must be violated.
(C)  lean big-step instance (one action per public call) dumped; for every description the scripted behaviours
     below — {file at depth 1, file at depth 2, dict through a WorldHandle, bare populate} x Load; Access;
     Enable; Access and, for the descriptions `Again` admits, the second round on the same handle (ClearHandle;
     [Disturb]; [Rewrite]; Reload; Access; Enable; Access) — are executed on the real classes, observations
     compared after every call; together they take every edge of the dump (checked).
     Two more scripts run next to a *bystander*: a fixed world loaded from a second handle of the same map before
     the world under test and left disabled, enabled after / before the world under test (EnableBy); the bystander
     must stay silent until then and hear exactly its own load-time callbacks, the world under test nothing foreign.
     The adapter also alternates ResourceMap.split_char between '/' and ':' from behaviour to behaviour.
"""
import json
import os
import re
from concurrent.futures import ThreadPoolExecutor

from .. import common, graph as graphmod, replay as rp, tla, tlc
from ..adapters.worldload import WorldLoadAdapter

INVARIANTS = ['TypeOK', 'LoadedEqualsDescribed', 'ReturnedDisabled', 'QuietWhileLoading', 'WorldLoadQueuedLast',
              'OnEnable', 'BystanderUndisturbed', 'NoFailure', 'BigStepAgrees']
LENIENCIES = [
    'strings that begin with a marker but are not exactly of the form ("${a} tail", "${}") are not generated',
    'references nested inside list/dict arguments pass through unchanged (the statement speaks of string arguments)',
    'explicit integer ids and automatic ids only in the order explicit-then-automatic; explicit ids pairwise distinct; '
    'component types distinct within an entity, processor types distinct within a description',
    'automatic ids are compared as "some identifier that no listed entity with components was given", not by value',
    'listener order within the on_world_load dispatch and the relative order of different handlers\' on_add are not '
    'compared: per handler the sequence must be on_add(entity, world) then on_world_load(handle, world)',
    'dict path: the caller passes types and already-resolved objects; an entity listed without components does not exist',
    'a Python object named by ${...} that is itself a string beginning with a marker is not generated',
    'the second round (clear the handle, load again) is explored for file handles and descriptions with at most one '
    'processor or entity; the identifier false is generated only without the identifier 0 (False == 0 in Python)',
    'the bystander world is one fixed description behind a file handle at depth 1 of the same map, explored next to '
    'file handles; next to it the second round starts once it is enabled and is the plain reload (no Disturb / Rewrite)',
    'ResourceMap.split_char is "/" or ":" (chosen per behaviour from the description and the load mode)',
]


def consts(fam, small, lean=False, auto=True, linked=True):
    b = lambda x: 'TRUE' if x else 'FALSE'     # noqa: E731
    return ({'Fam': '"%s"' % fam, 'SmallStep': b(small), 'Lean': b(lean), 'AutoIdSkipsUsed': b(auto),
             'ImplicitMapsLinked': b(linked)}, {'PickDesc': 'InFam', 'Again': 'AgainSmall'})


# -- tables printed by the spec (ASSUME PrintT(<<"WORLDLOAD-SHAPES", Shape>>), ...ALTDESC) -----------------

def printed(out, tag):
    k = out.find(tag)
    if k < 0:
        raise common.MachineryError('TLC did not print %s' % tag)
    start = out.rfind('<<', 0, k)
    lines = out[start:].split('\n')
    keep = [lines[0]]
    for ln in lines[1:]:
        if re.match(r'[A-Za-z]|<<', ln):    # ordinary TLC chatter, or the next printed value (continuation lines are indented)
            break
        keep.append(ln)
    return tla.parse_value('\n'.join(keep))


def tables_from(out):
    """(alphabet table, AltDesc, ByDesc) as printed by the ASSUME PrintT of the spec."""
    return ({tok: dict(s) for tok, s in printed(out, '"WORLDLOAD-SHAPES"')[1].items()},
            printed(out, '"WORLDLOAD-ALTDESC"')[1], printed(out, '"WORLDLOAD-BYDESC"')[1])


# -- dump loading: states are parsed on first use (in the replay workers), labels are 2-3 kB each -----------

class LazyStates(dict):
    def __getitem__(self, k):
        v = dict.__getitem__(self, k)
        if isinstance(v, str):
            v = tla.parse_state(graphmod._un(v))
            dict.__setitem__(self, k, v)
        return v


_EDGE = re.compile(r'^(-?\d+) -> (-?\d+) \[label="((?:[^"\\]|\\.)*)"')


def load_dot_lazy(path):
    g = graphmod.Graph()
    g.states = LazyStates()
    seen = set()
    with open(path) as f:
        for line in f:
            k = line.find(' [label="')
            if k < 0:
                continue
            head = line[:k]
            if ' -> ' in head:
                m = _EDGE.match(line)
                key = (int(m.group(1)), int(m.group(2)), m.group(3))
                if key not in seen:
                    seen.add(key)
                    n, a = tla.parse_label(graphmod._un(m.group(3)))
                    g.out.setdefault(key[0], []).append((n, a, key[1]))
                continue
            i = int(head)
            if i in g.states:
                continue
            body = line.rstrip()
            if body.endswith('",style = filled]'):
                g.init.append(i)
                end = len(body) - len('",style = filled]')
            elif body.endswith('"];'):
                end = len(body) - 3
            else:
                raise common.MachineryError('unexpected node line in dump: %r' % body[-80:])
            lab = body[k + len(' [label="'):end]
            t = lab.find('",tooltip="')     # non-initial nodes repeat the label as tooltip (an unescaped quote ends it)
            dict.__setitem__(g.states, i, lab if t < 0 else lab[:t])
    for i in g.states:
        g.out.setdefault(i, [])
    g._bfs()
    return g


def tlc_dump(res, fam, name):
    """Lean big-step instance of one family: TLC + dump (graph with lazily parsed states, alphabet table)."""
    c, ov = consts(fam, small=False, lean=True)
    cfg = os.path.join(res.scratch, 'WorldLoadMC_%s.cfg' % name)
    dot = os.path.join(res.scratch, 'WorldLoadMC_%s.dot' % name)
    tlc.write_cfg(cfg, constants=c, overrides=ov, invariants=['TypeOK'])
    r = tlc.run('WorldLoadMC', cfg, res.scratch, dump=dot, timeout=900)
    res.tlc_runs.append({'module': 'WorldLoadMC', 'config': name, 'constants': {k: str(v) for k, v in c.items()},
                         'invariants': ['TypeOK'], 'states_generated': r.states, 'distinct_states': r.distinct,
                         'depth': r.depth, 'wall_s': round(r.wall, 1), 'result': 'ok' if r.ok else r.violated})
    if not r.ok:
        raise common.MachineryError('lean instance %s failed (%s)\n%s' % (name, r.violated, r.out[-3000:]))
    tables = tables_from(r.out)
    g = load_dot_lazy(dot)
    os.remove(dot)
    if len(g.states) != r.distinct:
        raise common.MachineryError('dump has %d states, TLC reports %d' % (len(g.states), r.distinct))
    return g, tables


def _l(md, by=False):
    return ('Load', (md, by))


A, E, CH, D, RW, R, EB = [(n, ()) for n in ('Access', 'Enable', 'ClearHandle', 'Disturb', 'Rewrite', 'Reload', 'EnableBy')]
# (behaviour, keep it when the description has no second round and the behaviour stops at ClearHandle?)
SCRIPTS = [([_l('file1'), A, E, A, CH, D, R, A, E, A], True),        # mutated containers, fresh resource objects
           ([_l('file2'), A, E, A, CH, R, A, E, A], True),           # plain reload: cached resources stay the same objects
           ([_l('file1'), E, CH, RW, R, A, E, A], False),            # the file changed in between
           ([_l('file2'), E, CH, D, RW, R, A, E, A], False),
           ([_l('dict'), A, E, A], True),
           ([_l('bare'), E], True),
           # next to a preloaded bystander world: enabled after the world under test (then a plain reload) / before it
           ([_l('file1', True), A, E, A, EB, A, CH, R, A, E, A], True),
           ([_l('file2', True), A, EB, A, E, A], True)]


def scripted_paths(g):
    """The scripts above from every description, cut where the model does not enable the next call."""
    for i in g.init:
        for script, keep_cut in SCRIPTS:
            cur, labs, tg = i, [], []
            for lab in script:
                c = g.succ(cur, *lab)
                if not c:
                    break
                labs.append(lab)
                tg.append(c[0])
                cur = c[0]
            if labs and (keep_cut or len(labs) == len(script)):
                yield (i, labs, tg)


def replay_all(res, g, tables, name, desper):
    def factory():
        return WorldLoadAdapter(desper, *tables, workdir=res.scratch)

    st = rp.run_paths(g, factory, scripted_paths(g))
    st.extra['descriptions'] = len(g.init)
    res.absorb(st, name + ':scripted-paths', g)
    if not st.n_violations and len(st.edges) != g.n_edges():
        raise common.MachineryError('%s: replay took %d of %d edges' % (name, len(st.edges), g.n_edges()))


def run(res):
    desper = common.import_desper()
    res.assumptions.extend(LENIENCIES)
    # TLC runs are subprocesses and overlap; replay (which forks workers) starts only after they are joined
    with ThreadPoolExecutor(4) as pool:
        c, ov = consts('quick', small=True)
        jobs = [pool.submit(res.model_check, 'WorldLoadMC', 'c15_small_step', c, invariants=INVARIANTS, overrides=ov)]
        # non-vacuity: with the pinned behaviour the declarative properties fail
        c2, ov2 = consts('tiny', small=True, auto=False)
        jobs.append(pool.submit(res.model_check, 'WorldLoadMC', 'c15_asimpl_autoid', c2, invariants=INVARIANTS,
                                overrides=ov2, expect_violation='LoadedEqualsDescribed', count=False))
        c3, ov3 = consts('tiny', small=True, linked=False)
        jobs.append(pool.submit(res.model_check, 'WorldLoadMC', 'c15_asimpl_implicit_maps', c3, invariants=INVARIANTS,
                                overrides=ov3, expect_violation=('NoFailure', 'LoadedEqualsDescribed'), count=False))
        dump = pool.submit(tlc_dump, res, 'quick', 'c15_quick_lean')
        for j in jobs:
            j.result()
        g, tables = dump.result()
    replay_all(res, g, tables, 'quick', desper)
    sample(res, g, tables, desper)
    if res.tier == 'thorough':
        for fam in ('TV1', 'TV2', 'TV3', 'TB') + tuple('TS%d' % k for k in range(11)):
            if res.violations:
                break
            with ThreadPoolExecutor(2) as pool:
                cf, ovf = consts(fam, small=True)
                m = pool.submit(res.model_check, 'WorldLoadMC', 'c15_small_step_' + fam, cf, invariants=INVARIANTS,
                                overrides=ovf, timeout=900)
                dump = pool.submit(tlc_dump, res, fam, 'c15_%s_lean' % fam)
                m.result()
                g, tables = dump.result()
            replay_all(res, g, tables, fam, desper)
    res.cov['distinct_behaviours'] = res.traces
    res.cov['rule'] = ('every description of the family is an initial state; the scripted behaviours (four load modes, '
                       'repeated access, enable, second round on the same handle) take every edge of the dumped graph on '
                       'the real classes, with and without a preloaded disabled bystander world of the same map that is enabled '
                       'before / after the world under test; distinct = distinct (description, script)')


def replay(res, path):
    """./check C15 --replay FILE: rebuild the family named in the file, find the description, walk its calls."""
    desper = common.import_desper()
    with open(path) as f:
        blob = json.load(f)
    fam = blob['summary'].split(':', 1)[0]
    g, tables = tlc_dump(res, fam, 'c15_%s_lean' % fam)
    init = blob['detail']['init_state']
    start = next((i for i in g.init if tla.to_json(g.states[i]) == init), None)
    if start is None:
        raise common.MachineryError('description of the replay file is not in family %r' % fam)
    labels = [(n, tuple(a)) for n, a in blob['detail']['labels']]
    st = rp.Stats()
    v = rp.walk(g, WorldLoadAdapter(desper, *tables, workdir=res.scratch), labels, None, st, start=start)
    if v:
        st.violations.append(v)
        st.n_violations = 1
    res.absorb(st, fam + ':replay', g)


def sample(res, g, tables, desper):
    ad = WorldLoadAdapter(desper, *tables, workdir=res.scratch)
    picked = 0
    for i in g.init[res.seed % 97::max(1, len(g.init) // 3)]:
        d = g.states[i]['desc']
        if picked < 3 and (d['ents'] or d['procs']):
            picked += 1
            res.sample({'description_json': ad.file_json(d, sparse=True),
                        'calls': [' ; '.join('%s%s' % (n, list(a) or '') for n, a in sc) for sc, _ in SCRIPTS]})

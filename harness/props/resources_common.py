"""Shared driver for the properties decided on spec/Resources.tla (C11, C12, C17)."""
import itertools
import json
import re

from .. import common, replay, tla
from ..adapters import resources as ra

SWITCHES = ('ImplicitMapsLinked', 'ClearAllLayers', 'SetItemPopsAllLayers', 'StaticSlotsUnmangled', 'CacheTestsFlag',
            'WalkLinksOnlyCreated', 'FlagAfterLoad', 'HandleNamesCopied')

INV_TREE = ['TypeOK', 'OnePlace', 'PathEquivalence', 'DefaultIffKeyError', 'HandleXorMap', 'LatestWins', 'BackLinks',
            'RootBackLinks']
PROP_TREE = ['ClearDetaches']
INV_CACHE = ['TypeOK', 'AtMostOneLoad', 'CachedTellsTruth']
PROP_CACHE = ['SameObject', 'ValueStable']
INV_STATIC = ['TypeOK', 'MirrorsMap', 'FreshMirror']
PROP_STATIC = ['SnapshotSucceeds', 'SnapshotReadsThrough', 'StaysAsTaken', 'MutationRaisesAndChangesNothing']
INV_ALL = sorted(set(INV_TREE + INV_CACHE + INV_STATIC))
PROP_ALL = PROP_TREE + PROP_CACHE + PROP_STATIC


def _set(xs):
    return '{' + ', '.join('"%s"' % x for x in xs) + '}'


def consts(maps=3, handles=2, depth=2, layers=2, gen=2, ops='Ops_Tree', builders=None, receivers=None, phased=False,
           kinds='Kinds_One', cls='Cls_Plain', staging=False, again=False, resnap=False, keep_snap=0, **switches):
    """(constants, overrides) of one ResourcesMC instance.  Switches default to TRUE (= intended)."""
    c = {'Hd': _set('h%d' % i for i in range(1, handles + 1)), 'Names': _set('ab'), 'MaxDepth': depth,
         'MaxLayers': layers, 'MaxGen': gen, 'Phased': 'TRUE' if phased else 'FALSE',
         'Staging': 'TRUE' if staging else 'FALSE', 'Again': 'TRUE' if again else 'FALSE',
         'Resnap': 'TRUE' if resnap else 'FALSE', 'KeepSnap': keep_snap,
         'Builders': _set(builders) if builders else None, 'Receivers': _set(receivers) if receivers else None}
    ov = {'MapOrder': 'MapOrder%d' % maps, 'Ops': ops, 'KindChoices': kinds, 'ClsChoices': cls}
    if ops.startswith('{'):         # a literal set is a cfg constant, a name is an override
        c['Ops'] = ov.pop('Ops')
    for k in ('Builders', 'Receivers'):
        if c[k] is None:
            del c[k]
            ov[k] = 'M'
    for s in SWITCHES:
        c[s] = 'TRUE' if switches.pop(s, True) else 'FALSE'
    assert not switches, switches
    return c, ov


def tour_paths(g, max_len=60, hop=2):
    """Behaviours that together take every edge of the graph once: walk to a state along the BFS tree, then keep
    following edges not taken yet; when stuck, hop (at most `hop` edges) to the nearest state that still has some.
    Same coverage as replay.edge_paths at a fraction of the steps (BFS prefixes are not repeated once per edge)."""
    todo = {s: list(reversed(outs)) for s, outs in g.out.items() if s in g.depth}

    dead = set()        # states with nothing left within `hop` edges (stays true: todo only shrinks)

    def nearest(src):
        if src in dead:
            return None
        seen, frontier = {src}, [(src, [])]
        for _ in range(hop):
            nxt = []
            for s, path in frontier:
                for e in g.out.get(s, ()):
                    if e[2] not in seen:
                        seen.add(e[2])
                        if todo[e[2]]:
                            return path + [e]
                        nxt.append((e[2], path + [e]))
            frontier = nxt
        dead.add(src)
        return None

    for s in sorted(todo, key=lambda x: (g.depth[x], x)):
        while todo[s]:
            prefix = g.path_to(s)
            labs = [(x[1], x[2]) for x in prefix]
            tg = [x[3] for x in prefix]
            cur = s
            while len(labs) < max_len:
                if todo[cur]:
                    more = [todo[cur].pop()]
                else:
                    more = nearest(cur)
                    if more is None:
                        break
                for name, args, d in more:
                    labs.append((name, args))
                    tg.append(d)
                    cur = d
            yield (prefix[0][0] if prefix else s, labs, tg)


def check_and_replay(res, name, c, ov, invariants, properties, own, probe, depth_all=3, walks=1000, walk_len=25,
                     shifts=(0,), before_replay=None, pre=None):
    """(M) TLC on the instance, (C) its whole state graph replayed on the real classes.

    Every edge of the dumped graph is taken (tour_paths) once per rotation of the value kinds in `shifts` (within a
    pass the adapter moves the kinds on by one every second behaviour: adapters/resources.py KINDS), then all
    short paths (from the initial state, or from every just-sealed tree when the instance is phased) and random walks.
    """
    desper = common.import_desper()
    r, g = pre or res.model_check('ResourcesMC', name, c, invariants=invariants, properties=properties, overrides=ov,
                                  dump=True)
    if before_replay:
        before_replay()         # background TLC runs are joined before the replayer forks
    depth = int(c['MaxDepth'])
    phased = c['Phased'] == 'TRUE'

    def factory(shift):
        return lambda: ra.ResourcesAdapter(desper, probe=probe, depth=depth, kind_shift=shift, keep_snap=int(c['KeepSnap']))

    for k in shifts:
        st = replay.run_paths(g, factory(k), tour_paths(g), own=own, chunk=50)
        if st.n_violations:
            # the same edges again, each behind its shortest history: short replay files
            st = replay.run_paths(g, factory(k), replay.edge_paths(g), own=own)
        res.absorb(st, '%s:every-edge:kinds+%d' % (name, k), g)
        if st.n_violations:
            return g
    if depth_all:
        if phased:
            starts = just_sealed(g)
            paths = itertools.chain(paths_from(g, starts, depth_all - 1), paths_from(g, starts[:3], depth_all))
            what = '%s:all-paths-depth-%d-after-seal' % (name, depth_all)
        else:
            paths, what = replay.all_paths(g, depth_all), '%s:all-paths-depth-%d' % (name, depth_all)
        st = replay.run_paths(g, factory(shifts[-1] + 1), paths, own=own)
        res.absorb(st, '%s:kinds+%d' % (what, shifts[-1] + 1), g)
    if not st.n_violations and walks:
        # a phased instance spends a few steps building, then stays in the access phase
        weight = (lambda e: 4 if e[0] == 'Seal' else 1) if phased else None
        st = replay.run_paths(g, factory(shifts[-1] + 2), replay.random_walks(g, walks, walk_len, res.seed, weight=weight),
                              own=own)
        res.absorb(st, '%s:random-walks:kinds+%d' % (name, shifts[-1] + 2), g)
    for s, labs, _t in replay.random_walks(g, 1, 12, res.seed + 1, weight=(lambda e: 4 if e[0] == 'Seal' else 1)):
        res.sample({'config': name, 'kind': str(dict(g.states[s]['kind'])), 'cls': str(dict(g.states[s]['cls'])),
                    'calls': ['%s%s' % (n, tla.to_json(a)) for n, a in labs]})
    return g


def dumps_in_parallel(res, configs, invariants, properties, workers=6):
    """The dumped TLC runs of several instances side by side (threads; join before any fork).  name -> (result, graph)"""
    from concurrent.futures import ThreadPoolExecutor
    with ThreadPoolExecutor(len(configs)) as ex:
        futs = {name: ex.submit(res.model_check, 'ResourcesMC', name, c, invariants=invariants, properties=properties,
                                overrides=ov, dump=True, workers=workers) for name, (c, ov) in configs.items()}
        return {name: f.result() for name, f in futs.items()}


def switch_runs(res, runs):
    """Non-vacuity: with one switch at its as-implemented value TLC must report one of `expect`.
    runs = [(name, (c, ov), invariants, properties, expect)].  The (small) TLC runs go side by side in threads;
    call the returned function to wait for them (before any fork)."""
    from concurrent.futures import ThreadPoolExecutor

    def one(r):
        name, (c, ov), invariants, properties, expect = r
        res.model_check('ResourcesMC', name, c, invariants=invariants, properties=properties, overrides=ov,
                        expect_violation=expect, count=False, workers=2)

    ex = ThreadPoolExecutor(len(runs))
    futs = [ex.submit(one, r) for r in runs]

    def join():
        for f in futs:
            f.result()
        ex.shutdown()
    return join


def note_leniencies(res, items):
    for it in items:
        if it not in res.assumptions:
            res.assumptions.append(it)


def replay_file(res, path, configs):
    """./check Cxx --replay FILE: rebuild the graph of the configuration named in the file and walk its labels."""
    desper = common.import_desper()
    with open(path) as f:
        blob = json.load(f)
    name = blob['summary'].split(':', 1)[0]
    m = re.search(r':kinds\+(\d+)', blob['summary'])
    shift = int(m.group(1)) if m else 0
    if name not in configs:
        raise common.MachineryError('replay file names unknown configuration %r' % name)
    c, ov, own, probe = configs[name]
    r, g = res.model_check('ResourcesMC', name, c, overrides=ov, dump=True)
    labels = [(n, _untuple(a)) for n, a in blob['detail']['labels']]
    init = blob['detail'].get('init_state')
    start = next((i for i in g.init if tla.to_json(g.states[i]) == init), g.init[0])
    # which handles had a false truth value in the failing behaviour, and how far the value kinds had rotated within
    # the pass, is not in the file: each combination in turn
    for rot, mix in itertools.product(range(len(ra.KINDS)), range(ra.N_MIXES)):
        st = replay.Stats()
        adapter = ra.ResourcesAdapter(desper, probe=probe, depth=int(c['MaxDepth']), kind_shift=shift,
                                      keep_snap=int(c['KeepSnap']), mix=mix, rot=rot)
        v = replay.walk(g, adapter, labels, own, st, start=start)
        if v:
            st.violations.append(v)
            st.n_violations = 1
            break
    res.absorb(st, '%s:replay:kinds+%d' % (name, shift), g)


def _untuple(a):
    return tuple(_untuple(x) for x in a) if isinstance(a, list) else a


def paths_from(g, starts, depth):
    """Every path of `depth` steps from each state in `starts`, behind its shortest history."""
    for s in starts:
        prefix = g.path_to(s)
        labs0 = [(x[1], x[2]) for x in prefix]
        tg0 = [x[3] for x in prefix]
        start = prefix[0][0] if prefix else s
        stack = [(s, [], [])]
        while stack:
            cur, labs, tg = stack.pop()
            outs = g.out.get(cur, ())
            if len(labs) == depth or not outs:
                if labs:
                    yield (start, labs0 + labs, tg0 + tg)
                continue
            for (n, a, d) in outs:
                stack.append((d, labs + [(n, a)], tg + [d]))


def just_sealed(g):
    """States right after Seal, richest trees first (number of names in use, then layers)."""
    out = []
    for s, outs in g.out.items():
        for (n, a, d) in outs:
            if n == 'Seal':
                st = g.states[d]
                size = sum(len(tla.fmap(v)) for v in tla.fmap(st['abs']).values())
                lay = sum(len(v) for v in tla.fmap(st['layers']).values())
                out.append((-size, -lay, d))
    return [d for _s, _l, d in sorted(set(out))]

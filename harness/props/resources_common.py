"""Shared driver for the properties decided on spec/Resources.tla (C11, C12, C17)."""
import json

from .. import common, replay, tla
from ..adapters import resources as ra

SWITCHES = ('ImplicitMapsLinked', 'ClearAllLayers', 'SetItemPopsAllLayers', 'StaticSlotsUnmangled', 'CacheTestsFlag')

INV_TREE = ['TypeOK', 'OnePlace', 'PathEquivalence', 'DefaultIffKeyError', 'HandleXorMap', 'LatestWins', 'BackLinks']
PROP_TREE = ['ClearDetaches']
INV_CACHE = ['TypeOK', 'AtMostOneLoad', 'CachedTellsTruth']
PROP_CACHE = ['SameObject', 'ValueStable']
INV_STATIC = ['TypeOK', 'MirrorsMap']
PROP_STATIC = ['SnapshotSucceeds', 'SnapshotReadsThrough', 'MutationRaisesAndChangesNothing']
INV_ALL = sorted(set(INV_TREE + INV_CACHE + INV_STATIC))
PROP_ALL = PROP_TREE + PROP_CACHE + PROP_STATIC


def _set(xs):
    return '{' + ', '.join('"%s"' % x for x in xs) + '}'


def consts(maps=3, handles=2, depth=2, layers=2, gen=2, ops='Ops_Tree', builders=None, receivers=None, phased=False,
           kinds='Kinds_One', cls='Cls_Plain', **switches):
    """(constants, overrides) of one ResourcesMC instance.  Switches default to TRUE (= intended)."""
    c = {'Hd': _set('h%d' % i for i in range(1, handles + 1)), 'Names': _set('ab'), 'MaxDepth': depth,
         'MaxLayers': layers, 'MaxGen': gen, 'Phased': 'TRUE' if phased else 'FALSE',
         'Builders': _set(builders) if builders else None, 'Receivers': _set(receivers) if receivers else None}
    ov = {'MapOrder': 'MapOrder%d' % maps, 'Ops': ops, 'KindChoices': kinds, 'ClsChoices': cls}
    for k in ('Builders', 'Receivers'):
        if c[k] is None:
            del c[k]
            ov[k] = 'M'
    for s in SWITCHES:
        c[s] = 'TRUE' if switches.pop(s, True) else 'FALSE'
    assert not switches, switches
    return c, ov


def check_and_replay(res, name, c, ov, invariants, properties, own, probe, depth_all=3, walks=1500, walk_len=20,
                     full=False):
    """(M) TLC on the instance, (C) its whole state graph replayed on the real classes.

    The graph is explored under VIEW View: back-links of nodes that no map holds are stale in tree.py and never
    read, so states that differ only there are one state.  `full` adds a run without the view (thorough tier).
    """
    desper = common.import_desper()
    if full:
        res.model_check('ResourcesMC', name + '_noview', c, invariants=invariants, properties=properties, overrides=ov)
    r, g = res.model_check('ResourcesMC', name, c, invariants=invariants, properties=properties, overrides=ov,
                           dump=True, count=not full)
    depth = int(c['MaxDepth'])

    def factory():
        return ra.ResourcesAdapter(desper, probe=probe, depth=depth)

    st = replay.run_paths(g, factory, replay.edge_paths(g), own=own)
    res.absorb(st, name + ':every-edge', g)
    if not st.n_violations and depth_all:
        st = replay.run_paths(g, factory, replay.all_paths(g, depth_all), own=own)
        res.absorb(st, name + ':all-paths-depth-%d' % depth_all, g)
    if not st.n_violations and walks:
        st = replay.run_paths(g, factory, replay.random_walks(g, walks, walk_len, res.seed), own=own)
        res.absorb(st, name + ':random-walks', g)
    for s, labs, _t in replay.random_walks(g, 1, 10, res.seed + 1):
        res.sample({'config': name, 'kind': str(dict(g.states[s]['kind'])), 'cls': str(dict(g.states[s]['cls'])),
                    'calls': ['%s%s' % (n, tla.to_json(a)) for n, a in labs]})
    return g


def switch_run(res, name, c, ov, invariants, properties, expect):
    """Non-vacuity: with one switch at its as-implemented value TLC must report one of `expect`."""
    res.model_check('ResourcesMC', name, c, invariants=invariants, properties=properties, overrides=ov,
                    expect_violation=expect, count=False)


def note_leniencies(res, items):
    for it in items:
        if it not in res.assumptions:
            res.assumptions.append(it)


def replay_file(res, path, configs):
    """./check Cxx --replay FILE: rebuild the graph of the configuration named in the file and walk its labels."""
    desper = common.import_desper()
    with open(path) as f:
        blob = json.load(f)
    name = blob['summary'].split(':', 1)[0]
    if name not in configs:
        raise common.MachineryError('replay file names unknown configuration %r' % name)
    c, ov, own, probe = configs[name]
    r, g = res.model_check('ResourcesMC', name, c, overrides=ov, dump=True)
    labels = [(n, _untuple(a)) for n, a in blob['detail']['labels']]
    init = blob['detail'].get('init_state')
    start = next((i for i in g.init if tla.to_json(g.states[i]) == init), g.init[0])
    st = replay.Stats()
    v = replay.walk(g, ra.ResourcesAdapter(desper, probe=probe, depth=int(c['MaxDepth'])), labels, own, st, start=start)
    if v:
        st.violations.append(v)
        st.n_violations = 1
    res.absorb(st, name + ':replay', g)


def _untuple(a):
    return tuple(_untuple(x) for x in a) if isinstance(a, list) else a

"""C19 — controllers, references and prototypes are faithful shorthands (spec/World.tla, spec/Shorthands.tla)."""
from .. import common, replay
from . import world_common as wc
from ..adapters.world import WorldAdapter
from ..adapters.shorthands import ShorthandsAdapter

MODES = ['ctrl', 'func', 'ref', 'world']


def replay_via(res, name, K, own, controllers=False, depth_all=3, walks=2000):
    desper = common.import_desper()
    r, g = res.model_check_py('World', name, K, invariants=wc.INVARIANTS, properties=wc.PROPERTIES, dump=True)

    def mk(modes):
        return lambda: WorldAdapter(desper, K, via=modes, controllers=controllers)

    for m in MODES[:3]:
        st = replay.run_paths(g, mk([m]), replay.edge_paths(g), own=own)
        res.absorb(st, '%s:every-edge via %s' % (name, m), g)
        if st.n_violations:
            return
    st = replay.run_paths(g, mk(MODES), replay.all_paths(g, depth_all), own=own)
    res.absorb(st, '%s:all-paths-depth-%d (modes rotate)' % (name, depth_all), g)
    if not st.n_violations:
        st = replay.run_paths(g, mk(MODES), replay.random_walks(g, walks, 30, res.seed), own=own)
        res.absorb(st, name + ':random-walks (modes rotate)', g)
    for s, labs, _t in replay.random_walks(g, 1, 8, res.seed + 1):
        res.sample({'config': name, 'via': MODES, 'calls': ['%s%s' % (n, list(a)) for n, a in labs]})


def on_update_check(res, desper):
    """OnUpdateProcessor relays each frame's dt exactly once to every on_update listener of its world."""
    n_ok = 0
    for n_listeners in range(0, 4):
        for dts in ([0], [1, 0.25, 3], [0.5, 0.5]):
            w = desper.World()
            w.add_processor(desper.OnUpdateProcessor())
            got = []
            L = desper.event_handler('on_update')(type('L', (), {'on_update': lambda self, dt: got.append((self.i, dt))}))
            ls = []
            for i in range(n_listeners):
                o = L()
                o.i = i
                ls.append(o)
                w.create_entity(o)
            for dt in dts:
                got.clear()
                w.process(dt)
                if sorted(got) != [(i, dt) for i in range(n_listeners)]:
                    res.violation('OnUpdateProcessor: %d listeners, dt=%r delivered %r' % (n_listeners, dt, got),
                                  {'listeners': n_listeners, 'dt': dt, 'got': got})
                n_ok += 1
    res.cov['on_update_frames_checked'] = n_ok


def run(res):
    desper = common.import_desper()
    th = res.tier == 'thorough'
    own_c = wc.OWN['C01'] | {'log', 'is_handler', 'ctrl_knows', 'enabled'}
    # component shorthands in every reachable world state; components are real Controllers
    C3 = {'c1': ('A', ('on_add',)), 'c2': ('A', ('on_add',)), 'c3': ('B', ('on_add',))}
    K = wc.base(Acts={'create', 'add', 'remove', 'delete', 'process', 'clear', 'toggle'}, Ids={1, 2}, MaxAuto=1,
                Types=wc.T2, Bases=wc.BASES2, MaxQ=2, **wc.comps(C3))
    replay_via(res, 'c19_components', K, own_c, controllers=True, depth_all=3, walks=10000 if th else 1500)
    # processor references
    P = wc.procs({'p1': ('P1', ()), 'p1b': ('P1', ()), 'p2': ('P2', ()), 'q': ('Q', ())},
                 {'P1': ((), 0), 'P2': (('P1',), 0), 'Q': ((), 5)})
    K2 = wc.base(Acts={'proc', 'process'}, Ids={1}, MaxAuto=1, Types={'A'}, Bases={'A': set()}, Prios={3}, **P)
    replay_via(res, 'c19_processors', K2, wc.OWN['C07'], depth_all=3, walks=5000 if th else 1000)
    # Prototype: every combination of construction sources
    n = 3 if th else 2
    r, g = res.model_check('Shorthands', 'c19_prototype', {'NTypes': n}, invariants=['OnePerListedInOrder', 'PrototypePriority'], dump=True)
    st = replay.run_paths(g, lambda: ShorthandsAdapter(desper, n), replay.edge_paths(g))
    res.absorb(st, 'c19_prototype:every-combination', g)
    on_update_check(res, desper)
    # OnUpdateProcessor as a state machine: listeners come and go, a listener raises in one frame, later frames relay again
    from ..adapters.onupdate import OnUpdateAdapter
    r, g = res.model_check('OnUpdate', 'c19_onupdate', {'L': '{"l1", "l2", "l3"}' if th else '{"l1", "l2"}', 'Dts': '{0, 1, 3}' if th else '{0, 2}'},
                           invariants=['OnlyThisDt'], properties=['EveryFrameRelays'], dump=True)
    st = replay.run_paths(g, lambda: OnUpdateAdapter(desper), replay.edge_paths(g))
    res.absorb(st, 'c19_onupdate:every-edge', g)

"""C02 — component lifecycle callbacks fire exactly once per attach/detach (spec/World.tla)."""
from . import world_common as wc

ACTS = {'create', 'add', 'remove', 'delete', 'process', 'clear', 'toggle', 'probe'}
# c1: full handler; c2: declares on_add (+probe) only; c3: declares on_remove only (subclass type)
C3 = {'c1': ('A', ('on_add', 'on_remove', 'probe')), 'c2': ('A', ('on_add', 'probe')), 'c3': ('B', ('on_remove',))}
C2P = {'c1': ('A', ('on_add', 'on_remove')), 'c2': ('A', ())}


def run(res):
    own = wc.OWN['C02']
    th = res.tier == 'thorough'
    K = wc.base(Acts=ACTS, Ids={1, 2}, MaxAuto=1, Types=wc.T2, Bases=wc.BASES2, MaxQ=3 if th else 2, **wc.comps(C3, falsy={'c1', 'c3'}))
    wc.check_and_replay(res, 'c02_lifecycle', K, own, depth_all=3 if th else 2, walks=20000 if th else 2000, walk_len=40, weak_pass=True)
    # a postponed callback raising while the queue is released: delivered ones are not repeated, the rest stays pending
    Kf = wc.base(Acts={'create', 'add', 'remove', 'toggle', 'fault'}, Ids={1}, MaxAuto=1, Types=wc.T2, Bases=wc.BASES2, MaxQ=3,
                 **wc.comps(C3, falsy={'c1'}))
    wc.check_and_replay(res, 'c02_release_fault', Kf, own, depth_all=0, walks=10000 if th else 1000, walk_len=30)
    # re-entrant lifecycle callbacks: a component removing itself from its own on_add; an on_add that disables dispatching
    # in the middle of a multi-component create_entity
    Kr = wc.base(Acts={'create', 'add', 'remove', 'toggle', 'reentrant'}, Ids={1, 2}, MaxAuto=0, Types=wc.T2, Bases=wc.BASES2, MaxQ=2,
                 **wc.comps(C3, falsy={'c3'}))
    wc.check_and_replay(res, 'c02_reentrant', Kr, own, depth_all=0, walks=10000 if th else 1000, walk_len=30)
    # create_entity(x, y) with x and y of ONE type (the repository's own test does it): x is attached and replaced in turn
    Kd = wc.base(Acts={'create', 'create2', 'createdup', 'remove', 'delete', 'toggle', 'process'}, Ids={1}, MaxAuto=1, Types=wc.T2, Bases=wc.BASES2,
                 MaxQ=4, **wc.comps(C3, falsy={'c2'}))
    wc.check_and_replay(res, 'c02_create_same_type', Kd, own, depth_all=0, walks=10000 if th else 1000, walk_len=20)
    wc.switch_run(res, 'c02_dup', Kd, 'CreateAttachesInTurn', ('RegisteredIffAttached',))
    # one component INSTANCE given to several entities (or again to the entity that holds it): every attachment has its own
    # on_add / on_remove, and the instance listens to the world's events until it leaves the last entity holding it
    Ksh = wc.base(Acts={'create', 'add', 'remove', 'delete', 'process', 'toggle', 'probe', 'shared'}, Ids={1, 2}, MaxAuto=0, Types=wc.T2,
                  Bases=wc.BASES2, MaxQ=2, **wc.comps({'c1': ('A', ('on_add', 'on_remove', 'probe')), 'c3': ('B', ('on_remove',))}))
    wc.check_and_replay(res, 'c02_shared_instance', Ksh, own, depth_all=0, walks=10000 if th else 1500, walk_len=25)
    wc.switch_run(res, 'c02_shared', Ksh, 'SharedStaysRegistered', ('RegisteredIffAttached',))
    # processors have the same lifecycle (on_add / on_remove without arguments)
    P = wc.procs({'p1': ('P1', ('on_add', 'on_remove')), 'q': ('Q', ('on_remove', 'probe'))}, {'P1': ((), 0), 'Q': ((), 5)})
    K2 = wc.base(Acts={'add', 'remove', 'clear', 'toggle', 'probe', 'proc', 'process'}, Ids={1}, MaxAuto=1, Types=wc.T2, Bases=wc.BASES2,
                 MaxQ=3, Prios={0}, **wc.comps(C2P), **P)
    wc.check_and_replay(res, 'c02_processors', K2, own | {'processors'}, depth_all=0, walks=1000)
    wc.trace_validate(res, 'c02_recorded', wc.big({'create', 'create2', 'add', 'remove', 'delete', 'process', 'clear', 'toggle', 'proc', 'fault', 'reentrant'}), 2000 if th else 150, 60)
    wc.repo_tests_validate(res)
    if th:
        wc.simulate_big(res, salt=2)
    for sw, inv in [('ImmediateDeleteNotifies', ('RegisteredIffAttached', 'MarksHaveRows')), ('ClearKeepsSelf', ('WorldListensToItself',)),
                    ('RelayOnlyDeclared', ('NoBadRelay',)), ('CreateNotifiesReplaced', ('RegisteredIffAttached',))]:
        wc.switch_run(res, 'c02', K, sw, inv)

"""Pipeline B: validate recorded traces with TLC against a <Module>Trace.tla specification (batch mode)."""
import json
import os
import re

from . import tlc


def validate(res, module, name, traces, constants, overrides=None, invariants=(), spec='TraceSpec', constraint='Track',
             postcondition='Accepted', shards=8, timeout=900):
    """Returns list of (trace index, events matched) for rejected traces.  Raises MachineryError on TLC failure."""
    from .common import MachineryError
    from concurrent.futures import ThreadPoolExecutor
    from . import replay as _rp
    if not traces or _rp.REPLAY is not None:
        return []
    shards = max(1, min(shards, len(traces)))
    parts = [traces[i::shards] for i in range(shards)]
    index = [list(range(len(traces)))[i::shards] for i in range(shards)]

    def one(k):
        tf = os.path.join(res.scratch, '%s_%s_%d.json' % (module, name, k))
        with open(tf, 'w') as f:
            json.dump(parts[k], f)
        cfg = os.path.join(res.scratch, '%s_%s_%d.cfg' % (module, name, k))
        tlc.write_cfg(cfg, spec=spec, constants=constants, overrides=overrides, invariants=invariants,
                      constraints=[constraint], postcondition=postcondition)
        r = tlc.run(module, cfg, res.scratch, workers=1, timeout=timeout, env={'TRACE_FILE': tf}, module_dir=res.specdir)
        os.remove(tf)
        return r

    with ThreadPoolExecutor(shards) as ex:
        results = list(ex.map(one, range(shards)))
    rejected = []
    states = 0
    for k, r in enumerate(results):
        states += r.distinct
        m = re.search(r'Invariant (\w+) is violated', r.out)
        if m:
            # an invariant of the base module failed on a state reached while following a real execution;
            # TLC stopped there, so the REJECT lines of this shard are meaningless
            tail = r.out[r.out.find('is violated'):]
            tids = re.findall(r'/\\ tid = (\d+)', tail)
            ls = re.findall(r'/\\ l = (\d+)', tail)
            rejected.append((index[k][int(tids[-1]) - 1] if tids else -1, 'invariant %s after event %s' % (m.group(1), int(ls[-1]) - 2 if ls else '?')))
            continue
        rej = re.findall(r'<<"REJECT", (\d+), (\d+)>>', r.out)
        for t, hw in rej:
            rejected.append((index[k][int(t) - 1], int(hw) - 1))
        if r.violated and not rej:
            raise MachineryError('trace validation %s/%s shard %d failed: %s\n%s' % (module, name, k, r.violated, r.out[-3000:]))
    res.tlc_runs.append({'module': module, 'config': name, 'mode': 'trace validation (pipeline B)', 'traces': len(traces),
                         'events': sum(len(t['events']) for t in traces), 'distinct_states': states, 'shards': shards,
                         'rejected': len(rejected), 'wall_s': round(max(r.wall for r in results), 1)})
    return rejected

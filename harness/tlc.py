"""Run TLC (exhaustive / simulate / trace batches) and parse what it reports."""
import os
import re
import shutil
import subprocess
import tempfile
import time

HERE = os.path.dirname(os.path.abspath(__file__))
SPEC_DIR = os.path.join(os.path.dirname(HERE), 'spec')
JAR = '/opt/veriftools/tla/tla2tools.jar'


class TLCResult:
    def __init__(self):
        self.ok = False            # finished, no error of any kind
        self.violated = None       # name of violated invariant/property (or 'deadlock', 'error')
        self.states = 0            # states generated (= transitions examined)
        self.distinct = 0
        self.depth = 0
        self.wall = 0.0
        self.out = ''
        self.cmd = ''
        self.trace = []            # counterexample states (raw text blocks) when violated
        self.coverage = {}         # action -> (distinct, total) when -coverage was on


_STATS = re.compile(r'(\d[\d,]*) states generated, (\d[\d,]*) distinct states found')
_DEPTH = re.compile(r'depth of the complete state graph search is (\d+)')
_INV = re.compile(r'Invariant (\S+) is violated')
_PROP = re.compile(r'(?:Action|Temporal) propert(?:y|ies) (\S+)? ?(?:is|were) violated')
_COV = re.compile(r'^<(\w+) line \d+, col \d+ to line \d+, col \d+ of module (\w+)>: (\d+):(\d+)', re.M)


def scratch(prefix='verif-'):
    base = os.environ.get('VERIF_SCRATCH') or tempfile.gettempdir()
    return tempfile.mkdtemp(prefix=prefix, dir=base)


def write_cfg(path, spec='Spec', constants=None, invariants=(), properties=(), constraints=(),
              action_constraints=(), view=None, deadlock=False, init=None, next_=None, postcondition=None,
              overrides=None):
    lines = []
    if init and next_:
        lines += ['INIT ' + init, 'NEXT ' + next_]
    else:
        lines.append('SPECIFICATION ' + spec)
    if constants or overrides:
        lines.append('CONSTANTS')
        for k, v in (constants or {}).items():
            lines.append('  %s = %s' % (k, v))
        for k, v in (overrides or {}).items():
            lines.append('  %s <- %s' % (k, v))
    for i in invariants:
        lines.append('INVARIANT ' + i)
    for p in properties:
        lines.append('PROPERTY ' + p)
    for c in constraints:
        lines.append('CONSTRAINT ' + c)
    for c in action_constraints:
        lines.append('ACTION_CONSTRAINT ' + c)
    if view:
        lines.append('VIEW ' + view)
    if postcondition:
        lines.append('POSTCONDITION ' + postcondition)
    lines.append('CHECK_DEADLOCK ' + ('TRUE' if deadlock else 'FALSE'))
    with open(path, 'w') as f:
        f.write('\n'.join(lines) + '\n')


def run(module, cfg, workdir, workers=None, dump=None, simulate=None, depth=None, seed=None, coverage=False,
        timeout=1800, env=None, extra=(), java_opts=None, module_dir=None):
    """Run TLC on spec/<module>.tla with config file `cfg` (absolute path). Returns TLCResult."""
    module_dir = module_dir or SPEC_DIR
    workers = workers or os.environ.get('VERIF_WORKERS') or str(min(16, os.cpu_count() or 4))
    meta = os.path.join(workdir, 'meta-%d' % int(time.time() * 1e6))
    cmd = ['java', '-XX:+UseParallelGC', '-Xmx6g', '-Djava.io.tmpdir=' + workdir]      # (TLC unpacks its standard modules there)
    if java_opts:
        cmd += list(java_opts)
    cmd += ['-cp', JAR + ':/opt/veriftools/tla/CommunityModules-deps.jar', 'tlc2.TLC',
            '-workers', str(workers), '-metadir', meta, '-noGenerateSpecTE', '-config', cfg]
    if dump:
        cmd += ['-dump', 'dot,actionlabels', dump]
    if simulate:
        cmd += ['-simulate', simulate]
    if depth:
        cmd += ['-depth', str(depth)]
    if seed is not None:
        cmd += ['-seed', str(seed)]
    if coverage:
        cmd += ['-coverage', '1']
    cmd += list(extra)
    cmd.append(os.path.join(module_dir, module + '.tla'))
    r = TLCResult()
    r.cmd = ' '.join(cmd)
    t0 = time.time()
    e = dict(os.environ)
    if env:
        e.update(env)
    try:
        p = subprocess.run(cmd, cwd=module_dir, stdout=subprocess.PIPE, stderr=subprocess.STDOUT, text=True,
                           timeout=timeout, env=e)
        r.out = p.stdout
        rc = p.returncode
    except subprocess.TimeoutExpired as ex:
        r.out = (ex.stdout or b'').decode() if isinstance(ex.stdout, bytes) else (ex.stdout or '')
        r.violated = 'timeout'
        rc = -1
    r.wall = time.time() - t0
    shutil.rmtree(meta, ignore_errors=True)
    ms = _STATS.findall(r.out)
    if ms:
        r.states = int(ms[-1][0].replace(',', ''))
        r.distinct = int(ms[-1][1].replace(',', ''))
    m = re.search(r'The number of states generated: (\d+)', r.out)
    if m and not ms:
        r.states = int(m.group(1))
    m = _DEPTH.search(r.out)
    if m:
        r.depth = int(m.group(1))
    for name, mod, dist, tot in _COV.findall(r.out):
        r.coverage[name] = (int(dist), int(tot))
    m = _INV.search(r.out)
    if m:
        r.violated = m.group(1)
    elif 'is violated' in r.out or 'was violated' in r.out or 'were violated' in r.out:
        m2 = re.search(r'propert\w+ (\w+)', r.out)
        r.violated = m2.group(1) if m2 else 'property'
    elif 'Deadlock reached' in r.out:
        r.violated = 'deadlock'
    elif r.violated is None and (rc != 0 or 'Error:' in r.out):
        r.violated = 'error'
    if r.violated and r.violated not in ('error', 'timeout'):
        r.trace = re.findall(r'State \d+: <([^>]*)>\n((?:.+\n)+)', r.out)
    r.ok = r.violated is None
    return r


def tla_jar_classpath_ok():
    return os.path.exists(JAR)

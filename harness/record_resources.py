"""Randomized driver recording executions of the real desper.model.tree classes as JSON traces (pipeline B).

The calls are performed and observed by the pipeline-A adapter (harness/adapters/resources.py, probe=False: nothing
the observer does loads a handle), over a bigger universe than the exhaustive instances: six maps, eight handles, five
names of mixed lexical classes, composite keys up to three names, up to three ChainMap layers per map, handles whose
load raises once, handles whose truth value is False (every other trace), staging moves, resources stored again where
they are, snapshots read while their map moves on and taken again after changes.  The generator keeps a shadow of the
tables in model ids, read from the real objects after each call — it serves the preconditions of the generated domain
only (SetItem of Resources.tla: no cycles, one place per node unless moved out of a staging map or stored again where
it is, pool of implicit maps not exhausted); the verdict is TLC's.
"""
import random

from .adapters import resources as ra

NAMES = ('a', 'b', 'c', 'd', 'e')
# concrete spelling of the model's name number i for each lexical class
SPELL = {
    'plain': ('a', 'b', 'c', 'd', 'e'), 'under': ('_a', '_b', '_c', '_d', '_e'),
    'private': ('__a', '__b', '__c', '__d', '__e'), 'dunder': ('__a__', '__b__', '__c__', '__d__', '__e__'),
    'keyword': ('class', 'import', 'for', 'while', 'lambda'), 'const': ('None', 'True', 'False', 'None_', 'True_'),
    'nonascii': ('über', 'ñandú', 'été', 'ça', 'øl'), 'space': ('a b', 'b a', 'c d', 'd c', 'e f'),
    'dot': ('a.b', 'b.a', 'c.d', 'd.c', 'e.f'), 'digit': ('1', '2', '3', '4', '5'),
}
IDENT = {'plain', 'under', 'private', 'dunder', 'keyword', 'const', 'nonascii'}

# lexical classes of a..e, one assignment per trace ('const' only where SPELL has a real constant)
CLS_POOL = (
    ('plain', 'plain', 'plain', 'plain', 'plain'),
    ('plain', 'under', 'private', 'space', 'dunder'),
    ('private', 'const', 'keyword', 'plain', 'nonascii'),
    ('dot', 'digit', 'plain', 'private', 'plain'),
    ('nonascii', 'space', 'under', 'keyword', 'digit'),
    ('private', 'private', 'plain', 'plain', 'dot'),
    ('plain', 'plain', 'space', 'plain', 'plain'),
)
# what load() returns, h1..h8
KIND_POOL = (
    ('None', 'weird', 'zero', 'list', 'str', 'None', 'list', 'weird'),
    ('zero', 'None', 'str', 'weird', 'list', 'zero', 'None', 'str'),
    ('list', 'str', 'weird', 'None', 'zero', 'list', 'weird', 'None'),
    ('weird', 'list', 'None', 'zero', 'None', 'str', 'zero', 'list'),
    # resources of the library's own types: a map of resources, a handle, a world
    ('rmap', 'handle', 'world', 'None', 'rmap', 'list', 'handle', 'world'),
    ('zero', 'rmap', 'weird', 'world', 'handle', 'rmap', 'str', 'rmap'),
)


def universe(maps=6, handles=8, depth=3, layers=3):
    """Constants of the recorded instance (Python values; the single source shared by recorder and TLC)."""
    hd = tuple('h%d' % i for i in range(1, handles + 1))
    return dict(MapOrder=tuple('m%d' % i for i in range(maps)), Hd=hd, Names=NAMES, MaxDepth=depth, MaxLayers=layers,
                MaxGen=1000000,
                KindSeq=tuple(dict(zip(hd, k)) for k in KIND_POOL), ClsSeq=tuple(dict(zip(NAMES, c)) for c in CLS_POOL))


class Recorder(ra.ResourcesAdapter):
    """The pipeline-A adapter with a spelling for five names."""

    def reset(self, init):
        super().reset(init)
        env = self.env
        env.real = {n: SPELL[c][NAMES.index(n)] for n, c in env.cls.items()}
        env.abstract = {r: n for n, r in env.real.items()}
        sep = self.ResourceMap.split_char
        env.probes = [('/'.join(p), sep.join(env.real.get(n, n) for n in p), [env.real.get(n, n) for n in p])
                      for p in self._paths()]
        env.probes1 = [p for p in env.probes if '/' not in p[0]]


class Shadow:
    """The real tables in model ids (generator preconditions only): mp[m] name -> sub-map, ly[m] layers name -> handle."""

    def __init__(self, order, mp, ly, layered=True):
        self.order, self.mp, self.ly, self.layered = order, mp, ly, layered
        self.held = {c for x in mp.values() for c in x.values()} | {h for ls in ly.values() for l in ls for h in l.values()}

    @classmethod
    def read(cls, ad):
        env = ad.env
        ids = ad._ids()
        ab = env.abstract
        layered = True
        mp, ly = {}, {}
        for mid, m in env.maps.items():
            mp[mid] = {ab[k]: ids[id(c)] for k, c in m.maps.items() if k in ab and id(c) in ids}
            try:
                ls = list(m.handles.maps)
            except Exception:       # layers not readable: no PushLayer is generated, one layer is assumed
                ls, layered = [dict(m.handles.items())], False
            ly[mid] = tuple({ab[k]: ids[id(h)] for k, h in l.items() if k in ab and id(h) in ids} for l in ls)
        return cls(env.order, mp, ly, layered)

    def vis(self, m):
        d = {}
        for l in reversed(self.ly[m]):
            d.update(l)
        return d

    def names(self, m):
        return sorted(set(self.mp[m]) | set(self.vis(m)))

    def sub(self, m):
        out, todo = set(), [m]
        while todo:
            x = todo.pop()
            if x not in out:
                out.add(x)
                todo += list(self.mp.get(x, {}).values())
        return out

    def twice(self, m):
        """Is some map reachable from m along two paths (a resource moved out of a staging map is still listed there)?
        Then get_static_map() makes two snapshot objects for one map of the model; the adapter names a snapshot
        node by the map it mirrors, so such a tree is not snapshotted (DESIGN section 6: leniency 'a node inside
        the same tree twice')."""
        seen, todo = set(), [m]
        while todo:
            x = todo.pop()
            if x in seen:
                return True
            seen.add(x)
            todo += list(self.mp.get(x, {}).values())
        return False

    def places(self, node):
        return {(x, n) for x, d in self.mp.items() for n, c in d.items() if c == node} | \
               {(x, n) for x, ls in self.ly.items() for l in ls for n, h in l.items() if h == node}

    def place_in(self, t):
        x, n, c = t
        return self.mp[x].get(n) == c or any(l.get(n) == c for l in self.ly[x])

    def blank(self, m):
        return not self.mp[m] and not any(self.ly[m])

    def pre(self):
        """What the adapter's _bind_implicit wants to see of the model's pre-state."""
        return {'maps': self.mp, 'layers': self.ly}

    def target(self, m, p):
        """The map a key leads to through maps that exist (None: some would have to be made)."""
        cur = m
        for k in p[:-1]:
            cur = self.mp[cur].get(k)
            if cur is None:
                return None
        return cur

    def can_set(self, m, p, node, stale, pool=True, moves=True):
        """The generated domain of SetItem (see the comment in Resources.tla); pool=False: ids for implicit maps
        never run out (the caller sizes the pool afterwards); moves=False: no staging moves (the caller keeps no
        record of stale places)."""
        root = self.order[0]
        if node == root or node == m:
            return False
        is_map = node in self.mp
        if is_map and (m in self.sub(node) or self.target(m, p) in self.sub(node)):
            return False        # (no cycles: neither the receiver nor the map the key leads to lies below the node)
        if node in self.held:
            pl = self.places(node)
            moved = moves and m in self.sub(root) and len(pl) == 1 and all(x != root and x not in self.held for x, _n in pl)
            # (again) stored once more where it is, through maps that exist: every other place it has is stale
            here = (self.target(m, p), p[-1])
            again = here in pl and all((x, n, node) in stale for x, n in pl if (x, n) != here)
            if not (moved or again):
                return False
        if is_map:
            below = self.sub(node)
            if any(t[0] in below for t in stale):
                return False
        if not pool:
            return True
        # maps the walk has to create: the part of the key after the longest existing prefix
        cur, need = m, 0
        for i, k in enumerate(p[:-1]):
            if k in self.mp[cur]:
                cur = self.mp[cur][k]
            else:
                need = len(p) - 1 - i
                break
        free = [x for x in self.order[1:] if x not in (m, node) and x not in self.held and self.blank(x)]
        return need <= len(free)


def _path(rnd, sh, start, weights, bias):
    """A key of 1..3 names: follows what exists below `start` with probability `bias` per name."""
    n = rnd.choices((1, 2, 3), weights)[0]
    cur, p = start, []
    for _ in range(n):
        here = sh.names(cur) if cur is not None else []
        k = rnd.choice(here) if here and rnd.random() < bias else rnd.choice(NAMES)
        p.append(k)
        cur = sh.mp[cur].get(k) if cur is not None else None
    return tuple(p)


def _keys_to(rnd, sh, x, n):
    """A map and a key that lead to name n of map x: from x itself or from a map one or two levels above it."""
    m, p = x, (n,)
    for _ in range(rnd.choice((0, 0, 1, 2))):
        up = sorted((y, k) for y, d in sh.mp.items() for k, c in d.items() if c == m)
        if not up or len(p) == 3:
            break
        y, k = rnd.choice(up)
        m, p = y, (k,) + p
    return m, p


def _draw(rnd, ad, sh, K, stale, cached, snaps, ident, k, mirrored=()):
    """One random call (op, args) inside the generated domain, or (op, None)."""
    order, hd = list(K['MapOrder']), list(K['Hd'])
    root = order[0]
    nodes = order[1:] + hd
    w = dict(W_SNAP if snaps else W_BUILD)
    if k < 8:                           # build something first
        w['SetItem'] *= 2
        w['Snapshot'] = 0
    if not sh.layered:
        w['PushLayer'] = 0
    op = rnd.choices(list(w), list(w.values()))[0]
    args = None
    if op == 'SetItem':
        if sh.held and rnd.random() < 0.12:
            # a resource that is in the tree is stored again where it is (nothing changes)
            node = rnd.choice(sorted(sh.held))
            m, p = _keys_to(rnd, sh, *rnd.choice(sorted(sh.places(node))))
            if sh.can_set(m, p, node, stale):
                return op, (m, p, node)
        for _try in range(12):
            m = rnd.choice(sorted(sh.sub(root))) if rnd.random() < 0.6 else rnd.choice(order)
            staged = [n for n in nodes if n in sh.held] if rnd.random() < 0.25 else []
            node = rnd.choice(staged or [n for n in nodes if n not in sh.held] or nodes)
            p = _path(rnd, sh, m, (5, 3, 2), 0.5)
            if sh.can_set(m, p, node, stale):
                args = (m, p, node)
                break
    elif op == 'PushLayer':
        ms = [m for m in order if len(sh.ly[m]) < K['MaxLayers']]
        busy = [m for m in ms if any(sh.ly[m])]
        if ms:
            args = (rnd.choice(busy if busy and rnd.random() < 0.8 else ms),)
    elif op == 'Clear':
        busy = [m for m in order if not sh.blank(m)]
        args = (rnd.choice(busy if busy and rnd.random() < 0.85 else order),)
    elif op == 'Snapshot':
        m = root if rnd.random() < 0.6 else rnd.choice(order)
        if not sh.twice(m):
            args = (m,)
    elif op in ('Call', 'ClearHandle'):
        args = (rnd.choice(hd),)
    elif op == 'ArmFault':
        hs = [h for h in hd if h not in ad.env.armed and not cached[h]]
        if hs:
            args = (rnd.choice(hs),)
    elif op in ('Get', 'GetItem'):
        m = root if rnd.random() < 0.6 else rnd.choice(order)
        args = (m, _path(rnd, sh, m, (3, 4, 3), 0.8))
    else:                               # reads of / mutation attempts on a snapshot node
        x = rnd.choice(snaps)
        pool = NAMES if op != 'SAttr' else ident
        # names the mirrored map has now, and names the snapshot has (its map may have moved on)
        here = sorted({n for n in sh.names(x) if n in pool} | {n for sx, n in mirrored if sx == x and n in pool})
        if pool:
            args = (x, rnd.choice(here) if here and rnd.random() < 0.8 else rnd.choice(pool))
    return op, args


def _follow_ups(rnd, sh, K, op, args, obs, ident=()):
    """Short scripted continuations of the call just made: histories a uniform draw rarely completes."""
    root = K['MapOrder'][0]
    if op == 'Snapshot' and obs['ret'][0] == 'snap' and obs['smirror'] and rnd.random() < 0.5:
        # the map moves on where the snapshot looks - a name of a mirrored map gets a resource of the other kind, or
        # one more level, or the map is cleared - and the snapshot taken before is read there: it has not moved
        x, n, was, _c = rnd.choice(obs['smirror'])
        free = [c for c in list(K['MapOrder'][1:]) + list(K['Hd']) if c not in sh.held and c != x and
                (c in K['Hd']) == (was == 'snap')]
        change = rnd.choice(('other', 'deeper', 'clear'))
        if change == 'other' and free:
            plan = [('SetItem', (x, (n,), rnd.choice(free)))]
        elif change == 'deeper' and [h for h in K['Hd'] if h not in sh.held]:
            plan = [('SetItem', (x, (n, rnd.choice(NAMES)), rnd.choice([h for h in K['Hd'] if h not in sh.held])))]
        else:
            plan = [('Clear', (x,))]
        reads = [('SItem', (x, n)), ('SGet', (x, n)), ('SItem', (x, n))]
        if n in ident:
            reads.insert(1, ('SAttr', (x, n)))
        return plan + reads[:rnd.choice((1, 2, len(reads)))]
    if op in ('SItem', 'SAttr', 'GetItem', 'Call') and obs['ret'][0] == 'val' and rnd.random() < 0.3:
        # the same access again after the handle was cleared (and again without a clear)
        hs = sorted({h for h, _k in obs['ret'][1]} & set(obs['loaded'])) or sorted(h for h, _k in obs['ret'][1])
        if hs:
            return [('ClearHandle', (rnd.choice(hs),)), (op, args), (op, args)]
    if op == 'SetItem' and len(args[1]) == 1 and args[0] != root and args[0] not in sh.held and rnd.random() < 0.5:
        # a resource put into a staging map is moved into the main tree; the staging map is cleared afterwards
        m = rnd.choice(sorted(sh.sub(root)))
        return [('SetItem', (m, _path(rnd, sh, m, (6, 3, 1), 0.3), args[2])), ('Clear', (args[0],))]
    return []


SNAP_OPS = ('SAttr', 'SItem', 'SGet', 'SSetAttr', 'SDelAttr')
W_BUILD = {'SetItem': 40, 'PushLayer': 6, 'Clear': 4, 'Snapshot': 8, 'Call': 8, 'ClearHandle': 5, 'ArmFault': 3, 'Get': 6,
           'GetItem': 12}
W_SNAP = {'SetItem': 5, 'PushLayer': 1, 'Clear': 1, 'Snapshot': 3, 'Call': 6, 'ClearHandle': 10, 'ArmFault': 4, 'Get': 3,
          'GetItem': 8, 'SAttr': 14, 'SItem': 18, 'SGet': 8, 'SSetAttr': 5, 'SDelAttr': 4}


def _ret(r):
    """The adapter's `ret` facet as (rk, ri, rv) of ResourcesTrace.tla."""
    if r[0] == 'val':
        return 'val', '-', [list(x) for x in sorted(r[1])]
    if r[0] in ('ok', 'default'):
        return r[0], '-', []
    return r[0], str(r[1]), []


def event(op, args, obs):
    a = list(args) + ['-', '-', '-']
    rk, ri, rv = _ret(obs['ret'])
    ev = {'op': op, 'a1': a[0], 'a2': list(a[1]) if isinstance(a[1], tuple) else a[1], 'a3': a[2],
          'rk': rk, 'ri': ri, 'rv': rv,
          'loaded': list(obs['loaded']), 'seen': [[h, bool(c)] for h, c in obs['seen_in_load']],
          'cached': sorted(h for h, c in obs['cached'].items() if c),
          'nloads': [[h, n] for h, n in sorted(obs['nloads'].items())],
          'den': [[m, p.split('/'), k, str(i)] for m, p, k, i in obs['den_get']],
          'links': [[str(x) for x in t] for t in obs['links']],
          'layers': [] if obs['wb_layers'] is None else
                    [[m, [[list(kv) for kv in l] for l in ls]] for m, ls in obs['wb_layers']],
          'smirror': [[str(x) for x in t] for t in obs['smirror']]}
    if op == 'Clear':
        ev['empty'] = bool(obs['empty_after_clear'])
        ev['detached'] = [[str(x) for x in t] for t in obs.get('detached', ())]
    return ev


def record(desper, K, seed, n_traces, n_calls):
    rnd = random.Random(seed)
    ad = Recorder(desper, probe=False, depth=K['MaxDepth'], keep_snap=K.get('KeepSnap', 10 ** 6), rot=0)
    order, hd = list(K['MapOrder']), list(K['Hd'])
    traces = []
    for _t in range(n_traces):
        ki, ci = rnd.randrange(len(K['KindSeq'])), rnd.randrange(len(K['ClsSeq']))
        cls = K['ClsSeq'][ci]
        ad.reset({'maps': {m: () for m in order}, 'kind': K['KindSeq'][ki], 'cls': cls})
        ident = [n for n in NAMES if cls[n] in IDENT]
        sh = Shadow.read(ad)
        stale = set()
        cached = {h: False for h in hd}
        events = []
        plan = []               # follow-ups of the last call, tried first (dropped when no longer enabled)
        mirrored = set()        # (snapshot node, name) the snapshot at hand has
        while len(events) < n_calls:
            snaps = sorted(ad.env.snaps)
            if plan:
                op, args = plan.pop(0)
                if (op == 'SetItem' and not sh.can_set(*args, stale)) or (op in SNAP_OPS and args[0] not in snaps):
                    plan = []
                    continue
            else:
                op, args = _draw(rnd, ad, sh, K, stale, cached, snaps, ident, len(events), mirrored)
            if args is None:
                continue
            places = sh.places(args[2]) if op == 'SetItem' else ()
            here = (sh.target(args[0], args[1]), args[1][-1]) if op == 'SetItem' else None
            obs = ad.step(op, args, sh.pre())
            mirrored = {(t[0], t[1]) for t in obs['smirror']}
            events.append(event(op, args, obs))
            # shadow state from the real objects (for the generator's preconditions only)
            sh = Shadow.read(ad)
            cached = {h: bool(c) for h, c in obs['cached'].items()}
            if op == 'SetItem':
                # (the place it is stored at is not a superseded one, also when it was there before)
                stale = {t for t in stale | {(x, n, args[2]) for x, n in places} if sh.place_in(t) and t != here + (args[2],)}
            elif op == 'Clear':
                stale = {t for t in stale if t[0] != args[0]}
            plan = plan or _follow_ups(rnd, sh, K, op, args, obs, ident)
        traces.append({'ki': ki + 1, 'ci': ci + 1, 'fresh': True, 'events': events})
        if len(traces) % 20 == 0:
            import gc
            gc.freeze()         # recorded traces never become garbage
    return traces

"""Randomized driver recording executions of the real EventDispatcher as JSON traces (pipeline B)."""
import random

from .adapters.dispatcher import DispatcherAdapter
from .tla import FD
from .replay import SKIP

HS = ['h%d' % i for i in range(1, 7)]
EVS = ['a', 'b', 'c']


def random_header(rnd):
    subs = {}
    beh = {}
    for h in HS:
        s = {'a'} if rnd.random() < 0.8 else set()
        for e in ('b', 'c'):
            if rnd.random() < 0.5:
                s.add(e)
        subs[h] = sorted(s or {'b'})
    kinds = ['nop', 'nop', 'nop', 'raise', 'disable', 'enable', 'add', 'remove', 'drop', 'disp']
    for h in HS:
        k = rnd.choice(kinds)
        if k in ('add', 'remove'):
            beh[h] = [k, rnd.choice(HS)]
        elif k == 'drop':
            beh[h] = [k, rnd.choice([x for x in HS if x != h])]
        elif k == 'disp':
            beh[h] = [k, rnd.choice(['b', 'c'])]
        else:
            beh[h] = [k, '-']
    # a handler that may be on the stack while others run (nested enable / dispatch) is never a drop target
    for h in HS:
        if beh[h][0] == 'drop' and beh[beh[h][1]][0] in ('disp', 'enable'):
            beh[h] = ['nop', '-']
    return {'subs': subs, 'beh': beh, 'ids': True}


def _q(obs):
    q = obs.get('wb_queue', ())
    return [-1] if q is SKIP else list(q)


def record(desper, seed, n_traces, n_calls):
    import gc
    rnd = random.Random(seed)
    ad = DispatcherAdapter(desper)
    traces = []
    for _t in range(n_traces):
        hdr = random_header(rnd)
        ad.reset(FD({'subs': FD({h: frozenset(v) for h, v in hdr['subs'].items()}),
                     'beh': FD({h: tuple(v) for h, v in hdr['beh'].items()})}))
        held = set(HS)
        events = []
        queued = 0
        for _k in range(n_calls):
            ops = [('Dispatch', rnd.choice(EVS))] * 6 + [('SetEnabled', rnd.random() < 0.6)] * 3
            if held:
                ops += [('AddHandler', rnd.choice(sorted(held)))] * 4 + [('RemoveHandler', rnd.choice(sorted(held)))]
                if rnd.random() < 0.15:
                    ops += [('DropRef', rnd.choice(sorted(held)))]
            if rnd.random() < 0.03:
                ops += [('Clear', None)]
            op, arg = rnd.choice(ops)
            obs = ad.step(op, (arg,) if arg is not None else (), None)
            held = set(obs['alive'])
            ev = {'op': op, 'arg': arg if arg is not None else '-', 'ret': obs['ret'] if obs['ret'] in ('ok', 'raised') else obs['ret'],
                  'log': [list(x) for x in obs['log']], 'enabled': obs['enabled'], 'reg': sorted(obs['reg']),
                  'alive': sorted(obs['alive']), 'queue': _q(obs)}
            events.append(ev)
            if len(ev['queue']) > 12:          # keep queues short: enable soon
                obs = ad.step('SetEnabled', (True,), None)
                events.append({'op': 'SetEnabled', 'arg': True, 'ret': obs['ret'], 'log': [list(x) for x in obs['log']],
                               'enabled': obs['enabled'], 'reg': sorted(obs['reg']), 'alive': sorted(obs['alive']),
                               'queue': _q(obs)})
                held = set(obs['alive'])
        traces.append({'header': hdr, 'events': events})
        if _t % 20 == 19:
            gc.freeze()         # recorded traces never become garbage: keep the adapter's gc.collect() calls cheap
    return traces

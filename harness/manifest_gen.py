"""Regenerates MANIFEST.json from the registry below (run: /venv/bin/python -m harness.manifest_gen)."""
import json
import os

from .common import VERIF

TRUSTED = ('TLC 1.8.0 explicit-state exploration within the constants printed in the evidence file; the TLA+ value '
           'parser and the adapter/projection code of /verif/harness; CPython 3.12 semantics (sets, weak references, '
           'generators); conformance is by replay, so only behaviours the specification generates (exhaustive over the '
           'dumped instance, plus random walks) are compared with the code.')

CHECKS = {
    'C03': ('Dispatcher.tla + EventDeco.tla', 'TLA+ spec of EventDispatcher (small-step, re-entrant callbacks) checked by TLC; every call outcome of the dumped state graph, all short paths and random walks replayed on the real EventDispatcher; event_handler hierarchies enumerated by TLC and rebuilt with the real decorator', '6 C03'),
    'C04': ('Dispatcher.tla', 'TLA+ spec of the disabled/enabled gate and release loop with raise / disable / nested enable injected at every delivery position; TLC invariants + action properties (at-most-once, order, progress); idle-to-idle quotient of the dumped graph replayed on the real class under a watchdog', '6 C04'),
    'C01': ('World.tla', 'TLA+ spec of the World tables (index and rows kept as in the code, ghost ownership relation) checked exhaustively by TLC over finite pools, hence for histories of every length over them; every edge of the dumped state graph, all short paths and random walks replayed on the real World comparing every query after every step', '6 C01'),
    'C02': ('World.tla', 'lifecycle layer of the World spec (direct call when enabled, relay through the own queue when disabled, registration as listener) with TLC invariants RegisteredIffAttached / PendingConsistent / WorldListensToItself; replay compares per-call callback logs (entity, world identity), is_handler of every instance and probe deliveries', '6 C02'),
    'C05': ('World.tla', 'deferred deletion as actions DeleteDeferred / Process with fault actions (processor raises, on_remove raises at every position); TLC action properties MarkHidesAtOnce, FreedAfterProcess, ProcessNeverFails, NoPermanentFailure; replay of all short histories mixing deferred deletion with every other operation', '6 C05'),
    'C06': ('TypeQueries.tla', 'the class hierarchy is an input of the specification: TLC enumerates every DAG of N classes x every assignment x every query type; each is rebuilt with real Python classes and all six query methods compared', '6 C06'),
    'C07': ('World.tla', 'processor list as a sequence with bisect-right insertion, TLC invariants SortedStable / OnePerType and action properties InsertAfterEquals / KeepsRelativeOrder; replay compares processors, get_processor, priorities, world back-link and the per-frame call log', '6 C07'),
    'C18': ('VecMath.tla', 'exact integer/rational TLA+ reference of desper.math evaluated by TLC on enumerated operand families (algebraic laws checked as invariants on the reference); the table is replayed into the real classes with int and Fraction operands and compared exactly (tolerance only for sqrt/angle results). Partial: sampled, not proved, see DESIGN section 7', '6 C18, 7'),
    'C19': ('World.tla + Shorthands.tla', 'every World action of the specification is executed through each access path (Controller methods, module-level shorthands, Component/ProcessorReference descriptors) and must land in the same model successor; Prototype source priority enumerated by TLC; OnUpdateProcessor relay', '6 C19'),
    'C20': ('Transform.tla', 'TLA+ spec of Transform2D/3D setters over the dispatcher (stored value, per-call bag of notifications) with invariants StoredIsReduced / NotifiedValueIsReadBack / OnlyMatchingEvent / OncePerListener; every edge, all short paths and random walks replayed on the real classes', '6 C20'),
    'C08': ('Coroutines.tla', 'TLA+ spec of CoroutineProcessor with the code\'s own structures (deque with sentinel, wait heap on the shared resetting timer) and per-coroutine ghost clocks; TLC checks TimerInvariant, WakeExactlyOnTime, OneStepPerFrame, RelativeOrderKept for all start orders and dt sequences of the instance; replay runs scripted generators on the real processor with exactly representable dt', '6 C08'),
    'C09': ('Coroutines.tla', 'start / kill / restart / state / promise as actions, also issued from inside coroutine bodies; TLC invariants StateCoherent, NoDuplicates, StructuresAgree, ErrorsChangeNothing, ReleasedInTime; replay compares state (processor and promise), promise value, exceptions, execution log and whether the processor still references each generator', '6 C09'),
    'C13': ('Loop.tla', 'TLA+ spec of SimpleLoop / switch() / SwitchWorld over handles with cached world instances and per-instance gates and queues; every combination of target, clear flags and request site as Frame actions; TLC action properties OutOnceInLeft, InOnceInEntered, FrameAbandoned, LeftWorldMuted, ClearYieldsFresh; replay on the real loop with harness-owned processors, on_update listener and coroutine', '6 C13'),
    'C14': ('Loop.tla', 'clock readings as model inputs; TLC action properties FirstDtZero, DtIsDifference, LastIsReading, QuitReturnsNormally, OnQuitDeliveredInCurrent across switches, quits, errors and restarts; replay feeds the same integer readings through time_function and compares the dt seen by every site', '6 C14'),
    'C16': ('Populator.tla', 'the directory tree, rule list and options are inputs chosen by Init from enumerated families; one Call action per population computes the map the way the code does; TLC invariants compare it with the expectation computed from the statement; every scenario is materialised on disk and run through the real populator (listing order steered)', '6 C16'),
    'C11': ('Resources.tla', 'TLA+ spec of ResourceMap shaped like tree.py (maps, ChainMap layers, parent/key back-links) with a ghost abstract tree; TLC invariants PathEquivalence, DefaultIffKeyError, HandleXorMap, LatestWins, BackLinks, ClearDetaches over all insert/clear/layer histories of the pool; every edge, depth-3 paths and random walks replayed on real maps comparing every path and every back-link', '6 C11'),
    'C12': ('Resources.tla', 'handle cache with load counters as ghosts; invariants AtMostOneLoad, CachedTellsTruth, SameObject over every access path (call, map item, static attribute/item/get) interleaved with clears; replay with values None, 0, empty containers and an object with hostile __bool__/__eq__', '6 C12'),
    'C15': ('WorldLoad.tla', 'world descriptions (processors, entities, ids, args/kwargs with reference strings and near-misses) enumerated by Init; the loader pipeline as stage actions; invariants LoadedEqualsDescribed, ReturnedDisabled, OnEnable; every description written as a real JSON file and loaded through real handles at two tree depths and through the dict path', '6 C15'),
    'C17': ('Resources.tla', 'Snapshot action and accesses on it (attribute, item, get, setattr, delattr) with name classes incl. private-style, keyword and non-identifier names; invariants MirrorsMap, SnapshotSucceeds, MutationRaisesAndChangesNothing; replay on generated snapshots', '6 C17'),
    'C10': ('Dispatcher.tla', 'TLA+ spec with weakly held handlers, DropRef between calls and between two callbacks of one dispatch under every iteration order; replay with real weak references and gc', '6 C10'),
}

NOT_YET = {}


_B = '; executions recorded from the real classes (random histories and the repository\'s own tests) validated by TLC against %s'
TRACE = {'C01': _B % 'WorldTrace.tla', 'C02': _B % 'WorldTrace.tla', 'C05': _B % 'WorldTrace.tla', 'C07': _B % 'WorldTrace.tla',
         'C03': _B % 'DispatcherTrace.tla', 'C04': _B % 'DispatcherTrace.tla', 'C10': _B % 'DispatcherTrace.tla',
         'C08': _B % 'CoroutinesTrace.tla', 'C09': _B % 'CoroutinesTrace.tla',
         'C13': '; long behaviours from tlc -simulate on LoopSim.tla replayed as well',
         'C14': '; long behaviours from tlc -simulate on LoopSim.tla replayed as well'}

_G = '; the composed module Game.tla (SimpleLoop running real worlds with a sleeping coroutine, handles cleared and reloaded) model-checked and replayed as well'
for _p in ('C08', 'C13', 'C14'):
    TRACE[_p] += _G


def main():
    checks = []
    for pid, (spec, text, ref) in sorted(CHECKS.items()):
        checks.append({
            'property_id': pid,
            'quick_cmd': './check %s --tier quick' % pid,
            'thorough_cmd': './check %s --tier thorough' % pid,
            'evidence_file': 'evidence/%s.json' % pid,
            'replay_cmd_template': './check %s --replay {path}' % pid,
            'engine': 'tlc+replay',
            'level_claimed': {'category': LEVELS.get(pid, 'model_checking'), 'text': text, 'design_ref': 'DESIGN.md section ' + ref},
            'level_note': TRUSTED,
            'technique': 'TLA+ specification (%s) model-checked with TLC; specification behaviours replayed into the real classes (conformance)%s' % (
                spec, TRACE.get(pid, '')),
        })
    props = [json.loads(l)['id'] for l in open(os.path.join(VERIF, 'properties.jsonl'))]
    na = [{'property_id': p, 'reason': NOT_YET.get(p, 'check under construction in this session: specification module not yet bound to the code; no claim is made until it is')}
          for p in props if p not in CHECKS]
    m = {
        'version': 1,
        'setup_cmd': 'true',
        'hooks': {'guard': 'DESPER_VERIF', 'enable': 'none needed: no hook was added to desper (public API + harness-owned callbacks observe everything); the variable is reserved',
                  'baseline_off_cmd': 'cd /repo && /venv/bin/python -m pytest -ra -q -p no:cacheprovider --timeout=900 --continue-on-collection-errors',
                  'source_commits': [], 'add_only': True},
        'engines': [{'name': 'tlc+replay', 'path': 'check', 'serves_properties': sorted(CHECKS),
                     'kind_free_text': 'explicit TLA+ specifications under spec/, TLC 1.8.0 model checking, state-graph dump / simulation replayed into the real desper classes (harness/), trace validation of recorded executions'}],
        'checks': checks,
        'not_applicable': na,
        'notes': 'See DESIGN.md. ./check <id> [--tier quick|thorough]; exit 0 held / 1 VIOLATION / 2 machinery failure.',
    }
    with open(os.path.join(VERIF, 'MANIFEST.json'), 'w') as f:
        json.dump(m, f, indent=1)
    print('MANIFEST.json: %d checks, %d not_applicable' % (len(checks), len(na)))


LEVELS = {'C18': 'exploration'}

if __name__ == '__main__':
    main()

"""Shared plumbing of the checks: repository import, TLC helpers, result/evidence/verdict handling."""
import hashlib
import importlib
import json
import os
import shutil
import sys
import time

from . import tlc, graph as graphmod, tla

VERIF = os.path.dirname(os.path.dirname(os.path.abspath(__file__)))
REPO = os.environ.get('DESPER_REPO', '/repo')
EVIDENCE_DIR = os.environ.get('VERIF_EVIDENCE_DIR') or os.path.join(VERIF, 'evidence')
REPLAY_DIR = os.environ.get('VERIF_REPLAY_DIR') or os.path.join(VERIF, 'replays')
FINDINGS_FILE = os.path.join(VERIF, 'known_findings.json')


def import_desper():
    """Import desper from the repository's *current working tree* (no copy, no cache)."""
    if REPO not in sys.path:
        sys.path.insert(0, REPO)
    os.environ.setdefault('DESPER_VERIF', '1')
    mod = importlib.import_module('desper')
    src = os.path.realpath(os.path.dirname(mod.__file__))
    if not src.startswith(os.path.realpath(REPO)):
        raise MachineryError('desper imported from %s, not from %s' % (src, REPO))
    return mod


class ReplayDone(Exception):
    """--replay mode: the recorded history has been executed; skip the rest of the check."""


class MachineryError(Exception):
    """Exit code 2: the check itself is broken (never confused with a violation)."""


class Result:
    def __init__(self, prop, tier, seed, level='model_checking'):
        self.prop = prop
        self.tier = tier
        self.seed = seed
        self.level = level
        self.t0 = time.time()
        self.states = 0
        self.transitions = 0
        self.traces = 0
        self.samples = []
        self.violations = []        # (summary, replay-dict)
        self.known = {}             # signature -> count
        self.cov = {}
        self.assumptions = []
        self.tlc_runs = []
        self.scratch = tlc.scratch('verif-%s-' % prop)
        self.specdir = os.path.join(self.scratch, 'spec')
        shutil.copytree(os.path.join(VERIF, 'spec'), self.specdir)

    # -- TLC -------------------------------------------------------------------------------------
    def model_check_py(self, module, name, pyconsts, **kw):
        """Like model_check, but the constants are Python values (the single source of truth shared with the
        adapter): scalars go into the cfg, everything else into a generated module EXTENDS <module>."""
        gen = '%s_%s' % (module, name)
        defs, consts, ov = [], {}, {}
        for k, v in pyconsts.items():
            if k.startswith('_'):
                continue            # adapter-only setting, not a constant of the specification
            if isinstance(v, (bool, int)) :
                consts[k] = tla.to_tla(v)
            else:
                defs.append('K_%s == %s' % (k, tla.to_tla(v)))
                ov[k] = 'K_' + k
        with open(os.path.join(self.specdir, gen + '.tla'), 'w') as f:
            f.write('---- MODULE %s ----\nEXTENDS %s\n%s\n====\n' % (gen, module, '\n'.join(defs)))
        return self.model_check(gen, name, consts, overrides=ov, **kw)

    def model_check(self, module, name, constants, invariants=(), properties=(), constraints=(),
                    spec='Spec', overrides=None, dump=False, expect_violation=None, view=None,
                    action_constraints=(), timeout=1800, count=True, workers=None, deadlock=False):
        """Run TLC exhaustively. With expect_violation the run must report exactly that name
        (as-implemented switch runs: non-vacuity of the invariant)."""
        from . import replay as _rp
        if _rp.REPLAY is not None and _rp.REPLAY.get('done'):
            raise ReplayDone()
        cfg = os.path.join(self.scratch, '%s_%s.cfg' % (module, name))
        tlc.write_cfg(cfg, spec=spec, constants=constants, invariants=invariants, properties=properties,
                      constraints=constraints, overrides=overrides, view=view,
                      action_constraints=action_constraints, deadlock=deadlock)
        dot = os.path.join(self.scratch, '%s_%s.dot' % (module, name)) if dump else None
        r = tlc.run(module, cfg, self.scratch, dump=dot, timeout=timeout, workers=workers, module_dir=self.specdir)
        rec = {'module': module, 'config': name, 'constants': {k: str(v) for k, v in (constants or {}).items()},
               'invariants': list(invariants), 'properties': list(properties), 'constraints': list(constraints),
               'states_generated': r.states, 'distinct_states': r.distinct, 'depth': r.depth,
               'wall_s': round(r.wall, 1), 'result': 'ok' if r.ok else r.violated}
        self.tlc_runs.append(rec)
        if expect_violation is not None:
            rec['expected_violation'] = expect_violation
            if r.violated != expect_violation and not (isinstance(expect_violation, (list, tuple, set))
                                                        and r.violated in expect_violation):
                raise MachineryError('switch run %s/%s: expected TLC to report %s, got %s\n%s' % (
                    module, name, expect_violation, r.violated, r.out[-3000:]))
            return r, None
        if not r.ok:
            raise MachineryError('intended model %s/%s does not satisfy its own properties (%s) — '
                                 'specification bug\n%s' % (module, name, r.violated, r.out[-4000:]))
        if count:
            self.states += r.distinct
            self.transitions += r.states
        g = None
        if dump:
            g = graphmod.Graph.load_dot(dot)
            os.remove(dot)
            if len(g.states) != r.distinct:
                raise MachineryError('dump has %d states, TLC reports %d' % (len(g.states), r.distinct))
        return r, g

    def simulate_py(self, module, name, pyconsts, num, depth, spec='SSpec', invariants=(), properties=(), timeout=600,
                    parse=True, workers=1):
        """Random behaviours of a specification too large to dump (`tlc -simulate file=...,num=N -depth D`, invariants
        and action properties checked along the way).  `module` keeps the label of the last action, parameters
        included, in a variable `act` (TLC's behaviour files name the action only).  Returns (graph, paths): the union
        of the behaviours as a graph and each behaviour as an explicit path for replay.run_paths."""
        from . import replay as _rp
        if _rp.REPLAY is not None and _rp.REPLAY.get('done'):
            raise ReplayDone()
        gen = '%s_%s' % (module, name)
        defs, consts, ov = [], {}, {}
        for k, v in pyconsts.items():
            if k.startswith('_'):
                continue
            if isinstance(v, (bool, int)):
                consts[k] = tla.to_tla(v)
            else:
                defs.append('K_%s == %s' % (k, tla.to_tla(v)))
                ov[k] = 'K_' + k
        with open(os.path.join(self.specdir, gen + '.tla'), 'w') as f:
            f.write('---- MODULE %s ----\nEXTENDS %s\n%s\n====\n' % (gen, module, '\n'.join(defs)))
        cfg = os.path.join(self.scratch, '%s.cfg' % gen)
        tlc.write_cfg(cfg, spec=spec, constants=consts, invariants=invariants, properties=properties, overrides=ov)
        out = os.path.join(self.scratch, 'sim_' + gen)
        shutil.rmtree(out, ignore_errors=True)
        os.makedirs(out)
        r = tlc.run(gen, cfg, self.scratch, simulate=('file=%s/b,num=%d' % (out, num)) if parse else 'num=%d' % num, depth=depth,
                    seed=self.seed, workers=workers, timeout=timeout, module_dir=self.specdir)
        rec = {'module': gen, 'config': name, 'mode': 'simulate num=%d depth=%d seed=%d' % (num, depth, self.seed),
               'constants': {k: str(v) for k, v in consts.items()}, 'invariants': list(invariants), 'properties': list(properties),
               'states_generated': r.states, 'wall_s': round(r.wall, 1), 'result': 'ok' if r.ok else r.violated}
        self.tlc_runs.append(rec)
        if not r.ok:
            raise MachineryError('intended model %s/%s does not satisfy its own properties in simulation (%s) — '
                                 'specification bug\n%s' % (module, name, r.violated, r.out[-4000:]))
        self.transitions += r.states or 0
        if not parse:           # model-level exploration only: nothing to replay
            shutil.rmtree(out, ignore_errors=True)
            rec['behaviours'] = num
            return None, []
        g = graphmod.Graph()
        ids = {}
        paths = []

        def sid(st):
            if st not in ids:
                ids[st] = len(ids) + 1
                g.states[ids[st]] = st
                g.out[ids[st]] = []
            return ids[st]
        files = sorted(os.listdir(out), key=lambda n: [int(x) for x in n.split('_')[1:]])
        for fn in files:
            beh = graphmod.load_sim_file(os.path.join(out, fn))
            if not beh:
                continue
            cur = sid(beh[0][1])
            if cur not in g.init:
                g.init.append(cur)
            start, labels, targets = cur, [], []
            for _lab, st in beh[1:]:
                a = st['act']
                lab = (a[0], tuple(a[1:]))
                d = sid(st)
                if (lab[0], lab[1], d) not in g.out[cur]:
                    g.out[cur].append((lab[0], lab[1], d))
                labels.append(lab)
                targets.append(d)
                cur = d
            paths.append((start, labels, targets))
        shutil.rmtree(out, ignore_errors=True)
        g._bfs()
        self.states += len(g.states)
        rec['distinct_states_in_behaviours'] = len(g.states)
        rec['behaviours'] = len(paths)
        return g, paths

    # -- replay results --------------------------------------------------------------------------
    def absorb(self, stats, what, graph=None):
        self.traces += stats.paths
        c = self.cov.setdefault('replay', {})
        c[what] = {'behaviours': stats.paths, 'steps': stats.steps, 'abandoned_foreign_divergence': stats.abandoned,
                   'abandoned_facets': stats.abandoned_facets, 'distinct_edges_taken': len(stats.edges),
                   'per_action': dict(sorted(stats.actions.items()))}
        if graph is not None:
            c[what]['graph_edges'] = graph.n_edges()
        for k, v in stats.extra.items():
            c[what][k] = sorted(v) if isinstance(v, (set, frozenset)) else v
        for k, v in stats.known.items():
            self.known[k] = self.known.get(k, 0) + v
        for v in stats.violations:
            self.violation('%s: step %s %s facets=%s' % (what, v.get('failing_step'), v.get('action'),
                                                        v.get('facets') or v.get('harness_error', '')[-300:]), v)
        extra = stats.n_violations - len(stats.violations)
        if extra > 0:
            c[what]['further_violations_not_listed'] = extra

    def violation(self, summary, detail):
        self.violations.append((summary, detail))

    def sample(self, s):
        if len(self.samples) < 6:
            self.samples.append(s)

    # -- finish ----------------------------------------------------------------------------------
    def finish(self):
        os.makedirs(EVIDENCE_DIR, exist_ok=True)
        shutil.rmtree(self.scratch, ignore_errors=True)
        for sig, n in sorted(self.known.items()):
            print('KNOWN-FINDING: property=%s %s (seen %d times)' % (self.prop, sig, n))
        paths = []
        if self.violations:
            os.makedirs(REPLAY_DIR, exist_ok=True)
            for summary, detail in self.violations[:10]:
                blob = json.dumps({'property': self.prop, 'tier': self.tier, 'seed': self.seed,
                                   'summary': summary, 'detail': detail}, indent=1, default=str)
                h = hashlib.sha1(blob.encode()).hexdigest()[:10]
                p = os.path.join(REPLAY_DIR, '%s-%s.json' % (self.prop, h))
                with open(p, 'w') as f:
                    f.write(blob)
                paths.append((summary, p))
        cov = dict(self.cov)
        cov.update({
            'states': self.states, 'transitions': self.transitions,
            'traces_validated_against_impl': self.traces,
            'samples': self.samples or ['(no sample recorded)'],
            'tlc_runs': self.tlc_runs,
            'evaluations': self.traces, 'distinct_nontrivial': max(2, self.cov.get('distinct_behaviours', 0)) if self.traces else 0,
            'rule': self.cov.get('rule', 'behaviours of the TLA+ specification replayed on the real classes; '
                                         'distinct = distinct label sequences'),
        })
        ev = {'property_id': self.prop, 'tier': self.tier, 'seed': self.seed, 'level': self.level,
              'coverage': cov, 'assumptions': self.assumptions, 'wall_s': round(time.time() - self.t0, 1),
              'violations': len(self.violations)}
        with open(os.path.join(EVIDENCE_DIR, self.prop + getattr(self, 'evidence_suffix', '') + '.json'), 'w') as f:
            json.dump(ev, f, indent=1, default=str)
        for summary, p in paths:
            print('VIOLATION property=%s replay=%s  # %s' % (self.prop, p, summary[:300]))
        if self.violations:
            return 1
        print('OK property=%s tier=%s states=%d transitions=%d behaviours_on_impl=%d wall=%.1fs' % (
            self.prop, self.tier, self.states, self.transitions, self.traces, time.time() - self.t0))
        return 0


def load_findings():
    try:
        with open(FINDINGS_FILE) as f:
            return json.load(f)
    except FileNotFoundError:
        return {'findings': [], 'fixed': []}

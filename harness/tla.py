"""Parser for TLA+ values as printed by TLC (state dumps, simulation files, edge labels).

Python representation
  integer          -> int
  "string"         -> str
  TRUE / FALSE     -> bool
  model value id   -> str  (specs in this project use strings for ids, so no clash matters)
  {a, b}           -> frozenset
  <<a, b>>         -> tuple
  [f |-> v, ...]   -> FD (hashable dict) with str keys
  (k :> v @@ ...)  -> FD with arbitrary keys
  a..b             -> frozenset(range(a, b+1))

TLC prints a function whose domain is 1..n as a tuple and the empty function as <<>>; `fmap`
turns any of the three shapes into a plain dict so adapters need not care.
"""
import re


class FD(dict):
    """Hashable, immutable-by-convention dict (TLA+ function / record)."""
    __slots__ = ('_h',)

    def __hash__(self):
        try:
            return self._h
        except AttributeError:
            self._h = hash(frozenset(self.items()))
            return self._h

    def __repr__(self):
        return 'FD(' + dict.__repr__(self) + ')'


def fmap(v):
    """View a TLA+ function value (FD, tuple, empty tuple) as a dict."""
    if isinstance(v, dict):
        return v
    if isinstance(v, tuple):
        return {i + 1: x for i, x in enumerate(v)}
    raise TypeError('not a function value: %r' % (v,))


_TOKEN = re.compile(r'''
    \s+ |
    (?P<str>"(?:[^"\\]|\\.)*") |
    (?P<num>-?\d+) |
    (?P<op><<|>>|\|->|:>|@@|\.\.|[{}\[\](),]) |
    (?P<id>[A-Za-z_][A-Za-z0-9_!]*)
''', re.X)


def tokenize(s):
    out = []
    pos = 0
    n = len(s)
    while pos < n:
        m = _TOKEN.match(s, pos)
        if not m:
            raise ValueError('cannot tokenize at %d: %r' % (pos, s[pos:pos + 40]))
        pos = m.end()
        k = m.lastgroup
        if k is None:
            continue
        out.append((k, m.group(k)))
    return out


_UNESC = re.compile(r'\\(.)')


def _unescape(s):
    return _UNESC.sub(lambda m: {'n': '\n', 't': '\t'}.get(m.group(1), m.group(1)), s)


class _P:
    def __init__(self, toks):
        self.t = toks
        self.i = 0

    def peek(self):
        return self.t[self.i] if self.i < len(self.t) else (None, None)

    def next(self):
        tok = self.t[self.i]
        self.i += 1
        return tok

    def expect(self, v):
        k, x = self.next()
        if x != v:
            raise ValueError('expected %r got %r at token %d' % (v, x, self.i))

    def value(self):
        k, x = self.next()
        if k == 'num':
            v = int(x)
            if self.peek()[1] == '..':
                self.next()
                hi = self.value()
                return frozenset(range(v, hi + 1))
            return v
        if k == 'str':
            return _unescape(x[1:-1])
        if k == 'id':
            if x == 'TRUE':
                return True
            if x == 'FALSE':
                return False
            return x
        if x == '<<':
            items = self.seq('>>')
            return tuple(items)
        if x == '{':
            items = self.seq('}')
            return frozenset(items)
        if x == '[':
            d = FD()
            if self.peek()[1] == ']':
                self.next()
                return d
            while True:
                kk, name = self.next()
                if kk == 'str':
                    name = _unescape(name[1:-1])
                self.expect('|->')
                d[name] = self.value()
                k2, x2 = self.next()
                if x2 == ']':
                    return d
                if x2 != ',':
                    raise ValueError('bad record sep %r' % x2)
        if x == '(':
            d = FD()
            while True:
                key = self.value()
                self.expect(':>')
                d[key] = self.value()
                k2, x2 = self.next()
                if x2 == ')':
                    return d
                if x2 != '@@':
                    raise ValueError('bad function sep %r' % x2)
        raise ValueError('unexpected token %r' % (x,))

    def seq(self, close):
        items = []
        if self.peek()[1] == close:
            self.next()
            return items
        while True:
            items.append(self.value())
            k, x = self.next()
            if x == close:
                return items
            if x != ',':
                raise ValueError('bad separator %r (want , or %s)' % (x, close))


def parse_value(s):
    p = _P(tokenize(s))
    v = p.value()
    if p.i != len(p.t):
        raise ValueError('trailing tokens in %r' % s)
    return v


_CONJ = re.compile(r'(?:^|\n)\s*/\\ ([A-Za-z_][A-Za-z0-9_]*) = ')
_SINGLE = re.compile(r'^\s*([A-Za-z_][A-Za-z0-9_]*) = ')


def parse_state(text):
    """Parse '/\\ x = v\\n/\\ y = w' (or a single 'x = v') into an FD of variables."""
    ms = list(_CONJ.finditer(text))
    st = FD()
    if not ms:
        m = _SINGLE.match(text)
        if not m:
            raise ValueError('not a state: %r' % text[:80])
        st[m.group(1)] = parse_value(text[m.end():])
        return st
    for i, m in enumerate(ms):
        end = ms[i + 1].start() if i + 1 < len(ms) else len(text)
        st[m.group(1)] = parse_value(text[m.end():end])
    return st


_LABEL = re.compile(r'^([A-Za-z_][A-Za-z0-9_]*)(?:\((.*)\))?$', re.S)


def parse_label(label):
    """'Add(1,"A")' -> ('Add', (1, 'A'));  'Process' -> ('Process', ())."""
    m = _LABEL.match(label.strip())
    if not m:
        raise ValueError('bad action label %r' % label)
    name, args = m.group(1), m.group(2)
    if args is None or args.strip() == '':
        return name, ()
    return name, parse_value('<<' + args + '>>')


def to_json(v):
    """JSON-friendly rendering for evidence samples / replay files."""
    if isinstance(v, (frozenset, set)):
        return {'set': sorted((to_json(x) for x in v), key=repr)}
    if isinstance(v, tuple):
        return [to_json(x) for x in v]
    if isinstance(v, dict):
        return {str(k): to_json(x) for k, x in sorted(v.items(), key=lambda kv: repr(kv[0]))}
    return v


def to_tla(v):
    """Python value -> TLA+ expression text (used to emit cfg constants / trace modules)."""
    if isinstance(v, bool):
        return 'TRUE' if v else 'FALSE'
    if isinstance(v, int):
        return str(v)
    if isinstance(v, str):
        return '"' + v.replace('\\', '\\\\').replace('"', '\\"') + '"'
    if isinstance(v, (frozenset, set)):
        return '{' + ', '.join(sorted(to_tla(x) for x in v)) + '}'
    if isinstance(v, (tuple, list)):
        return '<<' + ', '.join(to_tla(x) for x in v) + '>>'
    if isinstance(v, dict):
        if not v:
            return '<<>>'
        return '(' + ' @@ '.join('%s :> %s' % (to_tla(k), to_tla(x)) for k, x in v.items()) + ')'
    raise TypeError(type(v))

"""pytest plugin (loaded with `-p harness.pytest_recorder`, tests are not edited): observes the repository's own
tests from outside and turns every test's use of a plain `desper.EventDispatcher` into a trace in the format of
record_dispatcher.py, so that TLC can validate what the suite *executes* (not only what it asserts) against
Dispatcher.tla (pipeline B).

Only public calls are wrapped (add_handler, remove_handler, dispatch, clear, the dispatch_enabled setter); callback
methods of handler classes are wrapped when an instance is first registered.  Calls made from inside callbacks are
not events of the trace: they are the *behaviour* of that handler (the header of the trace), which the specification
executes itself.  Anything the specification cannot express makes the recorder mark the test `unsupported` with a
reason - it is then listed in the evidence, never silently dropped and never reported as a violation.
"""
import functools
import gc
import json
import os
import weakref

OUT = os.environ.get('VERIF_TRACE_OUT')
HS = ['h%d' % i for i in range(1, 7)]
EVS = ['a', 'b', 'c']


class Rec:
    def __init__(self):
        self.reset(None)

    def reset(self, test):
        self.test = test
        self.disp = None            # weakref to the one dispatcher of this test
        self.handlers = {}          # id(obj) -> name
        self.refs = {}              # name -> weakref
        self.subs = {}
        self.beh = {}
        self.events_map = {}        # real event name -> model event
        self.events = []
        self.depth = 0
        self.cb_stack = []          # (handler name, model event) of callbacks running
        self.log = []
        self.eid = 0
        self.shadow = []            # ids of queued events (mirror of _event_queue)
        self.deliver_id = []        # stack of ids being delivered
        self.unsupported = None
        self.dropped = set()
        self.patched = set()

    def bad(self, why):
        if self.unsupported is None:
            self.unsupported = why

    def ev(self, name):
        if name not in self.events_map:
            if len(self.events_map) >= len(EVS):
                self.bad('more than %d event names' % len(EVS))
                return '?'
            self.events_map[name] = EVS[len(self.events_map)]
        return self.events_map[name]

    def hname(self, obj, create=True):
        k = id(obj)
        if k in self.handlers and self.refs[self.handlers[k]]() is obj:
            return self.handlers[k]
        if not create:
            return None
        if len(self.refs) >= len(HS):
            self.bad('more than %d handlers' % len(HS))
            return '?'
        n = HS[len(self.refs)]
        self.handlers[k] = n
        try:
            self.refs[n] = weakref.ref(obj)
        except TypeError:
            self.bad('handler not weak-referenceable')
            return '?'
        events = getattr(obj, '__events__', None)
        if not isinstance(events, dict):
            self.bad('handler without __events__')
            return '?'
        self.subs[n] = sorted(self.ev(e) for e in events)
        self.beh.setdefault(n, ['nop', '-'])
        self.patch_class(type(obj), events)
        return n


R = Rec()
_orig = {}


def _observe(d):
    import desper
    # handlers the test has not created (yet) count as alive, as in the specification's initial state
    alive = sorted(n for n in HS if n not in R.dropped)
    reg = sorted(n for n, r in R.refs.items() if r() is not None and _orig['is_handler'](d, r()))
    return {'enabled': d._dispatch_enabled, 'reg': reg, 'alive': alive, 'queue': list(R.shadow)}


def _sync_deaths(d):
    """Handlers that died since the last call (del + gc in the test): synthetic DropRef events."""
    for n, r in list(R.refs.items()):
        if n not in R.dropped and r() is None:
            R.dropped.add(n)
            obs = _observe(d)
            R.events.append(dict(op='DropRef', arg=n, ret='ok', log=[], **obs))


def _toplevel(op, arg, d, call):
    if R.disp is None:
        R.disp = weakref.ref(d)
    elif R.disp() is not d:
        R.bad('more than one dispatcher in one test')
    gc.collect()
    _sync_deaths(d)
    R.log = []
    ret = 'ok'
    R.depth += 1
    try:
        return call()
    except BaseException:
        ret = 'raised'
        raise
    finally:
        R.depth -= 1
        obs = _observe(d)
        R.events.append(dict(op=op, arg=arg, ret=ret, log=[list(x) for x in R.log], **obs))


def _nested(kind, target):
    """A public call made from inside a callback: it is the behaviour of the handler whose callback is running."""
    if not R.cb_stack:
        return          # called by the dispatcher itself (release loop)
    h, e = R.cb_stack[-1]
    if e != 'a':
        R.bad('callback behaviour on an event other than the first one')
    b = [kind, target]
    if R.beh.get(h, ['nop', '-']) not in (['nop', '-'], b):
        R.bad('handler with two different behaviours')
    R.beh[h] = b


def install():
    import desper
    ED = desper.EventDispatcher
    _orig.update(add_handler=ED.add_handler, remove_handler=ED.remove_handler, dispatch=ED.dispatch, clear=ED.clear,
                 is_handler=ED.is_handler, setter=ED.dispatch_enabled.fset, getter=ED.dispatch_enabled.fget)

    def plain(self):
        return type(self) is ED and R.test is not None

    def add_handler(self, handler):
        if not plain(self) or not hasattr(handler, '__events__'):
            return _orig['add_handler'](self, handler)
        n = R.hname(handler)
        if R.depth:
            _nested('add', n)
            return _orig['add_handler'](self, handler)
        return _toplevel('AddHandler', n, self, lambda: _orig['add_handler'](self, handler))

    def remove_handler(self, handler):
        if not plain(self) or not hasattr(handler, '__events__'):
            return _orig['remove_handler'](self, handler)
        n = R.hname(handler)
        if R.depth:
            _nested('remove', n)
            return _orig['remove_handler'](self, handler)
        return _toplevel('RemoveHandler', n, self, lambda: _orig['remove_handler'](self, handler))

    def dispatch(self, event_name, *args, **kwargs):
        if not plain(self):
            return _orig['dispatch'](self, event_name, *args, **kwargs)
        e = R.ev(event_name)
        releasing = bool(R.deliver_id) and R.deliver_id[-1] == 'release'
        if releasing:
            eid = R.shadow.pop(0) if R.shadow else -1
        else:
            R.eid += 1
            eid = R.eid
        known = event_name in self._events

        def go():
            if known and not self._dispatch_enabled:
                R.shadow.append(eid)
            R.deliver_id.append(eid)
            try:
                return _orig['dispatch'](self, event_name, *args, **kwargs)
            finally:
                R.deliver_id.pop()
        if R.depth:
            if not releasing:
                _nested('disp', e)
            return go()
        return _toplevel('Dispatch', e, self, go)

    def clear(self):
        if not plain(self):
            return _orig['clear'](self)
        if R.depth:
            R.bad('clear() from inside a callback')
            return _orig['clear'](self)

        def go():
            R.shadow.clear()
            return _orig['clear'](self)
        return _toplevel('Clear', '-', self, go)

    def setter(self, value):
        if not plain(self):
            return _orig['setter'](self, value)

        def go():
            R.deliver_id.append('release')
            try:
                return _orig['setter'](self, value)
            finally:
                R.deliver_id.pop()
        if R.depth:
            _nested('enable' if value else 'disable', '-')
            return go()
        return _toplevel('SetEnabled', bool(value), self, go)

    ED.add_handler, ED.remove_handler, ED.dispatch, ED.clear = add_handler, remove_handler, dispatch, clear
    ED.dispatch_enabled = property(_orig['getter'], setter)

    def patch_class(cls, events):
        for ev_name, meth in events.items():
            for k in cls.__mro__:
                if meth in k.__dict__ and (k, meth) not in R.patched and callable(k.__dict__[meth]):
                    R.patched.add((k, meth))
                    f = k.__dict__[meth]
                    if getattr(f, '_verif_wrapped', False):
                        break

                    def make(f, ev_name):
                        @functools.wraps(f)
                        def wrapper(self, *a, **kw):
                            d = R.disp() if R.disp else None
                            if R.test is None or d is None or not R.deliver_id:
                                return f(self, *a, **kw)
                            who = 'None' if self is None else (R.hname(self, create=False) or '?')
                            ids = [x for x in R.deliver_id if x != 'release']
                            e = R.events_map.get(ev_name, '?')
                            R.log.append((ids[-1] if ids else -1, who, e))
                            R.cb_stack.append((who, e))
                            R.depth += 1
                            try:
                                return f(self, *a, **kw)
                            finally:
                                R.depth -= 1
                                R.cb_stack.pop()
                        wrapper._verif_wrapped = True
                        return wrapper
                    setattr(k, meth, make(f, ev_name))
                    break

    Rec.patch_class = staticmethod(patch_class)


_RESULTS = []


def pytest_configure(config):
    if OUT:
        install()


def pytest_runtest_setup(item):
    if OUT:
        R.reset(item.nodeid)


def pytest_runtest_teardown(item, nextitem):
    if OUT and R.test is not None:
        if R.events or R.unsupported:
            hdr = {'subs': {h: R.subs.get(h, []) for h in HS}, 'beh': {h: R.beh.get(h, ['nop', '-']) for h in HS}, 'ids': False}
            _RESULTS.append({'test': R.test, 'unsupported': R.unsupported, 'header': hdr, 'events': R.events})
        R.reset(None)


def pytest_sessionfinish(session, exitstatus):
    if OUT:
        with open(OUT, 'w') as f:
            json.dump(_RESULTS, f)


# =====================================================================================================
# World recorder: the repository's TestWorld tests -> traces for WorldTrace.tla (one constant set per test)

OUTW = os.environ.get('VERIF_TRACE_OUT_WORLD')


class WRec:
    def __init__(self):
        self.reset(None)

    def reset(self, test):
        self.test = test
        self.world = None
        self.unsupported = None
        self.depth = 0
        self.events = []
        self.log = []
        self.comps = {}        # id(obj) -> name
        self.cobj = {}         # name -> obj (strong: the test's objects live as long as the test anyway)
        self.procs = {}
        self.pobj = {}
        self.types = {}        # class -> name   (component classes)
        self.ptypes = {}
        self.ents = {}         # real id -> model int
        self.prios = set()
        self.other_worlds = 0
        self.in_user = 0
        self.dts = set()
        self.dtmap = []        # dt is a label in World.tla (handed to the processors unchanged): any value, numbered as met
        self.patched = set()

    def bad(self, why):
        if self.unsupported is None:
            self.unsupported = why

    def ent(self, e):
        if isinstance(e, int) and not isinstance(e, bool) and 0 < e < 100:
            self.ents.setdefault(e, e)
            return e
        if e not in self.ents:
            self.ents[e] = 100 + len([v for v in self.ents.values() if v >= 100]) + 1
        return self.ents[e]

    def dt(self, v):
        if isinstance(v, int) and not isinstance(v, bool) and 0 <= v < 1000:
            return v
        for i, x in enumerate(self.dtmap):
            if x is v or (type(x) is type(v) and x == v):
                return 1000 + i
        self.dtmap.append(v)
        return 1000 + len(self.dtmap) - 1

    def tname(self, cls, table):
        if cls not in table:
            n = cls.__name__
            while n in table.values():
                n += '_'
            table[cls] = n
        return table[cls]

    def comp(self, obj):
        k = id(obj)
        if k in self.comps and self.cobj[self.comps[k]] is obj:
            return self.comps[k]
        n = 'c%d' % (len(self.cobj) + 1)
        self.comps[k] = n
        self.cobj[n] = obj
        self.tname(type(obj), self.types)
        ev = getattr(obj, '__events__', None)
        if isinstance(ev, dict):
            self.patch(type(obj), ev, False)
        return n

    def proc(self, obj):
        k = id(obj)
        if k in self.procs and self.pobj[self.procs[k]] is obj:
            return self.procs[k]
        n = 'p%d' % (len(self.pobj) + 1)
        self.procs[k] = n
        self.pobj[n] = obj
        self.tname(type(obj), self.ptypes)
        ev = getattr(obj, '__events__', None)
        self.patch(type(obj), ev if isinstance(ev, dict) else {}, True)
        return n

    def patch(self, cls, events, is_proc):
        todo = [(e, m) for e, m in events.items() if e in ('on_add', 'on_remove')]
        if is_proc:
            todo.append(('process', 'process'))
        for ev_name, meth in todo:
            for k in cls.__mro__:
                if meth in k.__dict__ and callable(k.__dict__[meth]):
                    f = k.__dict__[meth]
                    if (k, meth) in self.patched or getattr(f, '_verif_w', None):
                        # one function may serve several events only if it is the same event
                        if getattr(f, '_verif_w', ev_name) != ev_name:
                            self.bad('one method mapped to two lifecycle events')
                        break
                    self.patched.add((k, meth))

                    def make(f, ev_name):
                        @functools.wraps(f)
                        def wrapper(self_, *a, **kw):
                            if W.test is not None and W.world is not None and W.depth > 0:
                                if ev_name == 'process':
                                    dt = a[0] if a else kw.get('dt', 1)
                                    W.log.append(['process', W.procs.get(id(self_), '?'), W.dt(dt)])
                                elif id(self_) in W.procs and W.pobj[W.procs[id(self_)]] is self_:
                                    W.log.append([ev_name, W.procs[id(self_)], -1])
                                elif len(a) > 1 and isinstance(a[1], type(W.world)) and a[1] is not W.world:
                                    pass        # lifecycle callback of a component of another World
                                else:
                                    ent = W.ent(a[0]) if a else -1
                                    ok = len(a) > 1 and a[1] is W.world
                                    W.log.append([ev_name, W.comps.get(id(self_), '?'), ent] + ([] if ok else ['WRONGWORLD']))
                            W.in_user += 1          # the test's own code runs: calls it makes are its behaviour
                            try:
                                return f(self_, *a, **kw)
                            except BaseException:
                                if ev_name == 'process':
                                    W.proc_raised = W.procs.get(id(self_), '?')     # a processor body raised (Quit, SwitchWorld, ...)
                                raise
                            finally:
                                W.in_user -= 1
                        wrapper._verif_w = ev_name
                        return wrapper
                    setattr(k, meth, make(f, ev_name))
                    break


W = WRec()
_worig = {}


def _wobserve(w):
    """Observation through the public API only (private attributes are used for the queue length alone, optional)."""
    all_e = sorted(set(W.ents.values()))
    comps = {}
    for me in all_e:
        cs = w.get_components(_real(me))
        if cs:
            comps[me] = sorted(W.comp(c) for c in cs)
    is_h = sorted([n for n, o in W.cobj.items() if hasattr(o, '__events__') and w.is_handler(o)] +
                  [n for n, o in W.pobj.items() if hasattr(o, '__events__') and w.is_handler(o)])
    try:
        qlen = len(w._event_queue)
    except Exception:
        qlen = -1
    return {'comps': [[e, comps.get(e, [])] for e in all_e],
            'exists': [[e, bool(w.entity_exists(_real(e)))] for e in all_e],
            'entities': sorted(W.ent(e) for e in w.entities),
            'is_handler': is_h, 'enabled': w.dispatch_enabled,
            'processors': [W.proc(p) for p in w.processors],
            'pprio': [[n, o.priority] for n, o in sorted(W.pobj.items())],
            'qlen': qlen}


def _real(me):
    for r, m in W.ents.items():
        if m == me:
            return r
    return me


def _wcall(op, a1, a2, a3, w, call, ret_of=None):
    if W.world is None:
        W.world = w
    elif W.world is not w:
        W.other_worlds += 1         # the trace follows the first World of the test; others are not its business
        return call()
    if W.depth:
        # a call made by a callback or a processor while a recorded call is running is behaviour of the test's own code:
        # World.tla has families for some of it (killers, schedulers, ...), the trace specification cannot tell which
        if W.in_user:
            W.bad('re-entrant %s from inside a callback or processor (behaviour of the test\'s own code, not a recorded action)' % op)
        W.depth += 1
        try:
            return call()
        finally:
            W.depth -= 1
    W.log = []
    W.proc_raised = None
    ret = ['ok', 0, '-']
    W.depth += 1
    try:
        r = call()
        if ret_of:
            ret = ret_of(r)
        return r
    except BaseException as ex:
        ret = [type(ex).__name__, 0, '-']
        raise
    finally:
        W.depth -= 1
        if (op == 'Process' and ret[0] != 'ok' and W.proc_raised is not None and W.log
                and W.log[-1][:2] == ['process', W.proc_raised]):
            # the exception came out of a processor body: World.tla's ProcessProcFault(dt, p)
            op, a2, ret = 'ProcessProcFault', W.proc_raised, ['raised', 0, '-']
        ev = {'op': op, 'a1': a1, 'a2': a2, 'a3': a3, 'ret': ret, 'log': [list(x) for x in W.log]}
        try:
            ev.update(_wobserve(w))
        except Exception as ex:       # noqa
            W.bad('observation failed: %r' % (ex,))
        W.events.append(ev)


def install_world():
    import desper
    Wd = desper.World
    ED = desper.EventDispatcher
    for m in ('create_entity', 'add_component', 'remove_component', 'delete_entity', 'add_processor', 'remove_processor',
              'process', 'clear', 'dispatch'):
        _worig[m] = getattr(Wd, m)
    cur_setter = ED.dispatch_enabled.fset
    cur_getter = ED.dispatch_enabled.fget

    def on(self):
        return W.test is not None and type(self) is Wd

    def create_entity(self, *components, entity_id=None):
        if not on(self):
            return _worig['create_entity'](self, *components, entity_id=entity_id)
        cs = [W.comp(c) for c in components]
        a1 = -1 if entity_id is None else W.ent(entity_id)
        return _wcall('CreateEntity', a1, cs, '-', self, lambda: _worig['create_entity'](self, *components, entity_id=entity_id),
                      lambda r: ['id', W.ent(r), '-'])

    def add_component(self, entity, component):
        if not on(self):
            return _worig['add_component'](self, entity, component)
        return _wcall('AddComponent', W.ent(entity), W.comp(component), '-', self, lambda: _worig['add_component'](self, entity, component))

    def remove_component(self, entity, component_type):
        if not on(self):
            return _worig['remove_component'](self, entity, component_type)
        return _wcall('RemoveComponent', W.ent(entity), W.tname(component_type, W.types), '-', self,
                      lambda: _worig['remove_component'](self, entity, component_type),
                      lambda r: ['none', 0, '-'] if r is None else ['comp', 0, W.comp(r)])

    def delete_entity(self, entity, immediate=False):
        if not on(self):
            return _worig['delete_entity'](self, entity, immediate)
        return _wcall('DeleteImmediate' if immediate else 'DeleteDeferred', W.ent(entity), '-', '-', self,
                      lambda: _worig['delete_entity'](self, entity, immediate))

    def add_processor(self, processor, priority=None):
        if not on(self):
            return _worig['add_processor'](self, processor, priority)
        if priority is not None:
            W.prios.add(priority)
        return _wcall('AddProcessor', W.proc(processor), 999 if priority is None else priority, '-', self,
                      lambda: _worig['add_processor'](self, processor, priority))

    def remove_processor(self, processor_type):
        if not on(self):
            return _worig['remove_processor'](self, processor_type)
        return _wcall('RemoveProcessor', W.tname(processor_type, W.ptypes), '-', '-', self,
                      lambda: _worig['remove_processor'](self, processor_type),
                      lambda r: ['none', 0, '-'] if r is None else ['proc', 0, W.proc(r)])

    def process(self, dt=1):
        if not on(self):
            return _worig['process'](self, dt)
        W.dts.add(W.dt(dt))
        return _wcall('Process', W.dt(dt), '-', '-', self, lambda: _worig['process'](self, dt))

    def clear(self):
        if not on(self):
            return _worig['clear'](self)
        return _wcall('Clear', '-', '-', '-', self, lambda: _worig['clear'](self))

    def dispatch(self, event_name, *args, **kwargs):
        if on(self) and W.depth == 0 and (W.world is None or self is W.world) and event_name not in ('on_single_dispatch',):
            W.bad('the test dispatches its own event %r on the world (not an action of World.tla)' % event_name)
        return _worig['dispatch'](self, event_name, *args, **kwargs)

    def setter(self, value):
        if not on(self):
            return cur_setter(self, value)
        return _wcall('SetEnabled', bool(value), '-', '-', self, lambda: cur_setter(self, value))

    Wd.create_entity, Wd.add_component, Wd.remove_component, Wd.delete_entity = create_entity, add_component, remove_component, delete_entity
    Wd.add_processor, Wd.remove_processor, Wd.process, Wd.clear, Wd.dispatch = add_processor, remove_processor, process, clear, dispatch
    ED.dispatch_enabled = property(cur_getter, setter)


_WRESULTS = []


def _constants():
    """The constants of World.tla for this test, read off the objects the test used."""
    import desper

    def hier(table, stop):
        names = dict(table)
        for cls in list(table):
            for b in cls.__mro__[1:]:
                if b in stop:
                    break
                if b not in names:
                    n = b.__name__
                    while n in names.values():
                        n += '_'
                    names[b] = n
        bases = {}
        for cls, n in names.items():
            bases[n] = sorted(names[b] for b in cls.__bases__ if b in names)
        return names, bases

    tn, tb = hier(W.types, (object,))
    pn, pb = hier(W.ptypes, (desper.Processor, object))
    W.types.update(tn)
    W.ptypes.update(pn)

    def decl(o):
        ev = getattr(o, '__events__', None)
        if not isinstance(ev, dict):
            return []
        d = sorted(e for e in ev if e in ('on_add', 'on_remove'))
        # any other event a handler maps makes it a registered listener: "probe" stands for "some other event"
        return d + (['probe'] if (set(ev) - {'on_add', 'on_remove'}) or not d else [])
    has_other = any(set(getattr(o, '__events__', {}) or {}) - {'on_add', 'on_remove'} for o in list(W.cobj.values()) + list(W.pobj.values()))
    K = {
        'Ids': sorted(set(W.ents.values()) | {1}), 'MaxAuto': max([v for v in W.ents.values() if v < 100] + [1]) + 3,
        'Types': sorted(tn.values()) or ['T0'], 'Bases': tb or {'T0': []},
        'Comps': sorted(W.cobj), 'TypeOf': {n: tn[type(o)] for n, o in W.cobj.items()}, 'Decl': {n: decl(o) for n, o in W.cobj.items()},
        'Procs': sorted(W.pobj), 'PTypes': sorted(pn.values()), 'PBases': pb,
        'PTypeOf': {n: pn[type(o)] for n, o in W.pobj.items()},
        'PDefault': {n: getattr(cls, 'priority', 0) for cls, n in pn.items()},
        'PDecl': {n: decl(o) for n, o in W.pobj.items()},
        'Prios': sorted(W.prios), 'Dts': sorted(W.dts) or [1],
        # handlers of other events are registered like any handler; the model tells them apart only by the
        # lifecycle callbacks they declare, "probe" stands for "some other event"
        'handlers_of_other_events': has_other,
    }
    return K


def _hook(fn):
    try:
        import pytest
        return pytest.hookimpl(tryfirst=True)(fn)
    except Exception:
        return fn


@_hook
def pytest_runtest_call(item):
    pass


_prev_configure = pytest_configure
_prev_setup = pytest_runtest_setup
_prev_teardown = pytest_runtest_teardown
_prev_finish = pytest_sessionfinish


def pytest_configure(config):       # noqa: redefinition extends the dispatcher recorder's hook
    _prev_configure(config)
    if OUTW:
        install_world()


@_hook
def pytest_runtest_setup(item):     # noqa
    _prev_setup(item)
    if OUTW:
        W.reset(item.nodeid)


def pytest_runtest_teardown(item, nextitem):    # noqa
    _prev_teardown(item, nextitem)
    if OUTW and W.test is not None:
        if W.events or W.unsupported:
            try:
                K = _constants()
            except Exception as ex:     # noqa
                K = None
                W.bad('constants: %r' % (ex,))
            _WRESULTS.append({'test': W.test, 'unsupported': W.unsupported, 'constants': K, 'events': W.events})
        W.reset(None)


def pytest_sessionfinish(session, exitstatus):  # noqa
    _prev_finish(session, exitstatus)
    if OUTW:
        with open(OUTW, 'w') as f:
            json.dump(_WRESULTS, f, default=str)

"""pytest plugin (loaded with `-p harness.pytest_recorder`, tests are not edited): observes the repository's own
tests from outside and turns every test's use of a plain `desper.EventDispatcher` into a trace in the format of
record_dispatcher.py, so that TLC can validate what the suite *executes* (not only what it asserts) against
Dispatcher.tla (pipeline B).

Only public calls are wrapped (add_handler, remove_handler, dispatch, clear, the dispatch_enabled setter); callback
methods of handler classes are wrapped when an instance is first registered.  Calls made from inside callbacks are
not events of the trace: they are the *behaviour* of that handler (the header of the trace), which the specification
executes itself.  Anything the specification cannot express makes the recorder mark the test `unsupported` with a
reason - it is then listed in the evidence, never silently dropped and never reported as a violation.
"""
import functools
import gc
import json
import os
import weakref

OUT = os.environ.get('VERIF_TRACE_OUT')
HS = ['h%d' % i for i in range(1, 7)]
EVS = ['a', 'b', 'c']


class Rec:
    def __init__(self):
        self.reset(None)

    def reset(self, test):
        self.test = test
        self.disp = None            # weakref to the one dispatcher of this test
        self.handlers = {}          # id(obj) -> name
        self.refs = {}              # name -> weakref
        self.subs = {}
        self.beh = {}
        self.events_map = {}        # real event name -> model event
        self.events = []
        self.depth = 0
        self.cb_stack = []          # (handler name, model event) of callbacks running
        self.log = []
        self.eid = 0
        self.shadow = []            # ids of queued events (mirror of _event_queue)
        self.deliver_id = []        # stack of ids being delivered
        self.unsupported = None
        self.dropped = set()
        self.patched = set()

    def bad(self, why):
        if self.unsupported is None:
            self.unsupported = why

    def ev(self, name):
        if name not in self.events_map:
            if len(self.events_map) >= len(EVS):
                self.bad('more than %d event names' % len(EVS))
                return '?'
            self.events_map[name] = EVS[len(self.events_map)]
        return self.events_map[name]

    def hname(self, obj, create=True):
        k = id(obj)
        if k in self.handlers and self.refs[self.handlers[k]]() is obj:
            return self.handlers[k]
        if not create:
            return None
        if len(self.refs) >= len(HS):
            self.bad('more than %d handlers' % len(HS))
            return '?'
        n = HS[len(self.refs)]
        self.handlers[k] = n
        try:
            self.refs[n] = weakref.ref(obj)
        except TypeError:
            self.bad('handler not weak-referenceable')
            return '?'
        events = getattr(obj, '__events__', None)
        if not isinstance(events, dict):
            self.bad('handler without __events__')
            return '?'
        self.subs[n] = sorted(self.ev(e) for e in events)
        self.beh.setdefault(n, ['nop', '-'])
        self.patch_class(type(obj), events)
        return n


R = Rec()
_orig = {}


def _observe(d):
    import desper
    # handlers the test has not created (yet) count as alive, as in the specification's initial state
    alive = sorted(n for n in HS if n not in R.dropped)
    reg = sorted(n for n, r in R.refs.items() if r() is not None and _orig['is_handler'](d, r()))
    return {'enabled': d._dispatch_enabled, 'reg': reg, 'alive': alive, 'queue': list(R.shadow)}


def _sync_deaths(d):
    """Handlers that died since the last call (del + gc in the test): synthetic DropRef events."""
    for n, r in list(R.refs.items()):
        if n not in R.dropped and r() is None:
            R.dropped.add(n)
            obs = _observe(d)
            R.events.append(dict(op='DropRef', arg=n, ret='ok', log=[], **obs))


def _toplevel(op, arg, d, call):
    if R.disp is None:
        R.disp = weakref.ref(d)
    elif R.disp() is not d:
        R.bad('more than one dispatcher in one test')
    gc.collect()
    _sync_deaths(d)
    R.log = []
    ret = 'ok'
    R.depth += 1
    try:
        return call()
    except BaseException:
        ret = 'raised'
        raise
    finally:
        R.depth -= 1
        obs = _observe(d)
        R.events.append(dict(op=op, arg=arg, ret=ret, log=[list(x) for x in R.log], **obs))


def _nested(kind, target):
    """A public call made from inside a callback: it is the behaviour of the handler whose callback is running."""
    if not R.cb_stack:
        return          # called by the dispatcher itself (release loop)
    h, e = R.cb_stack[-1]
    if e != 'a':
        R.bad('callback behaviour on an event other than the first one')
    b = [kind, target]
    if R.beh.get(h, ['nop', '-']) not in (['nop', '-'], b):
        R.bad('handler with two different behaviours')
    R.beh[h] = b


def install():
    import desper
    ED = desper.EventDispatcher
    _orig.update(add_handler=ED.add_handler, remove_handler=ED.remove_handler, dispatch=ED.dispatch, clear=ED.clear,
                 is_handler=ED.is_handler, setter=ED.dispatch_enabled.fset, getter=ED.dispatch_enabled.fget)

    def plain(self):
        return type(self) is ED and R.test is not None

    def add_handler(self, handler):
        if not plain(self) or not hasattr(handler, '__events__'):
            return _orig['add_handler'](self, handler)
        n = R.hname(handler)
        if R.depth:
            _nested('add', n)
            return _orig['add_handler'](self, handler)
        return _toplevel('AddHandler', n, self, lambda: _orig['add_handler'](self, handler))

    def remove_handler(self, handler):
        if not plain(self) or not hasattr(handler, '__events__'):
            return _orig['remove_handler'](self, handler)
        n = R.hname(handler)
        if R.depth:
            _nested('remove', n)
            return _orig['remove_handler'](self, handler)
        return _toplevel('RemoveHandler', n, self, lambda: _orig['remove_handler'](self, handler))

    def dispatch(self, event_name, *args, **kwargs):
        if not plain(self):
            return _orig['dispatch'](self, event_name, *args, **kwargs)
        e = R.ev(event_name)
        releasing = bool(R.deliver_id) and R.deliver_id[-1] == 'release'
        if releasing:
            eid = R.shadow.pop(0) if R.shadow else -1
        else:
            R.eid += 1
            eid = R.eid
        known = event_name in self._events

        def go():
            if known and not self._dispatch_enabled:
                R.shadow.append(eid)
            R.deliver_id.append(eid)
            try:
                return _orig['dispatch'](self, event_name, *args, **kwargs)
            finally:
                R.deliver_id.pop()
        if R.depth:
            if not releasing:
                _nested('disp', e)
            return go()
        return _toplevel('Dispatch', e, self, go)

    def clear(self):
        if not plain(self):
            return _orig['clear'](self)
        if R.depth:
            R.bad('clear() from inside a callback')
            return _orig['clear'](self)

        def go():
            R.shadow.clear()
            return _orig['clear'](self)
        return _toplevel('Clear', '-', self, go)

    def setter(self, value):
        if not plain(self):
            return _orig['setter'](self, value)

        def go():
            R.deliver_id.append('release')
            try:
                return _orig['setter'](self, value)
            finally:
                R.deliver_id.pop()
        if R.depth:
            _nested('enable' if value else 'disable', '-')
            return go()
        return _toplevel('SetEnabled', bool(value), self, go)

    ED.add_handler, ED.remove_handler, ED.dispatch, ED.clear = add_handler, remove_handler, dispatch, clear
    ED.dispatch_enabled = property(_orig['getter'], setter)

    def patch_class(cls, events):
        for ev_name, meth in events.items():
            for k in cls.__mro__:
                if meth in k.__dict__ and (k, meth) not in R.patched and callable(k.__dict__[meth]):
                    R.patched.add((k, meth))
                    f = k.__dict__[meth]
                    if getattr(f, '_verif_wrapped', False):
                        break

                    def make(f, ev_name):
                        @functools.wraps(f)
                        def wrapper(self, *a, **kw):
                            d = R.disp() if R.disp else None
                            if R.test is None or d is None or not R.deliver_id:
                                return f(self, *a, **kw)
                            who = 'None' if self is None else (R.hname(self, create=False) or '?')
                            ids = [x for x in R.deliver_id if x != 'release']
                            e = R.events_map.get(ev_name, '?')
                            R.log.append((ids[-1] if ids else -1, who, e))
                            R.cb_stack.append((who, e))
                            R.depth += 1
                            try:
                                return f(self, *a, **kw)
                            finally:
                                R.depth -= 1
                                R.cb_stack.pop()
                        wrapper._verif_wrapped = True
                        return wrapper
                    setattr(k, meth, make(f, ev_name))
                    break

    Rec.patch_class = staticmethod(patch_class)


_RESULTS = []


def pytest_configure(config):
    if OUT:
        install()


def pytest_runtest_setup(item):
    if OUT:
        R.reset(item.nodeid)


def pytest_runtest_teardown(item, nextitem):
    if OUT and R.test is not None:
        if R.events or R.unsupported:
            hdr = {'subs': {h: R.subs.get(h, []) for h in HS}, 'beh': {h: R.beh.get(h, ['nop', '-']) for h in HS}}
            _RESULTS.append({'test': R.test, 'unsupported': R.unsupported, 'header': hdr, 'events': R.events})
        R.reset(None)


def pytest_sessionfinish(session, exitstatus):
    if OUT:
        with open(OUT, 'w') as f:
            json.dump(_RESULTS, f)

"""Randomized driver recording executions of the real desper.World as JSON traces (pipeline B)."""
import random

from .adapters.world import WorldAdapter
from .tla import FD
from .replay import SKIP


def shadow_queue(ad, pending, op, args, obs):
    """Postponed callbacks after the call, read from the real world's queue (white box: used only to choose which
    postponed callback to make raise; the verdict never depends on it)."""
    from .adapters.world import modelid
    w = ad.env.w
    out = []
    try:
        q = list(w._event_queue)
    except Exception:
        return []
    n_old = len(pending) if op not in ('SetEnabled', 'SetEnabledFault', 'Clear') else 0
    old = pending[len(pending) - len(q):] if op in ('SetEnabledFault',) else pending
    for i, (name, a, _kw) in enumerate(q):
        if name == 'on_single_dispatch':
            cb, who = a[0], getattr(a[1], 'name', '?')
            ent = modelid(a[2]) if len(a) > 2 else -1
        else:
            cb, who, ent = name, '-', 0
        if op == 'SetEnabledFault':
            first = old[i][3] if i < len(old) else True
        elif i < n_old:
            first = pending[i][3]
        else:
            first = (i == n_old)
        out.append((cb, who, ent, first))
    return out


def record(desper, K, seed, n_traces, n_calls):
    rnd = random.Random(seed)
    ad = WorldAdapter(desper, K)
    ad.allow_quiet = False      # a recording observes every step
    acts = K['Acts']
    ids = sorted(K['Ids'])
    comps_all = sorted(K['Comps'])
    types = sorted(K['Types'])
    procs_all = sorted(K['Procs'])
    ptypes = sorted(K['PTypes'])
    prios = sorted(K['Prios']) + [999]
    traces = []
    for _t in range(n_traces):
        ad.reset(None)
        try:        # the ghost-mark family needs to see the pending marks; without that view it is not generated
            blind = not isinstance(ad.env.w._dead_entities, set)
        except Exception:
            blind = True
        attached = {}        # comp -> entity
        rows = {}            # entity -> set(comps)
        dead = set()
        ghosts = set()
        plist = []
        enabled = True
        qlen = 0
        auto_next = 1
        pending = []         # shadow of the postponed callbacks: (cb, who, ent, first-of-its-operation)
        events = []
        for _k in range(n_calls):
            free = [c for c in comps_all if c not in attached]
            cands = []
            if 'create' in acts and free and (enabled or qlen + 3 <= K['MaxQ']):
                cs = [rnd.choice(free)]
                if 'create2' in acts and rnd.random() < 0.3:
                    more = [c for c in free if K['TypeOf'][c] != K['TypeOf'][cs[0]]]
                    if more:
                        cs.append(rnd.choice(more))
                auto = rnd.random() < 0.5 and auto_next <= K['MaxAuto'] - 3
                cands += [('CreateEntity', (-1 if auto else rnd.choice(ids), tuple(cs)))] * 3
            if 'add' in acts and free and (enabled or qlen + 2 <= K['MaxQ']):
                cands += [('AddComponent', (rnd.choice(ids), rnd.choice(free)))] * 4
            if 'reentrant' in acts and enabled:
                adders = [c for c in free if 'on_add' in K['Decl'][c]]
                if adders and 'add' in acts:
                    cands += [('AddSelfRemoving', (rnd.choice(ids), rnd.choice(adders)))] * 2
                removable = [(e, c) for c, e in attached.items() if 'on_remove' in K['Decl'][c]]
                if removable and 'remove' in acts:
                    cands += [('RemoveDisabling', rnd.choice(removable))]
                if adders and 'create' in acts:
                    c = rnd.choice(adders)
                    ds = [d for d in free if d != c and K['TypeOf'][d] != K['TypeOf'][c]]
                    if ds:
                        cands += [('CreateDisabling', (rnd.choice(ids), c, rnd.choice(ds)))] * 2
            if 'remove' in acts and (enabled or qlen + 1 <= K['MaxQ']):
                cands += [('RemoveComponent', (rnd.choice(sorted(rows) or ids), rnd.choice(types)))] * 3
            if 'ghost' in acts and not blind and rnd.random() < 0.05:
                cands += [('DeleteDeferred', (rnd.choice([i for i in ids if i not in rows] or ids),))] * 3
            if 'delete' in acts and rows:
                cands += [('DeleteDeferred', (rnd.choice(sorted(rows)),))] * 2
                if enabled or qlen + 3 <= K['MaxQ']:
                    cands += [('DeleteImmediate', (rnd.choice(sorted(rows) + ids[:1]),))]
            if 'proc' in acts and procs_all and (enabled or qlen + 2 <= K['MaxQ']):
                cands += [('AddProcessor', (rnd.choice(procs_all), rnd.choice(prios)))] * 3
                cands += [('RemoveProcessor', (rnd.choice(ptypes),))]
            if 'process' in acts and (enabled or qlen + 3 <= K['MaxQ']):
                cands += [('Process', (rnd.choice(sorted(K['Dts'])),))] * 3
                if 'inframe' in acts and plist and not ghosts:
                    cands += [('ProcessRemover', (1, rnd.choice(plist), rnd.choice(ptypes)))] * 2
                if 'fault' in acts and not ghosts:
                    if plist:
                        cands += [('ProcessProcFault', (1, rnd.choice(plist)))]
                    victims = [c for e in dead & set(rows) for c in rows[e] if 'on_remove' in K['Decl'][c]]
                    if victims and enabled:
                        cands += [('ProcessRemoveFault', (1, rnd.choice(victims)))] * 2
                        others = [e for e in rows if attached[victims[0]] != e]
                        if others:
                            cands += [('ProcessKiller', (1, victims[0], rnd.choice(sorted(others))))] * 2
                            cands += [('ProcessScheduler', (1, victims[0], rnd.choice(sorted(others))))] * 2
            if 'clear' in acts and rnd.random() < 0.1:
                cands += [('Clear', ())]
            if 'toggle' in acts:
                cands += [('SetEnabled', (not enabled,))] * 2
                if 'fault' in acts and not enabled and pending:
                    # a postponed callback that is alone in its operation batch raises during the release
                    ok = [i for i, it in enumerate(pending) if it[0] in ('on_add', 'on_remove') and it[1] in K['Comps'] and it[3]
                          and (i + 1 == len(pending) or pending[i + 1][3])
                          and not any(p[0] == it[0] and p[1] == it[1] for p in pending[:i])]
                    if ok:
                        cands += [('SetEnabledFault', (rnd.choice(ok) + 1,))] * 2
            if not cands:
                break
            op, args = rnd.choice(cands)
            pre = {'queue': pending} if op == 'SetEnabledFault' else None
            obs = ad.step(op, args, pre)
            pending = shadow_queue(ad, pending, op, args, obs)
            # shadow state from the observations (for the generator's preconditions only)
            rows = {e: set(cs) for e, cs in obs['comps'].items() if cs}
            attached = {c: e for e, cs in rows.items() for c in cs}
            dead = {e for e in rows if not obs['exists'][e]}
            ghosts = set(obs['wb_tables'][2]) - set(rows) if obs.get('wb_tables', SKIP) is not SKIP else set()
            plist = list(obs['processors'])
            enabled = obs['enabled']
            qlen = obs.get('wb_queue_len', 0)
            if qlen is SKIP:
                qlen = 0
            if op == 'CreateEntity' and args[0] == -1 and obs['ret'][0] == 'id':
                auto_next = obs['ret'][1] + 1
            if op == 'Clear':
                auto_next = 1
            a = list(args) + ['-', '-', '-']
            ev = {'op': op, 'a1': a[0], 'a2': list(a[1]) if isinstance(a[1], tuple) else a[1], 'a3': a[2],
                  'ret': list(obs['ret']),
                  'comps': [[e, list(cs)] for e, cs in sorted(obs['comps'].items())],
                  'exists': [[e, v] for e, v in sorted(obs['exists'].items())],
                  'entities': list(obs['entities']),
                  'is_handler': sorted(obs['is_handler']), 'enabled': obs['enabled'],
                  'processors': list(obs['processors']), 'pprio': [[p, v] for p, v in sorted(obs['pprio'].items())],
                  'qlen': qlen, 'log': [list(x[:3]) if len(x) == 3 else list(x) for x in obs['log']]}
            events.append(ev)
        traces.append({'events': events})
        if len(traces) % 20 == 0:
            import gc
            gc.freeze()         # recorded traces never become garbage: keep the adapter's gc.collect() calls cheap
    return traces

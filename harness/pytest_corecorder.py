"""pytest plugin (loaded with `-p harness.pytest_corecorder`, tests are not edited): observes every use the
repository's own tests make of `desper.CoroutineProcessor` and turns it into a trace for CoroutinesTrace.tla
(pipeline B).

The bodies of the coroutines are arbitrary test code, while Coroutines.tla wants each body as a *script* (a constant).
The script of a coroutine is therefore derived from what its body was seen doing, step by step, while the test runs:
a profile function active only inside `process()` sees every resumption of a started generator and every yield /
return / exception of its frame (with the yielded value); `start`, `kill` and `state` calls issued while a body is
executing are steps of that body (`start!`, `kill!`, `state!`).  What the body would do after the end of the test is
never needed.  The trace then consists of the top-level calls (Start, Kill, Process(dt)) with the per-frame execution
log, the state of every coroutine and the promise values after each call.

Anything Coroutines.tla cannot express (non-integer dt or waits, generators shared by two processors, a frame that
wakes more coroutines at once than TLC can permute) marks the trace `unsupported` with a reason: listed in the
evidence, never reported as a violation.
"""
import dis
import inspect
import json
import os
import sys

OUT = os.environ.get('VERIF_TRACE_OUT_CO')
MAX_WAKE = 4          # a frame waking more coroutines than this has too many orders for TLC to enumerate
_YIELD = {'YIELD_VALUE'}
_RETURN = {'RETURN_VALUE', 'RETURN_CONST', 'RETURN_GENERATOR'}


class PRec:
    """Recorder of one CoroutineProcessor."""
    def __init__(self, test, k):
        self.test = test
        self.k = k
        self.gens = {}          # name -> generator (strong: ids must stay unique for the duration of the test)
        self.names = {}         # id(generator) -> name
        self.frames = {}        # id(frame) -> name
        self.ops = {}           # name -> script steps seen so far
        self.retval = {}        # name -> value its body returned
        self.promise = {}       # name -> latest promise
        self.events = []
        self.dts = set()
        self.unsupported = None
        self.depth = 0
        self.cur = []           # names of the coroutines whose bodies are executing (innermost last)
        self.log = []
        self.raised_in = None
        self.waiting = set()

    def bad(self, why):
        if self.unsupported is None:
            self.unsupported = why

    def name(self, gen):
        k = id(gen)
        if k in self.names and self.gens[self.names[k]] is gen:
            return self.names[k]
        n = 'g%d' % (len(self.gens) + 1)
        self.names[k] = n
        self.gens[n] = gen
        self.ops[n] = []
        if gen.gi_frame is not None:
            self.frames[id(gen.gi_frame)] = n
        return n


class CRec:
    def __init__(self):
        self.test = None
        self.procs = {}         # id(processor) -> PRec
        self.keep = []
        self.owner = {}         # id(generator) -> PRec
        self.results = []

    def reset(self, test):
        self.flush()
        self.test = test
        self.procs = {}
        self.keep = []
        self.owner = {}

    def rec(self, proc):
        k = id(proc)
        if k not in self.procs:
            self.keep.append(proc)
            self.procs[k] = PRec(self.test, len(self.procs) + 1)
        return self.procs[k]

    def flush(self):
        for r in self.procs.values():
            if r.events:
                self.results.append({'test': '%s#%d' % (r.test, r.k), 'unsupported': r.unsupported, 'events': r.events,
                                     'G': list(r.gens), 'Script': {g: [list(o) for o in ops] for g, ops in r.ops.items()},
                                     'Dts': sorted(r.dts)})
        self.procs = {}
        self.keep = []
        self.owner = {}


C = CRec()
_orig = {}


def _observe(R, proc):
    st = []
    for g, gen in R.gens.items():
        try:
            st.append([g, _orig['state'](proc, gen).name])
        except Exception as ex:     # noqa
            st.append([g, 'EXC:' + type(ex).__name__])
    pv = []
    for g, p in sorted(R.promise.items()):
        v = p.value
        pv.append([g, 0 if v is None else ('RET' if g in R.retval and v is R.retval[g] or (g in R.retval and v == R.retval[g]) else -1)])
    return st, pv


def _emit(R, proc, op, arg, ret):
    st, pv = _observe(R, proc)
    R.events.append({'op': op, 'arg': arg, 'ret': ret, 'log': [list(x) for x in R.log], 'state': st, 'pvalue': pv, 'held': []})


def _quant(v):
    if v is None:
        return 0
    if isinstance(v, bool) or not isinstance(v, (int, float)):
        return None
    if v != int(v) or abs(v) > 100000:
        return None
    v = int(v)
    return -1 if v < 0 else v


def _in_body_call(R, kind, proc, gen, call):
    me = R.cur[-1]
    tgt = R.name(gen)
    R.ops[me].append([kind + '!', tgt])
    pc = len(R.ops[me])
    try:
        r = call()
    except ValueError:
        R.log.append([me, pc, 'ValueError'])
        raise
    R.log.append([me, pc, r.name if kind == 'state' else 'ok'])
    if kind == 'start':
        R.promise[tgt] = r
    return r


def install():
    import desper
    CP = desper.CoroutineProcessor
    for m in ('start', 'kill', 'state', 'process'):
        _orig[m] = getattr(CP, m)

    def known_gen(R, proc, gen):
        if not inspect.isgenerator(gen):
            return False
        o = C.owner.setdefault(id(gen), R)
        if o is not R:
            R.bad('one generator used with two processors')
            o.bad('one generator used with two processors')
        return True

    def start(self, generator):
        if C.test is None:
            return _orig['start'](self, generator)
        R = C.rec(self)
        if not known_gen(R, self, generator):
            return _orig['start'](self, generator)       # TypeError path: not an action of the specification
        if R.cur:
            return _in_body_call(R, 'start', self, generator, lambda: _orig['start'](self, generator))
        g = R.name(generator)
        R.log = []
        ret = 'ok'
        try:
            p = _orig['start'](self, generator)
            R.promise[g] = p
            return p
        except BaseException as ex:
            ret = type(ex).__name__
            raise
        finally:
            _emit(R, self, 'Start', g, ret)

    def kill(self, generator):
        if C.test is None:
            return _orig['kill'](self, generator)
        R = C.rec(self)
        if not known_gen(R, self, generator):
            return _orig['kill'](self, generator)
        if R.cur:
            return _in_body_call(R, 'kill', self, generator, lambda: _orig['kill'](self, generator))
        g = R.name(generator)
        R.log = []
        ret = 'ok'
        try:
            return _orig['kill'](self, generator)
        except BaseException as ex:
            ret = type(ex).__name__
            raise
        finally:
            _emit(R, self, 'Kill', g, ret)

    def state(self, generator):
        if C.test is None:
            return _orig['state'](self, generator)
        R = C.rec(self)
        if R.cur and inspect.isgenerator(generator) and known_gen(R, self, generator):
            return _in_body_call(R, 'state', self, generator, lambda: _orig['state'](self, generator))
        return _orig['state'](self, generator)      # a query from outside is not an action

    def process(self, dt):
        if C.test is None or C.rec(self).depth:
            return _orig['process'](self, dt)
        R = C.rec(self)
        if isinstance(dt, bool) or not isinstance(dt, int) or not 0 <= dt < 100000:
            R.bad('non-integer dt')
        else:
            R.dts.add(dt)
        R.log = []
        R.cur = []
        woken = [0]
        framestack = []

        def prof(frame, event, arg):
            if not frame.f_code.co_flags & 0x20:
                return
            if event == 'call':
                g = R.frames.get(id(frame))
                if g is not None and R.gens[g].gi_frame is frame:
                    R.cur.append(g)
                    framestack.append(frame)
                    if g in R.waiting:
                        R.waiting.discard(g)
                        woken[0] += 1
            elif event == 'return' and framestack and framestack[-1] is frame:
                framestack.pop()
                g = R.cur.pop()
                opn = dis.opname[frame.f_code.co_code[frame.f_lasti]] if frame.f_lasti >= 0 else '?'
                if opn in _YIELD:
                    n = _quant(arg)
                    if n is None:
                        R.bad('a coroutine yields %r: not an integer wait' % (arg,))
                        n = 0
                    R.ops[g].append(['y', n])
                    R.log.append([g, len(R.ops[g]), '-'])
                    if n > 0:
                        R.waiting.add(g)
                elif opn in _RETURN:
                    R.retval[g] = arg
                    R.log.append([g, len(R.ops[g]) + 1, 'return'])
                else:
                    R.ops[g].append(['raise', 0])
                    R.log.append([g, len(R.ops[g]), '-'])
                    R.raised_in = g

        R.raised_in = None
        R.depth += 1
        ret = 'ok'
        old = sys.getprofile()
        sys.setprofile(prof)
        try:
            return _orig['process'](self, dt)
        except BaseException as ex:
            ret = 'raised' if R.raised_in is not None else type(ex).__name__
            raise
        finally:
            sys.setprofile(old)
            R.depth -= 1
            R.cur = []
            if woken[0] > MAX_WAKE:
                R.bad('a frame wakes %d coroutines at once (more orders than TLC can enumerate)' % woken[0])
            _emit(R, self, 'Process', dt, ret)

    CP.start, CP.kill, CP.state, CP.process = start, kill, state, process


def pytest_configure(config):
    if OUT:
        install()


def pytest_runtest_setup(item):
    if OUT:
        C.reset(item.nodeid)


def pytest_runtest_teardown(item, nextitem):
    if OUT:
        C.flush()
        C.test = None


def pytest_sessionfinish(session, exitstatus):
    if OUT:
        C.flush()
        with open(OUT, 'w') as f:
            json.dump(C.results, f)

"""Adapter: spec/Transform.tla  <->  desper.Transform2D / desper.Transform3D (real classes from the working tree)."""
import itertools

from ..replay import guarded, exc_name

EVENTS = ('on_position_change', 'on_rotation_change', 'on_scale_change')
PROP_OF = {'on_position_change': 'position', 'on_rotation_change': 'rotation', 'on_scale_change': 'scale'}
PROPS = ('position', 'rotation', 'scale')
IMMUTABLE = (tuple, int, float, str, frozenset, type(None))
CLAMP_ROT = 10            # ClampRot of the specification


def canon(x):
    """Value of a read / payload in a shape that compares by *value*: 10 == 10.0, Vec2(1, 2) == (1, 2)."""
    if isinstance(x, bool):
        return ('?', repr(x))
    if isinstance(x, (int, float)):
        return ('n', x)
    if isinstance(x, (tuple, list)):
        return ('v', tuple(x))
    return ('?', type(x).__name__)


class ListenerRaised(Exception):
    """What a "raise" listener raises from its callback (the harness' own class: never raised by the library)."""


class ListenerBailedOut(BaseException):
    """The same, not an Exception (a callback may raise anything)."""


def _namespace(env, methods):
    """Class body of a logging listener: methods = {method name: event it serves}.

    Inside the callback it reads the notified property of the notifying transform (the harness makes every
    assignment, so it knows which transform that is) and then behaves as the model's `beh` says."""
    def make_cb(name, ev):
        def cb(self, *args, **kw):
            t = env.cur[-1]
            read = getattr(env.tr[t], PROP_OF[ev])
            if len(args) == 1 and not kw:
                env.log.append((self.name, ev, args[0], read))
                env.behave(self.name, t, PROP_OF[ev], args[0])
            else:
                env.log.append((self.name, ev, ('BADARGS', len(args), tuple(sorted(kw))), read))
        cb.__name__ = name
        return cb

    ns = {m: make_cb(m, ev) for m, ev in methods.items()}
    # iteration order of the dispatcher's listener set is steered through the hash (both orders get realised)
    ns['__hash__'] = lambda self: env.rank[self.name]
    ns['__eq__'] = lambda self, other: self is other
    return ns


def make_listener_class(desper, env, name, events):
    """One class per listener, decorated with the real event_handler; one method per mapped event."""
    return desper.event_handler(*events)(type('Listener_' + name, (), _namespace(env, {ev: ev for ev in events})))


def make_shared_listener_class(env):
    """One class for all listeners of a behaviour: it has a method for every event, and each *instance* says in its
    own `__events__` which events it observes and through which method (the EventHandler protocol asks for an
    attribute of the handler, nothing more; `subs[l]` of the model is unchanged)."""
    ns = _namespace(env, {'handle_' + ev: ev for ev in EVENTS})

    def init(self, events):
        self.__events__ = {ev: 'handle_' + ev for ev in events}
    ns['__init__'] = init
    return type('Listener', (), ns)


class TransformAdapter:
    """kinds: transform id -> '2d' | '3d' (the constants T2 / T3 of the instance being replayed).

    A per-adapter counter of behaviours decides what the specification leaves open: the iteration order of the
    listeners, how they are made, which exception a raising listener raises (VARIANTS combinations with two
    listeners; `start` chooses where the counter begins)."""
    VARIANTS = 8

    def __init__(self, desper, kinds, start=0):
        self.desper = desper
        self.kinds = dict(kinds)
        self.n = 0
        self.resets = start
        self.orders = set()
        self.styles = set()
        self.raised = set()
        V2, V3 = desper.math.Vec2, desper.math.Vec3
        # vectors identified by the model's tokens: Vec instances and plain tuples ("any vectors")
        self.vec = {
            '2d': {'zero': lambda: V2(), 'one': lambda: V2(1., 1.), 'va': lambda: V2(3., -4.), 'vb': lambda: (0.5, 6)},
            '3d': {'zero': lambda: V3(), 'one': lambda: V3(1., 1., 1.), 'va': lambda: V3(3., -4., 5.),
                   'vb': lambda: (0.5, 6, -7)},
        }

    # ------------------------------------------------------------------------------------------
    def real(self, t, v):
        """A fresh real value for the model value v = ('n', i) | ('v', token) assigned to transform t."""
        if v[0] == 'n':
            self.n += 1
            return float(v[1]) if self.n % 2 else int(v[1])      # ints and floats alike
        return self.vec[self.kinds[t]][v[1]]()

    def model_canon(self, t, v):
        if v[0] == 'n':
            return ('n', v[1])
        if v[0] == 'v':
            return ('v', tuple(self.vec[self.kinds[t]][v[1]]()))
        return None

    def reset(self, init):
        class Env:
            pass
        env = self.env = Env()
        self.n = 0                # per behaviour: the int/float choice depends on the history only
        self.resets += 1
        env.log = []
        env.tr = {}
        env.cur = []              # transforms being assigned, innermost last
        env.listeners = {}
        env.beh = {l: tuple(b) for l, b in init['beh'].items()}
        env.behave = self._behave
        ls = sorted(init['subs'])
        perms = list(itertools.permutations(range(1, len(ls) + 1)))
        perm = perms[self.resets % len(perms)]
        env.rank = {l: perm[i] * 7 + 1 for i, l in enumerate(ls)}
        # the per-adapter counter also decides (independently of the order) how the listeners are made - one
        # decorated class each, or instances of one class with per-instance `__events__` - and what a "raise"
        # listener raises
        k = self.resets // len(perms)
        shared = make_shared_listener_class(env) if k % 2 else None
        env.exc_class = ListenerBailedOut if (k // 2) % 2 else ListenerRaised
        self.styles.add('one class, per-instance __events__' if shared else 'one decorated class per listener')
        for l in ls:
            events = sorted(init['subs'][l])
            o = shared(events) if shared else make_listener_class(self.desper, env, l, events)()
            o.name = l
            env.listeners[l] = o

    def _assign(self, t, prop, value):
        env = self.env
        env.cur.append(t)
        try:
            setattr(env.tr[t], prop, value)
        finally:
            env.cur.pop()

    def _behave(self, l, t, prop, payload):
        """"clamp": told a value other than the clamp value, assign the clamp value from inside the callback;
        "raise": told about its property, raise."""
        kind, p, tok = self.env.beh[l]
        if kind == 'raise' and p == prop:
            self.raised.add(self.env.exc_class.__name__)
            raise self.env.exc_class(l)
        if kind != 'clamp' or p != prop:
            return
        c = ('n', CLAMP_ROT) if (self.kinds[t] == '2d' and prop == 'rotation') else ('v', tok)
        if canon(payload) != self.model_canon(t, c):
            self._assign(t, prop, self.real(t, c))

    def _build(self, pre):
        env = self.env
        for t in sorted(self.kinds):
            cls = self.desper.Transform2D if self.kinds[t] == '2d' else self.desper.Transform3D
            given = [(p, self.real(t, pre['ctor'][t][p])) for p in PROPS if pre['ctor'][t][p][0] != 'dflt']
            if len(given) == 3:
                env.tr[t] = cls(*[x for _p, x in given])           # positional
            else:
                env.tr[t] = cls(**dict(given))
            for l in sorted(pre['reg'][t]):
                env.tr[t].add_handler(env.listeners[l])

    # ------------------------------------------------------------------------------------------
    def step(self, name, args, pre):
        env = self.env
        env.log = []

        def call():
            if name == 'Build':
                self._build(pre)
            elif name in ('SetPosition', 'SetRotation', 'SetScale'):
                self._assign(args[0], name[3:].lower(), self.real(args[0], args[1]))
            elif name == 'AddListener':
                env.tr[args[0]].add_handler(env.listeners[args[1]])
            elif name == 'RemoveListener':
                env.tr[args[0]].remove_handler(env.listeners[args[1]])
            else:
                raise AssertionError('unknown action ' + name)

        _v, ex = guarded(call)
        obs = {'ret': 'ok' if ex is None else exc_name(ex)}
        del ex
        env.cur = []
        log = list(env.log)
        # deliveries in order: who, which event, the value told, the value a read returned inside the callback
        obs['log'] = tuple((l, ev, canon(x), canon(r)) for l, ev, x, r in log)
        # "the very value a read of the property returns": a vector handed to a listener is the object the read
        # returns at that moment, whenever the two are equal at all (floats compare by value only)
        obs['ident'] = tuple(isinstance(x, (int, float)) or x is r or canon(x) != canon(r) for _l, _ev, x, r in log)
        if len({l for l, _e, _x, _r in log}) >= 2:
            self.orders.add('>'.join(l for l, _e, _x, _r in log))
        if not env.tr:
            obs['reads'] = None
            return obs
        reads = {t: {p: getattr(tr, p) for p in PROPS} for t, tr in env.tr.items()}
        obs['reads'] = {t: {p: canon(x) for p, x in r.items()} for t, r in reads.items()}
        obs['reg'] = {t: frozenset(l for l, o in env.listeners.items() if tr.is_handler(o)) for t, tr in env.tr.items()}
        # no two transforms hand out one and the same *mutable* object (shared defaults would show here)
        slots = [(t, p, x) for t, r in reads.items() for p, x in r.items()]
        obs['shared_mutable'] = any(x is y and not isinstance(x, IMMUTABLE)
                                    for i, (t, _p, x) in enumerate(slots) for (u, _q, y) in slots[i + 1:] if t != u)
        return obs

    def expect(self, name, args, pre, post):
        t = post['call']['t']
        # the exception of a raising listener reaches whoever made the assignment
        exp = {'ret': self.env.exc_class.__name__ if post['call']['exc'] else 'ok',
               'log': tuple((e['l'], e['ev'], self.model_canon(t, e['sent']), self.model_canon(t, e['read']))
                            for e in post['log']),
               'ident': tuple(True for _e in post['log'])}
        if not post['built']:
            exp['reads'] = None
            return exp
        exp['reads'] = {u: {p: self.model_canon(u, post['stored'][u][p]) for p in PROPS} for u in self.kinds}
        exp['reg'] = {u: frozenset(post['reg'][u]) for u in self.kinds}
        exp['shared_mutable'] = False
        return exp

    def finish(self, stats):
        for key, got in (('listener_orders_realised', self.orders), ('listener_styles', self.styles),
                         ('listener_exceptions_raised', self.raised)):
            s = stats.extra.setdefault(key, set())
            s |= got

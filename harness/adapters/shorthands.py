"""Adapter: spec/Shorthands.tla <-> desper.Prototype (C19, pure-function part)."""
from ..replay import guarded


class ShorthandsAdapter:
    def __init__(self, desper, ntypes):
        self.desper = desper
        self.n = ntypes

    def reset(self, init):
        desper = self.desper
        self.made = []
        made = self.made
        n = self.n
        self.types = {i: type('Comp%d' % i, (), {'__init__': lambda self, src='default': setattr(self, 'src', src)})
                      for i in range(1, n + 1)}
        prefix = 'build_' if init['customPrefix'] else 'init_'

        def maker(src):
            def m(self_or_type, t=None):
                ty = t if t is not None else self_or_type
                return ty(src)
            return m

        base_ns = {}
        sub_ns = {}
        def broken(self, t):
            return self.attribute_the_prototype_does_not_have      # AttributeError from INSIDE the init method

        for i in sorted(init['hasPrefixed']):
            bad = i in init['failing']
            base_ns[prefix + 'Comp%d' % i] = broken if bad else (lambda s: lambda self, t: t(s))('prefix')
            if i in init['overridden']:
                sub_ns[prefix + 'Comp%d' % i] = broken if bad else (lambda s: lambda self, t: t(s))('override')
        for i in sorted(init['hasDefaultPrefixed']):
            # a method under the default prefix must be ignored when a custom prefix is in force
            base_ns.setdefault('init_Comp%d' % i, (lambda s: lambda self, t: t(s))('WRONG-default-prefix'))
        base_ns['component_types'] = tuple(self.types[i] for i in init['listed'])
        base_ns['init_methods'] = {self.types[i]: (lambda s: lambda t: t(s))('methods') for i in sorted(init['inMethods'])}
        if init['customPrefix']:
            base_ns['init_prefix'] = prefix
        Base = type('ProtoBase', (desper.Prototype,), base_ns)
        self.base = Base
        self.cls = type('ProtoSub', (Base,), sub_ns) if init['overridden'] else Base
        # a sibling prototype over the SAME component types with no construction source at all: anything a prototype
        # class remembers about a type must not leak into another prototype class
        self.sibling = type('ProtoPlain', (desper.Prototype,), {'component_types': base_ns['component_types']})
        self.counter = getattr(self, 'counter', 0) + 1
        self.tn = {c: i for i, c in self.types.items()}

    def step(self, name, args, pre):
        def it():
            order = [self.sibling, self.base, self.cls] if self.counter % 2 else [self.cls, self.base, self.sibling]
            out = {}
            for k in order:
                p = k()
                out[k] = (list(p), list(p))          # iterating twice yields fresh objects each time
            return out
        v, ex = guarded(it)
        if ex is not None:
            return {'produced': 'EXC:' + type(ex).__name__, 'fresh': False}
        a, b = v[self.cls]

        def show(xs):
            return tuple((self.tn.get(type(x), -1), getattr(x, 'src', '?')) for x in xs)
        return {'produced': show(a), 'again': show(b),
                'base': show(v[self.base][0]), 'sibling': show(v[self.sibling][0]),
                'fresh': len({id(x) for x in a + b}) == len(a) + len(b)}

    def expect(self, name, args, pre, post):
        prod = tuple(tuple(x) for x in post['produced'])
        if prod and prod[0][1] == 'AttributeError':
            return {'produced': 'EXC:AttributeError', 'fresh': False}
        # the base prototype class has the prefixed methods without the subclass overrides; the sibling has nothing
        base = tuple((t, 'prefix' if s == 'override' else s) for t, s in prod)
        sibling = tuple((t, 'default') for t, s in prod)
        return {'produced': prod, 'again': prod, 'base': base, 'sibling': sibling, 'fresh': True}

"""Adapter: spec/Loop.tla <-> desper.SimpleLoop / switch / quit_loop / WorldHandle (real classes).

A behaviour of the specification is a sequence InitialSwitch / Start / Frame...  SimpleLoop.start() cannot be
paused from outside, so every step re-executes the whole prefix on fresh objects: the harness owns the time
function and the code running in every world (processors, an on_update listener, a coroutine), which follow
the frame plan; when the plan is exhausted the time function raises Quit (a legal way to stop a loop).
"""
from ..replay import guarded
from ..tla import fmap

SITES = ['p1', 'upd', 'co', 'p2']


class Env:
    pass


class LoopAdapter:
    def __init__(self, desper, K):
        self.desper = desper
        self.K = K

    def reset(self, init):
        self.plan = []
        # what the model leaves open varies from behaviour to behaviour: clock readings far beyond 2**53 (exact as
        # integers, not as floats), worlds whose truth value is False (a World subclass counting its entities)
        self.counter = getattr(self, 'counter', 0) + 1

    # ------------------------------------------------------------------------------------------
    def _execute(self):
        """Run the whole plan on fresh objects; returns (segments, ret_of_last, loop_fields)."""
        d = self.desper
        env = Env()
        env.log = []            # current segment
        env.segments = []       # closed segments
        env.frames = []         # planned frames of the current start() run
        env.fi = -1
        env.clock = (2 ** 60 + 1) if self.counter % 2 else 0
        env.tagn = 0
        env.tags = {}
        env.forced = False
        env.frame_dt = None
        env.switches = 0
        env.quit_on_in = False
        env.err_on_quit = False

        def tag(w):
            if w is None:
                return 0
            return env.tags.get(id(w), -1)

        def maybe_request(site, world):
            if env.fi < 0 or env.fi >= len(env.frames):
                return
            inc, s, req = env.frames[env.fi]
            if s != site or env.done_req:
                return
            kind, h, cc, cn = req
            if kind == 'nop':
                return
            env.done_req = True
            if kind == 'switch':
                d.switch(env.handles[h], cc, cn)
            elif kind == 'raise':
                raise d.SwitchWorld(env.handles[h], cc, cn)
            elif kind == 'quit':
                raise d.Quit()
            elif kind == 'quit_loop':
                d.quit_loop()
            elif kind == 'switchq':
                env.quit_on_in = True
                d.switch(env.handles[h], False, False)
            elif kind == 'direct':
                d.default_loop.switch(env.handles[h])
            elif kind == 'qlerr':
                env.err_on_quit = True
                d.quit_loop()
            elif kind == 'quitto':
                d.quit_loop(env.handles[h]())
            elif kind == 'clrquit':
                d.default_loop.current_world_handle.clear()
                d.quit_loop()
            elif kind == 'error':
                raise RuntimeError('planned')
            elif kind == 'poke':
                env.handles[h]().dispatch('poke', 0, 0)
            elif kind == 'respawn':
                other = env.handles[h]()
                other.delete_entity(other._verif_obs, immediate=True)
                other.dispatch('poke', 0, 0)
                o = Observer()
                o.w = other
                other._verif_obs = other.create_entity(o)

        class P1(d.Processor):
            priority = 0

            def process(self, dt):
                env.frame_dt = dt
                env.log.append(('run', tag(self.world), 'p1', dt))
                # keep one coroutine alive in this world (a body that raised is finished)
                g = getattr(self.world, '_verif_co', None)
                if g is None or g.gi_frame is None:
                    self.world._verif_co = co_body(self.world)
                    self.world.get_processor(d.CoroutineProcessor).start(self.world._verif_co)
                maybe_request('p1', self.world)

        class P2(d.Processor):
            priority = 3

            def process(self, dt):
                env.log.append(('run', tag(self.world), 'p2', dt))
                maybe_request('p2', self.world)

        def co_body(world):
            while True:
                env.log.append(('run', tag(world), 'co', env.frame_dt))
                maybe_request('co', world)
                yield

        @d.event_handler('on_add', 'on_world_load', 'on_switch_in', 'on_switch_out', 'on_quit', 'poke', 'on_update')
        class Observer:
            def on_add(self, entity, world):
                self.w = world
                env.log.append(('ev', tag(world), 'on_add', 0, 0))

            def on_world_load(self, handle, world):
                env.log.append(('ev', tag(world), 'on_world_load', 0, 0))

            def on_switch_in(self, a, b):
                env.log.append(('ev', tag(self.w), 'on_switch_in', tag(a), tag(b)))
                if env.quit_on_in:
                    env.quit_on_in = False
                    raise d.Quit()

            def on_switch_out(self, a, b):
                env.log.append(('ev', tag(self.w), 'on_switch_out', tag(a), tag(b)))

            def on_quit(self):
                env.log.append(('ev', tag(self.w), 'on_quit', 0, 0))
                if env.err_on_quit:
                    env.err_on_quit = False
                    raise RuntimeError('planned: on_quit handler fails')

            def poke(self, a, b):
                env.log.append(('ev', tag(self.w), 'poke', 0, 0))

            def on_update(self, dt):
                env.log.append(('run', tag(self.w), 'upd', dt))
                maybe_request('upd', self.w)

        falsy_world = type('CountingWorld', (d.World,), {'__len__': lambda self_: 0})

        def populate(handle, world):
            if self.counter % 3 == 0:
                world.__class__ = falsy_world
            env.tagn += 1
            env.tags[id(world)] = env.tagn
            env.keep.append(world)
            env.log.append(('load', handle.name, env.tagn))
            world.add_processor(P1())
            world.add_processor(d.OnUpdateProcessor(), 1)
            world.add_processor(d.CoroutineProcessor(), 2)
            world.add_processor(P2())
            world._verif_obs = world.create_entity(Observer())

        env.keep = []
        env.handles = {}
        for h in sorted(self.K['Hs']):
            wh = d.WorldHandle()
            wh.name = h
            wh.transform_functions.append(populate)
            env.handles[h] = wh

        def time_function():
            # a new iteration begins: close the previous frame's segment
            env.segments.append(env.log)
            env.log = []
            env.fi += 1
            env.done_req = False
            if env.fi >= len(env.frames):
                env.forced = True
                raise d.Quit()
            env.clock += env.frames[env.fi][0]
            return env.clock

        loop = d.SimpleLoop(time_function)
        old_default = d.default_loop
        d.default_loop = loop
        ret = 'ok'
        try:
            i = 0
            plan = self.plan
            while i < len(plan):
                item = plan[i]
                if item[0] == 'init':
                    env.log = []
                    _v, ex = guarded(lambda: loop.switch(env.handles[item[1]]), 5.0)
                    env.segments.append(env.log)
                    ret = 'ok' if ex is None else type(ex).__name__
                    i += 1
                elif item[0] == 'start':
                    j = i + 1
                    frames = []
                    while j < len(plan) and plan[j][0] == 'frame':
                        frames.append(plan[j][1:])
                        j += 1
                        if frames[-1][2][0] in ('quit', 'quit_loop', 'quitto', 'clrquit', 'error', 'qlerr', 'switchq'):
                            break
                    env.frames = frames
                    env.fi = -1
                    env.forced = False
                    env.log = []
                    env.segments.append(['start-marker'])
                    _v, ex = guarded(loop.start, 5.0)
                    env.segments.append(env.log)
                    # segments layout for this run: [marker], [before first frame], frame1, frame2, ...
                    if ex is not None:
                        ret = 'raised' if isinstance(ex, RuntimeError) else type(ex).__name__
                    elif not frames:
                        ret = 'ok'
                    elif env.forced:
                        last_req = frames[-1][2][0]
                        ret = 'switched' if last_req in ('switch', 'raise') else 'ok'
                    else:
                        ret = 'returned'
                    del ex
                    i = j
                else:
                    raise AssertionError(item)
            fields = (loop.running, getattr(loop.current_world_handle, 'name', 'none'), tag(loop.current_world))
            # which of the world instances ever loaded hold their events (also the ones no handle caches any more)
            env.muted = tuple(not w.dispatch_enabled for w in env.keep)
            seg = self._last_segment(env)
            return seg, ret, fields, env
        finally:
            d.default_loop = old_default

    def _last_segment(self, env):
        """Log of the last planned item."""
        last = self.plan[-1]
        segs = env.segments
        if last[0] == 'init':
            return segs[-1]
        if last[0] == 'start':
            return []
        # last frame of the last run: segments after the marker: [pre], f1, ..., fn, (forced-quit segment)
        k = max(i for i, s in enumerate(segs) if s == ['start-marker'])
        run = segs[k + 1:]
        nframes = len(env.frames)
        # run[0] is what happened before the first clock reading (nothing), run[i] is frame i
        if env.forced:
            return run[nframes] if len(run) > nframes else []
        return run[nframes] if len(run) > nframes else (run[-1] if run else [])

    # ------------------------------------------------------------------------------------------
    def step(self, name, args, pre):
        if name == 'InitialSwitch':
            self.plan.append(('init', args[0]))
        elif name == 'Start':
            self.plan.append(('start',))
        elif name == 'Frame':
            inc, site, req = args
            self.plan.append(('frame', inc, site, tuple(req)))
        else:
            raise AssertionError(name)
        seg, ret, fields, env = self._execute()
        if name == 'Frame' and req[0] == 'switch' and (req[3] or (req[2] and req[1] == pre['cur'])):
            # signature of known finding D16: did the instance that now runs hear on_switch_in?
            heard = any(x[0] == 'ev' and x[2] == 'on_switch_in' and x[1] == fields[2] for x in seg)
            if not heard:
                self.d16 = getattr(self, 'd16', 0) + 1
        return {'ret': ret, 'log': self._strip(seg), 'loop': fields, 'muted': env.muted}

    @staticmethod
    def _strip(seg):
        # whether the harness coroutine logs in a frame depends on how CoroutineProcessor recovers from a body that
        # raised earlier in that world (outside C13/C14): its 'run' entries are not compared, its requests are
        return tuple(tuple(x) for x in seg if not (x[0] == 'run' and x[2] == 'co'))

    def finish(self, stats):
        if getattr(self, 'd16', 0):
            stats.extra['known_D16'] = stats.extra.get('known_D16', 0) + self.d16
            self.d16 = 0

    def expect(self, name, args, pre, post):
        exp = {'ret': post['ret'], 'log': self._strip(post['log'])}
        n = post['nextInst'] - 1
        en = post['en']
        if post['ret'] in ('ok', 'switched', 'returned') and name != 'Start':
            # every instance loaded so far: running one enabled, the ones that were left (discarded or not) muted
            exp['muted'] = tuple(not en[i] for i in range(n))
        else:
            exp['muted'] = lambda o: True       # after an error the gates are not specified
        if post['ret'] == 'returned':
            exp['loop'] = (False, post['cur'], post['curInst'])
        elif post['ret'] == 'raised' or name == 'InitialSwitch':
            # `running` after a non-Quit exception is not specified by C14 (it stays True today)
            exp['loop'] = lambda o, post=post: o[1:] == (post['cur'], post['curInst'])
        else:
            exp['loop'] = lambda o: True      # mid-run: the harness stopped the loop itself to look at it
        return exp

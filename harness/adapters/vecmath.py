"""Adapter: spec/VecMath.tla  <->  desper.math (real classes from the working tree).

One model behaviour is one row of the reference table: the initial state holds (op, args), the single
`Eval` step holds the reference result computed by TLC.  The row is executed twice on the real classes:

  facet 'int'   operands are Python ints (rational scalars become floats, exactly representable or not)
  facet 'frac'  operands are fractions.Fraction, so + - * / and ~ are exact and compared with ==

and every SUB_EVERY-th row (counted per adapter, so every operation meets it) a third time:

  facet 'sub'   Fraction operands again, but every vector / matrix operand is built through a trivial user-defined
                subclass (class Point(Vec3): pass).  The statement speaks of vectors and matrices, not of exact
                types: a subclass instance is a vector.  Results are compared by value; their class is reported as
                the desper.math class they are an instance of (a result may be of the base class or of the subclass).

Operations through a square root or an angle (tol = TRUE in the model), and 'int' rows whose result is a
proper rational (float division), are compared with tolerance TOL relative to the largest entry of the
expected result (at least 1).  A root <<s, n, d>> = s*sqrt(n/d) is compared through its signed square, so
the expected side never takes a square root.
"""
import json
import math
import warnings
from fractions import Fraction

from ..tla import to_json

TOL = 1e-9
SUB_EVERY = 2       # share of the rows that also run with subclass operands: every second one

# operand kinds: V vector, M matrix, Q rational <<p, q>>, I integer scalar, K quarter turns, S letters,
#                N raw index, B box of six numbers, R rational Mat4 <<integer matrix, common denominator>>
OPS = {
    'add': ('VV', lambda m, a, b: a + b),
    'sub': ('VV', lambda m, a, b: a - b),
    'mul': ('VV', lambda m, a, b: a * b),
    'div': ('VV', lambda m, a, b: a / b),
    'neg': ('V', lambda m, a: -a),
    'dot': ('VV', lambda m, a, b: a.dot(b)),
    'cross': ('VV', lambda m, a, b: a.cross(b)),
    'dist': ('VV', lambda m, a, b: a.distance(b)),
    'abs': ('V', lambda m, a: abs(a)),
    'mag': ('V', lambda m, a: a.mag),
    'norm': ('V', lambda m, a: a.normalize()),
    'lerp': ('VVQ', lambda m, a, b, t: a.lerp(b, t)),
    'scale': ('VQ', lambda m, a, s: a.scale(s)),
    'clamp': ('VII', lambda m, a, lo, hi: a.clamp(lo, hi)),
    'clampnum': ('III', lambda m, x, lo, hi: m.clamp(x, lo, hi)),
    'frommag': ('VQ', lambda m, a, x: a.from_magnitude(x)),
    'limit': ('VQ', lambda m, a, x: a.limit(x)),
    'rotate': ('VK', lambda m, a, k: a.rotate(k)),
    'fromheading': ('VK', lambda m, a, k: a.from_heading(k)),
    'frompolar': ('IK', lambda m, x, k: m.Vec2.from_polar(x, k)),
    'heading': ('V', lambda m, a: a.heading),
    'swz': ('VS', lambda m, a, s: getattr(a, s)),
    'mmul': ('MM', lambda m, A, B: A @ B),
    'mul3l': ('MMM', lambda m, A, B, C: (A @ B) @ C),
    'mul3r': ('MMM', lambda m, A, B, C: A @ (B @ C)),
    'mulv': ('MV', lambda m, A, v: A @ v),
    'mulvl': ('MMV', lambda m, A, B, v: (A @ B) @ v),
    'mulvr': ('MMV', lambda m, A, B, v: B @ (A @ v)),
    'idl': ('M', lambda m, A: type(A)() @ A),
    'idr': ('M', lambda m, A: A @ type(A)()),
    'idv': ('V', lambda m, v: {3: m.Mat3, 4: m.Mat4}[len(v)]() @ v),
    'madd': ('MM', lambda m, A, B: A + B),
    'msub': ('MM', lambda m, A, B: A - B),
    'mneg': ('M', lambda m, A: -A),
    'row': ('MN', lambda m, A, i: A.row(i)),
    'col': ('MN', lambda m, A, i: A.column(i)),
    'transpose': ('M', lambda m, A: A.transpose()),
    'inv': ('M', lambda m, A: ~A),
    'invq': ('R', lambda m, A: ~A),
    'fromtrans': ('V', lambda m, v: m.Mat4.from_translation(v)),
    'fromscale': ('V', lambda m, v: m.Mat4.from_scale(v)),
    'translate': ('MV', lambda m, A, v: A.translate(v)),
    'ortho': ('B', lambda m, x: m.Mat4.orthogonal_projection(*x)),
}


def _tup(v):
    return tuple(_tup(x) for x in v) if isinstance(v, (list, tuple)) else v


class Expect:
    """Predicate over an observation (cls, values, warned) built from the model's result record."""

    def __init__(self, res, exact_operands):
        self.res = res
        self.exact_operands = exact_operands

    def __repr__(self):
        return json.dumps(to_json(self.res))

    def __call__(self, obs):
        r = self.res
        if obs is None:
            return False
        cls, vals, warned = obs
        if r['cls'] == 'exc':
            return cls == 'exc' and vals == (r['fmt'],)
        if cls != r['cls'] or warned != r['warn'] or len(vals) != len(r['val']):
            return False
        fmt, ev = r['fmt'], r['val']
        if any(isinstance(o, bool) or not isinstance(o, (int, float, Fraction)) for o in vals):
            return False
        if fmt == 'root':
            # signed squares: s * n / d  against  o * |o|
            tgt = [Fraction(s * n, d) for s, n, d in ev]
            scale = max([1] + [abs(t) for t in tgt])
            return all(abs(Fraction(o) * abs(Fraction(o)) - t) <= 2 * TOL * scale for o, t in zip(vals, tgt))
        if fmt == 'turn8':
            return all(abs(o - k * math.pi / 4) <= TOL * math.pi for o, k in zip(vals, ev))
        tgt = [Fraction(e[0], e[1]) for e in ev] if fmt == 'rat' else [Fraction(e) for e in ev]
        if not r['tol'] and (self.exact_operands or fmt == 'int'):
            return all(o == t for o, t in zip(vals, tgt))
        scale = max([1] + [abs(t) for t in tgt])
        return all(math.isfinite(o) and abs(Fraction(o) - t) <= TOL * scale for o, t in zip(vals, tgt))


class VecMathAdapter:
    def __init__(self, desper):
        import importlib
        self.m = importlib.import_module('desper.math')
        self.vec = {2: self.m.Vec2, 3: self.m.Vec3, 4: self.m.Vec4}
        self.mat = {9: self.m.Mat3, 16: self.m.Mat4}
        self.bases = tuple(self.vec.values()) + tuple(self.mat.values())
        # what a program may derive from the library's types: nothing added, nothing overridden
        self.subvec = {n: type('Sub' + c.__name__, (c,), {}) for n, c in self.vec.items()}
        self.submat = {n: type('Sub' + c.__name__, (c,), {}) for n, c in self.mat.items()}
        self.op = None
        self.rows = 0
        self.sub_every = SUB_EVERY

    def reset(self, st):
        self.op = st['op']

    # -- operands ---------------------------------------------------------------------------------
    def build(self, kind, v, exact, sub=False):
        num = Fraction if exact else int
        if kind == 'V':
            return (self.subvec if sub else self.vec)[len(v)](*(num(x) for x in v))
        if kind == 'M':
            return (self.submat if sub else self.mat)[len(v)](tuple(num(x) for x in v))
        if kind == 'Q':
            return Fraction(v[0], v[1]) if exact else (v[0] // v[1] if v[0] % v[1] == 0 else v[0] / v[1])
        if kind == 'I':
            return num(v)
        if kind == 'K':
            return v * math.pi / 2
        if kind == 'S':
            return ''.join(v)
        if kind == 'R':
            # float entries only when they are exact (denominator a power of two): otherwise the float determinant of
            # a singular matrix is rounding noise and the expected 'unchanged' answer would not be well defined
            d, sc = v
            mat4 = self.submat[16] if sub else self.m.Mat4
            if exact or sc & (sc - 1):
                return mat4(tuple(Fraction(x, sc) for x in d))
            return mat4(tuple(x / sc for x in d))
        if kind == 'B':
            return tuple(num(x) for x in v)
        return v

    def call(self, op, args, exact, sub=False):
        """Observation (class name, entries, warned) of one evaluation on the real classes."""
        kinds, fn = OPS[op]
        with warnings.catch_warnings(record=True) as caught:
            warnings.simplefilter('always')
            try:
                r = fn(self.m, *(self.build(k, v, exact, sub) for k, v in zip(kinds, args)))
            except Exception as ex:  # noqa: compared by class name
                return ('exc', (type(ex).__name__,), False)
        warned = bool(caught)
        if isinstance(r, tuple):
            # the library class the result is an instance of (the result of an operation on subclass operands may
            # be of either class); anything else - a bare tuple - goes by its own name
            cls = next((b.__name__ for b in self.bases if isinstance(r, b)), type(r).__name__)
            return (cls, tuple(r), warned)
        return ('num', (r,), warned)

    def call_facet(self, op, args, facet):
        return self.call(op, args, facet != 'int', facet == 'sub')

    # -- replay protocol --------------------------------------------------------------------------
    def step(self, name, args, pre):
        self.rows += 1
        self.with_sub = self.rows % self.sub_every == 0
        obs = {'int': self.call(pre['op'], pre['args'], False), 'frac': self.call(pre['op'], pre['args'], True)}
        if self.with_sub:
            obs['sub'] = self.call(pre['op'], pre['args'], True, True)
        return obs

    def expect(self, name, args, pre, post):
        exp = {'int': Expect(post['res'], False), 'frac': Expect(post['res'], True)}
        if self.with_sub:
            exp['sub'] = Expect(post['res'], True)
        return exp

    def finish(self, stats):
        k = 'op:' + self.op
        stats.extra[k] = stats.extra.get(k, 0) + 1

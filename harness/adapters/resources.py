"""Adapter: spec/Resources.tla  <->  desper.model.tree (Handle, ResourceMap, StaticResourceMap from the working tree).

Pool ids of the model are bound to real objects (`is` comparisons only).  A map the real code creates for an
intermediate key part is bound to the id the model allocates for it (least id that denotes no live object —
the same rule as `Fresh` in the module), so back-links of implicit maps are observable like any other.

Two observation modes:
  probe=True   (C11) after every step *every* path is read through every access path ([], chained [], get()());
               all handles are cleared before each read so that the one load() that runs names the handle —
               values such as None / 0 / '' cannot be told apart by identity.  Cache facets are not compared.
  probe=False  (C12, C17) only what does not load is observed after each step (get, back-links, Handle.cached,
               load counts, the snapshot through .get); loading accesses are actions of the specification.

What load() returns is nothing the intended model depends on (`kind` only names it): the instance fixes one
assignment of value kinds to handles, each replay pass shifts it (kind_shift) and every second behaviour an adapter
replays rotates it one kind further (KINDS: None, 0, '', [], an object with hostile __bool__/__eq__, and values of the
library's own types - a ResourceMap holding a handle ("pack"), a Handle, a World).  Whatever it is, every access path
must hand out the identical object.

The handles are instances of Handle subclasses of three flavours: plain, sized (`__len__`, empty for now: a playlist
that has no tracks yet) and switched (`__bool__`, False: "not ready").  A handle is a handle whatever its truth
value; every other behaviour an adapter replays uses plain handles only, the others mix the flavours (FLAVOURS).
"""
import keyword

from ..replay import guarded, exc_name
from ..tla import fmap

SENTINEL = object()


class Weird:
    """A loaded value that cannot be tested for truth and equals everything."""

    def __bool__(self):
        raise RuntimeError('truth value of a loaded resource was probed')

    def __eq__(self, other):
        return True

    __hash__ = object.__hash__


def _pack(desper):
    """A resource that is itself a map of resources (an archive unpacked by its handle).  Its only name is none of
    the names the harness reads through the tree."""
    m = desper.ResourceMap()
    m['packed'] = desper.Handle()
    return m


# value kind -> maker(desper); the last three are values of the library's own types
MAKERS = {'None': lambda d: None, 'zero': lambda d: 0, 'str': lambda d: '', 'list': lambda d: [], 'weird': lambda d: Weird(),
          'rmap': _pack, 'handle': lambda d: d.Handle(), 'world': lambda d: d.World()}
KINDS = ['None', 'zero', 'str', 'list', 'weird', 'rmap', 'handle', 'world']

# concrete spelling of the model's names "a", "b" for each lexical class
REAL = {
    'plain': ('a', 'b'), 'under': ('_a', '_b'), 'private': ('__a', '__b'), 'dunder': ('__a__', '__b__'),
    'keyword': ('class', 'import'), 'const': ('None', 'True'), 'nonascii': ('über', 'ñandú'),
    'space': ('a b', 'b a'), 'dot': ('a.b', 'b.a'), 'digit': ('1', '2'),
}


class LoadFault(Exception):
    """What the harness handle's load() raises when the specification arms a fault."""


class Among:
    """Expected value of a `val` outcome: the returned object is the tok-th product of handle h."""

    def __init__(self, h, tok):
        self.want = (h, tok)

    def __call__(self, obs):
        return isinstance(obs, tuple) and obs[0] == 'val' and self.want in obs[1]

    def __repr__(self):
        return "('val', {... %r ...})" % (self.want,)


class Raises:
    """Expected value of an outcome the property only describes as 'raises'."""

    def __call__(self, obs):
        return isinstance(obs, tuple) and obs[0] == 'exc'

    def __repr__(self):
        return "('exc', <any>)"


class Detached:
    """Expected links of the former direct children of a cleared map (children outside `want` are not compared)."""

    def __init__(self, want):
        self.want = want

    def __call__(self, obs):
        got = {c: (p, k) for c, p, k in obs}
        return all(got.get(c) == v for c, v in self.want.items())

    def __repr__(self):
        return repr(sorted((c,) + v for c, v in self.want.items()))


class Links:
    """Expected (map, name, kind, child, child.parent, child.key) entries; back-links at `stale` places are free."""

    def __init__(self, want, stale):
        self.want, self.stale = want, stale

    def _mask(self, entries):
        return sorted(e[:4] + ('*', '*') if (e[0], e[1], e[3]) in self.stale else tuple(e) for e in entries)

    def __call__(self, obs):
        return self._mask(obs) == self._mask(self.want)

    def __repr__(self):
        return repr(self._mask(self.want))


class Env:
    pass


# flavour of handle number i (h1, h2, ...) in mix k: 'p' plain, 'l' __len__ -> 0, 'b' __bool__ -> False
FLAVOURS = ('p', 'l', 'b')
N_MIXES = 4


def flavour_of(mix, i):
    """Mix 0: every handle plain.  Mixes 1..3: the flavours rotated, so that every handle has every flavour once and
    truthy and falsy handles meet in one tree."""
    return 'p' if mix == 0 else FLAVOURS[(i + mix) % 3]


class ResourcesAdapter:
    def __init__(self, desper, probe=False, depth=2, kind_shift=0, keep_snap=0, mix=None, rot=None):
        self.desper = desper
        self.probe = probe
        # KeepSnap of the instance: the snapshot is kept (and read) through that many changes of the tree
        self.keep_snap = keep_snap
        # which handles have a false truth value: fixed (--replay tries each mix), or by the number of the
        # behaviour this adapter replays: 0, 1, 0, 2, 0, 3, ... (deterministic: one adapter per chunk of paths)
        self.mix = mix
        self.nreset = 0
        # The value kind matters to the code only if it is wrong, and not at all to the intended model: the dumped
        # instance fixes one assignment, each replay pass rotates it (None -> 0 -> '' -> [] -> weird -> a map -> a
        # handle -> a world -> None) by kind_shift, and within a pass it moves on by one every second behaviour of
        # this adapter (rot=None; so that each kind meets plain and falsy handles) or by the fixed `rot`
        # (--replay tries each; the recorder, whose trace header names the kinds, passes 0)
        self.kind_shift = kind_shift
        self.rot = rot
        self.depth = depth          # MaxDepth of the instance (not a state variable)
        self.paths = None
        self._exp_cache = {}
        self.ResourceMap = desper.ResourceMap
        self.Handle = desper.Handle
        env_ref = self

        class RMap(desper.ResourceMap):
            """Maps made by the program (implicit ones are whatever __setitem__ makes)."""

        class RHandle(desper.Handle):
            def __init__(self, name, kind):
                self.name = name
                self.kind = kind
                self.products = []

            def load(self):
                env = env_ref.env
                env.seen.append((self.name, bool(self.cached)))     # what the handle says about itself mid-load
                if self.name in env.armed:
                    env.armed.discard(self.name)
                    raise LoadFault()
                env.loaded.append(self.name)
                v = MAKERS[self.kind](desper)
                self.products.append(v)
                return v

        class RHandleSized(RHandle):
            def __len__(self):
                return 0

        class RHandleSwitched(RHandle):
            def __bool__(self):
                return False

        self.RMap, self.RHandle = RMap, RHandle
        self.flavours = {'p': RHandle, 'l': RHandleSized, 'b': RHandleSwitched}

    # ------------------------------------------------------------------------------------------
    def reset(self, init):
        env = self.env = Env()
        env.loaded = []
        env.seen = []
        env.armed = set()
        env.order = sorted(fmap(init['maps']))                     # 'm0' < 'm1' < ...: MapOrder
        env.maps = {m: self.RMap() for m in env.order}
        self.nreset += 1
        env.mix = self.mix if self.mix is not None else (0 if self.nreset % 2 else (self.nreset // 2 - 1) % (N_MIXES - 1) + 1)
        env.rot = self.rot if self.rot is not None else (self.nreset - 1) // 2
        env.handles = {h: self.flavours[flavour_of(env.mix, i)](h, KINDS[(KINDS.index(k) + self.kind_shift + env.rot) % len(KINDS)])
                       for i, (h, k) in enumerate(sorted(fmap(init['kind']).items()))}
        env.snaps = {}                                             # map id -> snapshot node mirroring it
        cls = fmap(init['cls'])
        env.real = {n: REAL[c][0 if n == 'a' else 1] for n, c in cls.items()}
        env.cls = dict(cls)
        env.names = sorted(cls)
        env.abstract = {r: n for n, r in env.real.items()}
        sep = self.ResourceMap.split_char
        env.probes = [('/'.join(p), sep.join(env.real.get(n, n) for n in p), [env.real.get(n, n) for n in p])
                      for p in self._paths()]
        env.probes1 = [p for p in env.probes if '/' not in p[0]]
        # white-box facets only while the attributes they read exist
        self.wb = hasattr(env.maps[env.order[0]], 'handles') and hasattr(env.maps[env.order[0]].handles, 'maps')

    def finish(self, stats):
        """Evidence only: how many replayed behaviours had a handle loading each kind of value."""
        for k in {h.kind for h in self.env.handles.values()}:
            stats.extra['behaviours_loading_' + k] = stats.extra.get('behaviours_loading_' + k, 0) + 1

    def _paths(self):
        """Probe paths: every path over the alphabet up to the depth bound, plus names that are never assigned."""
        if self.paths is None:
            names = self.env.names
            ps = layer = [(n,) for n in names]
            for _ in range(self.depth - 1):
                layer = [p + (n,) for p in layer for n in names]
                ps = ps + layer
            self.paths = ps + [('zz',), (names[0], 'zz'), ('zz', names[0]), ('',)]
        return self.paths

    def _key(self, path):
        r = self.env.real
        return self.ResourceMap.split_char.join(r.get(n, n) for n in path)

    # -- identity -----------------------------------------------------------------------------
    def _val(self, v):
        """Which load product is v?  All (handle, serial) pairs it is identical to."""
        out = set()
        for hn, h in self.env.handles.items():
            for k, p in enumerate(h.products):
                if p is v:
                    out.add((hn, k + 1))
        return frozenset(out)

    def _classify(self, v):
        """Outcome of a reading access that returned v."""
        for k, o in self.env.maps.items():
            if o is v:
                return ('map', k)
        for k, o in self.env.snaps.items():
            if o is v:
                return ('snap', k)
        for k, o in self.env.handles.items():
            if o is v:
                return ('handle', k)
        if v is SENTINEL:
            return ('default',)
        return ('val', self._val(v))

    # -- the calls ---------------------------------------------------------------------------
    def _bind_implicit(self, m, path, node, pre):
        """Bind the maps __setitem__ made for intermediate key parts to the ids `Fresh` allocates."""
        env = self.env
        maps = {k: dict(fmap(v)) for k, v in fmap(pre['maps']).items()}
        layers = {k: [dict(fmap(l)) for l in _seq(v)] for k, v in fmap(pre['layers']).items()}
        cur_id, cur = m, env.maps[m]
        for n in path[:-1]:
            nxt = getattr(cur, 'maps', {}).get(env.real[n]) if cur is not None else None
            if n in maps[cur_id]:
                cur_id = maps[cur_id][n]
            else:
                held = {c for mm in maps.values() for c in mm.values()}
                held |= {c for ls in layers.values() for l in ls for c in l.values()}
                free = [x for x in env.order[1:] if x not in (m, node) and x not in held
                        and not maps[x] and not any(layers[x])]
                if not free:
                    return          # outside the model's bounds: the label is not enabled, nothing is compared
                maps[cur_id][n] = free[0]
                cur_id = free[0]
                if isinstance(nxt, self.ResourceMap):
                    env.maps[cur_id] = nxt
            cur = nxt if isinstance(nxt, self.ResourceMap) else None

    def _attr(self, node, realname):
        """Attribute access: real attribute syntax where the grammar allows it, getattr otherwise."""
        if realname.isidentifier() and not keyword.iskeyword(realname):
            return eval('s.' + realname, {'s': node})
        return getattr(node, realname)

    def _bind_snapshot(self, snap, src_id):
        """Bind snapshot nodes to the ids of the maps they mirror (walk source and snapshot side by side)."""
        env = self.env
        env.snaps[src_id] = snap
        src = env.maps[src_id]
        ids = self._ids()
        for realname, sub in list(getattr(src, 'maps', {}).items()):
            sid = ids.get(id(sub))
            if sid is None:
                continue
            try:
                node = snap.get(realname)
            except Exception:
                continue
            if isinstance(node, self.desper.StaticResourceMap):
                self._bind_snapshot(node, sid)

    def step(self, name, args, pre):
        env = self.env
        env.loaded = []
        env.seen = []
        maps, handles = env.maps, env.handles
        if name == 'Snapshot' or (name in ('SetItem', 'PushLayer', 'Clear') and pre.get('sage', 0) >= self.keep_snap):
            env.snaps = {}      # a new snapshot replaces the old; the program lets go of one that saw KeepSnap changes
        # resolve the harness's own lookups first: only the real call runs inside `guarded`
        if name == 'SetItem':
            m, key, val = maps[args[0]], self._key(args[1]), (maps[args[2]] if args[2] in maps else handles[args[2]])
            call = lambda: m.__setitem__(key, val)
        elif name == 'PushLayer':
            m = maps[args[0]]
            call = lambda: m.handles.maps.insert(0, {})
        elif name == 'Clear':
            call = maps[args[0]].clear
            try:        # the direct children, as the real map lists them
                kids = list(maps[args[0]].maps.values()) + list(maps[args[0]].handles.values())
            except Exception:
                kids = None
        elif name == 'Seal':
            call = lambda: None
        elif name == 'ArmFault':
            env.armed.add(args[0])
            call = lambda: None
        elif name == 'Call':
            call = handles[args[0]]
        elif name == 'ClearHandle':
            call = handles[args[0]].clear
        elif name == 'Get':
            m, key = maps[args[0]], self._key(args[1])
            call = lambda: m.get(key, SENTINEL)
        elif name == 'GetItem':
            m, key = maps[args[0]], self._key(args[1])
            call = lambda: m[key]
        elif name == 'Snapshot':
            call = maps[args[0]].get_static_map
        elif name in ('SAttr', 'SItem', 'SGet', 'SSetAttr', 'SDelAttr'):
            node, rn = env.snaps[args[0]], env.real[args[1]]
            call = {'SAttr': lambda: self._attr(node, rn), 'SItem': lambda: node[rn], 'SGet': lambda: node.get(rn),
                    'SSetAttr': lambda: setattr(node, rn, object()), 'SDelAttr': lambda: delattr(node, rn)}[name]
        else:
            raise AssertionError('unknown action ' + name)

        v, ex = guarded(call)
        if name == 'SetItem':
            self._bind_implicit(args[0], args[1], args[2], pre)
        if ex is not None:
            ret = ('exc', exc_name(ex))
        elif name == 'Snapshot':
            if isinstance(v, self.desper.StaticResourceMap):
                self._bind_snapshot(v, args[0])
                ret = ('snap', args[0])
            else:
                ret = ('?', type(v).__name__)
        elif name in ('Call', 'Get', 'GetItem', 'SAttr', 'SItem', 'SGet'):
            ret = self._classify(v)
        else:
            ret = ('ok',) if v is None else ('?', type(v).__name__)
        del ex
        obs = {'ret': ret, 'loaded': tuple(sorted(env.loaded)), 'seen_in_load': tuple(sorted(env.seen))}
        if name == 'Clear':
            mp = maps[args[0]]
            obs['empty_after_clear'] = (not mp.maps) and (not mp.handles)
            if kids is not None:
                ids = self._ids()
                obs['detached'] = tuple(sorted((ids.get(id(c), '?'), ids.get(id(getattr(c, 'parent', None)), '?'),
                                                'none' if getattr(c, 'key', None) is None
                                                else env.abstract.get(c.key, '?' + str(c.key))) for c in kids))
        self._observe(obs)
        return obs

    # -- observation ---------------------------------------------------------------------------
    # Denotation facets are sorted tuples (map, 'a/b', kind, id) of the paths that denote something
    # (kind 'h' handle / 'm' map / 'exc' unexpected exception / '?' unknown object); absent paths are left out.

    def _ids(self):
        """Identity map object -> pool id (keys are id() of live objects: `is` with a dictionary)."""
        env = self.env
        d = {id(o): k for k, o in env.maps.items()}
        d.update((id(o), k) for k, o in env.handles.items())
        d[id(None)] = 'none'
        return d

    def _loaded_den(self, v, ids):
        """A read returned v right after all handles were cleared: the one load() that ran names the handle."""
        env = self.env
        k = ids.get(id(v))
        if k is not None and k in env.maps:
            return ('m', k) if not env.loaded else ('?', 'map+load')
        if len(env.loaded) == 1:
            h = env.handles[env.loaded[0]]
            return ('h', h.name) if h.products and h.products[-1] is v else ('?', 'foreign value')
        return ('?', 'loads=%d' % len(env.loaded))

    def _observe(self, obs):
        env = self.env
        ids = self._ids()
        maps = sorted(env.maps.items())
        handles = list(env.handles.values())
        Handle = self.Handle
        # a map whose tables are empty is read through the one-name paths only (nothing can be below them)
        plan = []
        for mid, m in maps:
            try:
                empty = not m.maps and not m.handles
            except Exception:
                empty = False
            plan.append((mid, m, env.probes1 if empty else env.probes))
        # get(path, SENTINEL): never loads
        out = []
        for mid, m, probes in plan:
            for pstr, key, _parts in probes:
                try:
                    v = m.get(key, SENTINEL)
                except Exception as ex:     # noqa
                    out.append((mid, pstr, 'exc', type(ex).__name__))
                    continue
                if v is not SENTINEL:
                    k = ids.get(id(v))
                    out.append((mid, pstr, '?', type(v).__name__) if k is None or k == 'none' else
                               (mid, pstr, 'm' if k in env.maps else 'h', k))
        obs['den_get'] = tuple(sorted(out))
        # back-links of everything reachable by walking the real tables
        links, seen = [], set()
        for mid, m in maps:
            self._walk_links(mid, m, links, seen, ids)
        obs['links'] = tuple(sorted(links))
        # white box (skipped when the attributes are gone): the ChainMap layers
        ab = env.abstract
        try:
            obs['wb_layers'] = tuple((mid, tuple(tuple(sorted((ab.get(k, k), ids.get(id(h), '?')) for k, h in l.items()))
                                                 for l in m.handles.maps)) for mid, m in maps)
        except Exception:
            obs['wb_layers'] = None
        if self.probe:
            item, chain, call = [], [], []
            for mid, m, probes in plan:
                for pstr, key, parts in probes:
                    # m['a/b']
                    for h in handles:
                        h.clear()
                    env.loaded = []
                    try:
                        v = m[key]
                    except KeyError:
                        pass
                    except Exception as ex:     # noqa
                        item.append((mid, pstr, 'exc', type(ex).__name__))
                    else:
                        item.append((mid, pstr) + self._loaded_den(v, ids))
                    # m['a']['b']: a handle in the middle is loaded and its value indexed — some error, any class
                    # (for a one-name path this is the very call made above)
                    if len(parts) == 1:
                        if item and item[-1][:2] == (mid, pstr) and item[-1][2] != 'exc':
                            chain.append(item[-1])
                    else:
                        for h in handles:
                            h.clear()
                        env.loaded = []
                        try:
                            v = m
                            for k1 in parts:
                                v = v[k1]
                        except Exception:           # noqa
                            pass
                        else:
                            chain.append((mid, pstr) + self._loaded_den(v, ids))
                    # m.get('a/b')()  (a map is not called; the default None means absent)
                    env.loaded = []
                    try:
                        v = m.get(key)
                        if v is None:
                            continue
                        if isinstance(v, Handle):
                            for h in handles:
                                h.clear()
                            v = v()
                    except Exception as ex:     # noqa
                        call.append((mid, pstr, 'exc', type(ex).__name__))
                    else:
                        call.append((mid, pstr) + self._loaded_den(v, ids))
            obs['den_item'], obs['den_chain'], obs['den_call'] = tuple(sorted(item)), tuple(sorted(chain)), tuple(sorted(call))
        else:
            obs['cached'] = {hn: h.cached for hn, h in env.handles.items()}
            obs['nloads'] = {hn: len(h.products) for hn, h in env.handles.items()}
        # the snapshot, through get (does not load)
        sm = []
        for sid, node in sorted(env.snaps.items()):
            sids = {id(o): k for k, o in env.snaps.items()}
            for n in env.names + ['zz']:
                try:
                    v = node.get(env.real.get(n, n))
                except Exception:               # noqa: absent names raise (AttributeError today)
                    continue
                if id(v) in sids:
                    sm.append((sid, n, 'snap', sids[id(v)]))
                elif ids.get(id(v)) in env.handles:
                    sm.append((sid, n, 'handle', ids[id(v)]))
                else:
                    sm.append((sid, n, '?', type(v).__name__))
        obs['smirror'] = tuple(sm)

    def _walk_links(self, mid, m, links, seen, ids):
        if id(m) in seen:
            return
        seen.add(id(m))
        ab = self.env.abstract
        try:
            subs = list(m.maps.items())
            hs = list(m.handles.items())
        except Exception:
            links.append((mid, '?', 'unreadable', '?', '?', '?'))
            return
        for kind, items in (('m', subs), ('h', hs)):
            for k, c in items:
                cid = ids.get(id(c)) or '?' + type(c).__name__
                par = getattr(c, 'parent', None)
                ck = getattr(c, 'key', None)
                links.append((mid, ab.get(k, '?' + str(k)), kind, cid, ids.get(id(par)) or '?' + type(par).__name__,
                              'none' if ck is None else ab.get(ck, '?' + str(ck))))
                if kind == 'm' and cid.startswith('?') and isinstance(c, self.ResourceMap):
                    self._walk_links(cid, c, links, seen, ids)     # a map the harness could not bind

    # -- expectation ---------------------------------------------------------------------------
    def _expect_state(self, post):
        """Facets that depend on the post-state only (cached per state object: the graph is immortal)."""
        hit = self._exp_cache.get(id(post))
        if hit is not None:
            return hit
        maps = {m: dict(fmap(v)) for m, v in fmap(post['maps']).items()}
        layers = {m: [dict(fmap(l)) for l in _seq(v)] for m, v in fmap(post['layers']).items()}
        vis = {}
        for m, ls in layers.items():
            d = {}
            for l in reversed(ls):
                d.update(l)
            vis[m] = d
        parent, key = fmap(post['parent']), fmap(post['key'])
        den = []
        for m in sorted(maps):
            for pstr, _key, _parts in self.env.probes:
                p = pstr.split('/')
                cur = m
                for n in p[:-1]:
                    cur = maps[cur].get(n)
                    if cur is None:
                        break
                else:
                    if p[-1] in vis[cur]:
                        den.append((m, pstr, 'h', vis[cur][p[-1]]))
                    elif p[-1] in maps[cur]:
                        den.append((m, pstr, 'm', maps[cur][p[-1]]))
        den = tuple(sorted(den))
        links = []
        for m in maps:
            links += [(m, n, 'm', c, parent[c], key[c]) for n, c in maps[m].items()]
            links += [(m, n, 'h', c, parent[c], key[c]) for n, c in vis[m].items()]
        # a place a later assignment superseded: the node records the later place (or a leftover of it) — only the
        # entry itself is compared there
        stale = {(t[0], t[1], t[2]) for t in post['stale']}
        exp = {'den_get': den, 'links': Links(sorted(links), {(m, n, c) for (m, n, _k, c, _p, _q) in links if (m, n, c) in stale}),
               'wb_layers': tuple((m, tuple(tuple(sorted(l.items())) for l in layers[m])) for m in sorted(layers))}
        if self.probe:
            exp['den_item'] = exp['den_chain'] = exp['den_call'] = den
        else:
            exp['loaded'] = tuple(sorted(post['loadedNow']))
            exp['cached'] = dict(fmap(post['cached']))
            exp['nloads'] = dict(fmap(post['gen']))
        sm = []
        root = post['snapRoot']
        if root != 'none':
            # the nodes of the snapshot by its own tables: the map may have moved on since it was taken
            sslot, sdict = fmap(post['sslot']), fmap(post['sdict'])
            ents, todo = {}, [root]
            while todo:
                x = todo.pop()
                if x not in ents:
                    ents[x] = dict(fmap(sdict[x]))
                    ents[x].update(fmap(sslot[x]))
                    todo += [e[1] for e in ents[x].values() if e[0] == 'm']
            for x in sorted(ents):
                ent = ents[x]
                sm += [(x, n, 'handle' if ent[n][0] == 'h' else 'snap', ent[n][1]) for n in self.env.names if n in ent]
        exp['smirror'] = tuple(sm)
        exp['_vis'] = vis
        exp['_layers'] = layers
        exp['_maps'] = maps
        self._exp_cache[id(post)] = exp
        return exp

    def expect(self, name, args, pre, post):
        r = post['ret']
        kind = r[0]
        if kind == 'none':
            ret = ('ok',)
        elif kind == 'val':
            ret = Among(r[1], r[2])
        elif kind in ('map', 'handle', 'snap'):
            ret = (kind, r[1])
        elif kind == 'default':
            ret = ('default',)
        elif kind == 'exc':
            ret = ('exc', r[1]) if r[1] in ('KeyError', 'LoadFault') else Raises()
        else:
            raise AssertionError('unknown ret ' + repr(r))
        exp = {k: v for k, v in self._expect_state(post).items() if k[0] != '_'}
        exp['ret'] = ret
        if not self.probe:
            # during a load (successful or failing) the handle is not cached yet
            exp['seen_in_load'] = tuple(sorted([(h, False) for h in post['loadedNow']] +
                                               [(h, False) for h in pre['armed'] - post['armed']]))
        if not self.wb:
            del exp['wb_layers']
        if name == 'Clear':
            exp['empty_after_clear'] = True
            before = self._expect_state(pre)
            kids = set(before['_maps'][args[0]].values()) | set(before['_vis'][args[0]].values())
            # detached — except a child that was moved elsewhere meanwhile: it keeps recording its new place
            # (and if that place is gone too, no map holds it any more and its links are not compared)
            parent, key = fmap(post['parent']), fmap(post['key'])
            after = self._expect_state(post)
            held = {c for mm in after['_maps'].values() for c in mm.values()} | \
                   {c for ls in after['_layers'].values() for l in ls for c in l.values()}
            own = fmap(pre['parent'])
            exp['detached'] = Detached({c: (parent[c], key[c]) for c in kids if own[c] == args[0] or c in held})
        return exp


def _seq(v):
    """A TLA+ sequence of functions as printed by TLC (tuple; a 1-element sequence of records stays a tuple)."""
    if isinstance(v, tuple):
        return list(v)
    return [v[i] for i in sorted(v)]


FACETS_TREE = {'ret', 'den_get', 'den_item', 'den_chain', 'den_call', 'links', 'empty_after_clear', 'detached'}
FACETS_CACHE = {'ret', 'loaded', 'cached', 'nloads', 'seen_in_load'}
FACETS_STATIC = {'ret', 'smirror', 'loaded'}

"""Adapter: spec/Dispatcher.tla  <->  desper.events.EventDispatcher (real class from the working tree)."""
import gc
import itertools
import weakref

from ..replay import guarded, exc_name, SKIP
from ..tla import fmap


class Boom(Exception):
    pass


METHOD_OF = {'a': 'a', 'b': 'cb_b', 'c': 'c'}      # event 'b' is registered under a renamed method


class Env:
    pass


def make_handler_class(desper, env, name, events, shared=False):
    """Handler class for one handler id, decorated with the real event_handler.
    shared: ONE class for all handlers of the behaviour (name is then the list of all handler ids, events the union of
    their events); each instance carries its own mapping as an instance attribute `__events__` (see reset)."""
    ns = {}

    def make_cb(ev):
        def cb(self, eid, *extra, **kw):
            who = 'None' if self is None else self.name
            sent = env.payloads.get(eid)
            okargs = (sent is not None and len(extra) == len(sent[0]) and all(x is y for x, y in zip(extra, sent[0]))
                      and set(kw) == set(sent[1]) and all(kw[k] is sent[1][k] for k in kw))
            env.log.append((eid, who, ev) if okargs else (eid, who, ev, 'BADARGS'))
            if self is not None and ev == 'a':
                env.behave(self.name)
        cb.__name__ = METHOD_OF[ev]
        return cb

    for ev in events:
        ns[METHOD_OF[ev]] = make_cb(ev)

    # a private event only this handler listens to: the program dispatches it when the handler dies (see _watch) -
    # nobody is left to receive it, so any call shows in the log (with receiver None if the dispatcher is careless)
    def cb_only(self, *a, **kw):
        env.log.append((0, 'None' if self is None else self.name, 'only'))
    ns['cb_only'] = cb_only

    def __hash__(self):
        return 1 if env.equal else env.rank.get(self.name, 0)

    ns['__hash__'] = __hash__
    # handlers are individuals: in every third behaviour all of them compare EQUAL by value (and hash alike), as value
    # objects such as dataclass components do - the dispatcher must still tell them apart
    ns['__eq__'] = lambda self, other: (self is other) or (env.equal and getattr(other, '_verif_handler', False))
    ns['_verif_handler'] = True
    # the truth value of a handler must never matter (an empty container-like component is still a listener)
    ns['__bool__'] = lambda self: not getattr(self, 'falsy', False)
    if shared:
        return type('H_shared', (), ns)
    cls = type('H_' + name, (), ns)
    plain = [e for e in events if METHOD_OF[e] == e]
    renamed = {e: METHOD_OF[e] for e in events if METHOD_OF[e] != e}
    if not events:      # a handler that maps no event declares an EMPTY mapping itself
        cls.__events__ = {}
        return cls
    renamed['only_' + name] = 'cb_only'
    cls = desper.event_handler(*plain, **renamed)(cls)
    return cls


PAYLOADS = [((), {}), ((object(),), {}), ((None, []), {'k': object()}), ((0, ''), {'k': None, 'z': ()})]


class DispatcherAdapter:
    multi = True      # track every model state that explains the observations so far (replay.walk)
    def __init__(self, desper, rank_perms=None):
        self.desper = desper
        self.rank_perms = rank_perms
        self.counter = 0

    # ------------------------------------------------------------------------------------------
    def reset(self, init):
        env = self.env = Env()
        env.log = []
        env.payloads = {}
        env.eid = 0
        env.objs = {}
        env.weak = {}
        env.watch = []
        env.d = self.desper.EventDispatcher()
        env.beh = {h: tuple(b) for h, b in init['beh'].items()}
        env.equal = False
        hs = sorted(init['subs'])
        self.counter += 1
        perms = list(itertools.permutations(range(1, len(hs) + 1)))
        perm = perms[self.counter % len(perms)]
        # spread ranks so that set slots differ: rank r -> r * 7 + 1
        env.rank = {h: perm[i] * 7 + 1 for i, h in enumerate(hs)}
        # in every fourth behaviour all handlers are instances of ONE class and carry their mapping as an instance
        # attribute (a generic listener configured per instance): what a handler listens to is read off the handler
        shared = self.counter % 4 == 2
        if shared:
            scls = make_handler_class(self.desper, env, ','.join(hs), sorted(set().union(*[set(init['subs'][h]) for h in hs])), shared=True)
        for h in hs:
            if shared:
                o = scls()
                o.__events__ = dict({e: METHOD_OF[e] for e in sorted(init['subs'][h])}, **({'only_' + h: 'cb_only'} if init['subs'][h] else {}))
            else:
                cls = make_handler_class(self.desper, env, h, sorted(init['subs'][h]))
                o = cls()
            o.name = h
            o.falsy = (self.counter + hs.index(h)) % 2 == 0
            env.objs[h] = o
            env.weak[h] = weakref.ref(o)
            del o
        env.behave = self._behave
        env.equal = self.counter % 3 == 0
        # a second dispatcher with a listener of every event, kept disabled: nothing that happens to the dispatcher
        # under test may reach it (state is per dispatcher); it is opened and closed again after every call
        bcls = self.desper.event_handler(**{e: 'got' for e in ('a', 'b', 'c')})(
            type('Bystander', (), {'got': lambda self_, *a, **k: env.log.append((0, 'BYSTANDER', 'got'))}))
        env.bystander = bcls()
        env.d2 = self.desper.EventDispatcher()
        env.d2.add_handler(env.bystander)
        env.d2.dispatch_enabled = False
        self.orders = set()

    def _watch(self, h):
        """Program-side death watch, created AFTER the registration: CPython runs the weak reference callbacks of a dying
        object newest first, so this one runs while the dispatcher has not yet forgotten the handler - and dispatches."""
        env = self.env
        d = env.d

        def on_death(_ref, h=h):
            if d.dispatch_enabled:
                d.dispatch('only_' + h)
        env.watch.append(weakref.ref(env.objs[h], on_death))

    def _dispatch(self, e):
        env = self.env
        env.eid += 1
        args, kw = PAYLOADS[env.eid % len(PAYLOADS)]
        env.payloads[env.eid] = (args, kw)
        env.d.dispatch(e, env.eid, *args, **kw)

    def _behave(self, h):
        env = self.env
        kind, tgt = env.beh[h]
        if kind == 'nop':
            return
        if kind == 'raise':
            raise Boom()
        if kind == 'disable':
            env.d.dispatch_enabled = False
        elif kind == 'enable':
            env.d.dispatch_enabled = True
        elif kind == 'add':
            if tgt in env.objs:
                env.d.add_handler(env.objs[tgt])
                self._watch(tgt)
        elif kind == 'remove':
            if tgt in env.objs:
                env.d.remove_handler(env.objs[tgt])
        elif kind == 'drop':
            env.objs.pop(tgt, None)
        elif kind == 'disp':
            self._dispatch(tgt)

    # ------------------------------------------------------------------------------------------
    def step(self, name, args, pre):
        env = self.env
        env.log = []
        d = env.d

        def call():
            if name == 'AddHandler':
                d.add_handler(env.objs[args[0]])
                self._watch(args[0])
            elif name == 'RemoveHandler':
                d.remove_handler(env.objs[args[0]])
            elif name == 'DropRef':
                del env.objs[args[0]]
            elif name == 'Dispatch':
                self._dispatch(args[0])
            elif name == 'SetEnabled':
                d.dispatch_enabled = args[0]
            elif name == 'Clear':
                d.clear()
            else:
                raise AssertionError('unknown action ' + name)

        _v, ex = guarded(call)
        guarded(lambda: (setattr(env.d2, 'dispatch_enabled', True), setattr(env.d2, 'dispatch_enabled', False)))
        en = exc_name(ex)
        ret = 'ok' if ex is None else ('raised' if isinstance(ex, Boom) else en)
        del ex
        if ret != 'ok' or name == 'DropRef' or any(b[0] == 'drop' for b in env.beh.values()):
            gc.collect()
        obs = {
            'ret': ret,
            'log': tuple(env.log),
            'enabled': d.dispatch_enabled,
            'reg': frozenset(h for h, o in env.objs.items() if d.is_handler(o)),
            'alive': frozenset(h for h, w in env.weak.items() if w() is not None),
        }
        # white box (anchors of C04/C10): compared only while the private attributes keep the anchored shape
        try:
            obs['wb_queue'] = tuple(int(it[1][0]) for it in d._event_queue)
        except Exception:
            obs['wb_queue'] = SKIP
        try:
            obs['wb_no_dead_keys'] = all(r() is not None for r in d._handlers)
        except Exception:
            obs['wb_no_dead_keys'] = SKIP
        # listener orders realised (evidence only)
        by_id = {}
        for ent in env.log:
            by_id.setdefault(ent[0], []).append(ent[1])
        for v in by_id.values():
            if len(v) >= 2:
                self.orders.add(tuple(v))
        return obs

    def expect(self, name, args, pre, post):
        exp = {
            'ret': post['ret'],
            'log': tuple(tuple(x) for x in post['log']),
            'enabled': post['enabled'],
            'reg': post['reg'],
            'alive': post['alive'],
        }
        exp['wb_queue'] = tuple(it['id'] for it in post['queue'])
        exp['wb_no_dead_keys'] = True
        return exp

    def finish(self, stats):
        s = stats.extra.setdefault('listener_orders_realised', set())
        s |= {'>'.join(o) for o in self.orders}

"""Adapter: spec/Populator.tla  <->  desper.DirectoryResourcePopulator filling a real desper.ResourceMap.

The directory trees of all scenarios are materialised once (`materialise`, by the parent process, under a
scratch directory it removes); the populator only reads them, so every behaviour and every worker shares them.
A scenario may hold several trees: each call reads the one its `root` names (a base tree, then an overlay).
Special files (paths that exist and are neither directory nor regular file - as rule paths, and as ordinary
entries inside populated directories) are FIFOs made with os.mkfifo or, when their name begins with 'l', symbolic
links to a target that does not exist.
Model values: a name is a tuple of dot-separated parts, a path a tuple of names, relative to the tree's root.
"""
import contextlib
import os
import zlib

from ..replay import guarded, exc_name
from ..tla import fmap, to_tla


def name_str(name):
    return '.'.join(name)


def path_str(path, sep='/'):
    return sep.join(name_str(n) for n in path)


def tree_key(tree):
    return (tree['files'], tree['dirs'], tree['specials'])


def materialise(scenarios, base):
    """Create every distinct tree of `scenarios` under `base`; returns {tree_key: root directory}."""
    roots = {}
    for sc in scenarios:
        for tree in sc['trees']:
            key = tree_key(tree)
            if key in roots:
                continue
            root = os.path.join(base, 't%05d' % len(roots))
            os.mkdir(root)
            for d in sorted(tree['dirs'], key=len):
                os.makedirs(os.path.join(root, path_str(d, os.sep)), exist_ok=True)
            for f in tree['files']:
                with open(os.path.join(root, path_str(f, os.sep)), 'w') as fh:
                    fh.write('x')
            for f in tree['specials']:
                if f[-1][0].startswith('l'):
                    os.symlink('no-such-target', os.path.join(root, path_str(f, os.sep)))
                else:
                    os.mkfifo(os.path.join(root, path_str(f, os.sep)))
            roots[key] = root
    return roots


ARGS = {'0': ((), {}), '1': (('a1',), {}), '2': (('a1', 7), {'kw': 'v'})}     # the model's extra-argument tags


def args_tag(args, kwargs):
    for tag, (a, k) in ARGS.items():
        if tuple(args) == a and dict(kwargs) == k:
            return tag
    return 'BAD%r%r' % (tuple(args), dict(kwargs))


class _Listing:
    """What os.scandir returns, over a list of entries."""

    def __init__(self, entries):
        self.entries = entries

    def __enter__(self):
        return self

    def __exit__(self, *exc):
        return False

    def __iter__(self):
        return iter(self.entries)

    def close(self):
        pass


@contextlib.contextmanager
def listing_order(order):
    """The order in which a directory lists its entries is the file system's business; the specification
    leaves it open, so the harness realises several: 'fs' (as is), 'asc' / 'desc' (by name).  Only code that
    lists directories through os.scandir (glob, os.walk, os.listdir do not all) is steered; the verdict never
    depends on it."""
    if order == 'fs':
        yield
        return
    real = os.scandir

    def scandir(path='.'):
        with real(path) as it:
            entries = sorted(it, key=lambda e: e.name, reverse=order == 'desc')
        return _Listing(entries)
    os.scandir = scandir
    try:
        yield
    finally:
        os.scandir = real


class MapsBetween:
    """Expectation for the set of sub-maps: every directory on the way to an accepted file, nothing that is
    not a directory under (or leading to) a populating rule's directory."""

    def __init__(self, req, ok):
        self.req, self.ok = frozenset(req), frozenset(ok)

    def __call__(self, obs):
        return self.req <= obs <= self.ok

    def __repr__(self):
        return 'at least %s, at most %s' % (sorted(map(path_str, self.req)), sorted(map(path_str, self.ok)))


def candidate_keys(sc):
    """Every key a file (or a special entry) of the tree could be stored under (as is / extension dropped)."""
    ks = set()
    for tree in sc['trees']:
        for p in tree['files'] | tree['specials']:
            ks.add(p)
            if len(p[-1]) > 1:
                ks.add(p[:-1] + (p[-1][:-1],))
    return ks


def columns_of(layers):
    """model `layers` (map path -> sequence of key -> handle) -> {key path: handles, visible one first}."""
    cols = {}
    for m, ls in fmap(layers).items():
        for layer in ls:
            for key, h in fmap(layer).items():
                cols.setdefault(tuple(m) + (key,), []).append((h['c'], h['r'], h['p']))
    return {k: tuple(v) for k, v in cols.items()}


class PopulatorAdapter:
    def __init__(self, desper, roots):
        self.desper = desper
        self.roots = roots
        self.orders = set()
        self.counter = 0

    # ------------------------------------------------------------------------------------------
    def reset(self, init):
        sc = self.sc = init['sc']
        self.variant = zlib.crc32(to_tla(sc).encode())       # stable choice of how the root is passed
        self.counter += 1                                    # a scenario is replayed more than once: vary the listing
        self.order = ('fs', 'asc', 'desc')[(self.variant // 2 + self.counter) % 3]
        self.map = self.desper.ResourceMap()
        # the root may come from the constructor or from the call: alternate, the other one is a decoy (a call
        # that reads another tree than the constructor's names its root in any case)
        # ... and the same directory may be spelled with a trailing separator or a redundant './' (every third replay)
        self.spelling = (self.variant // 7 + self.counter) % 3
        self.ctor_tree = sc['calls'][0]['root'] if self.variant & 1 and sc['calls'] else None
        self.root = self.roots[tree_key(sc['trees'][0])]
        ctor_root = self.spelled(self.ctor_tree) if self.ctor_tree else os.path.join(self.root, 'no-such-root')
        self.all_dirs = frozenset().union(*(t['dirs'] for t in sc['trees']))
        self.pop = self.desper.DirectoryResourcePopulator(ctor_root, nest_on_conflict=sc['cn'],
                                                          trim_extensions=sc['ct'])
        self.n_rules = 0
        self.call = 0
        self.log = []

    def spelled(self, tree_no):
        root = self.roots[tree_key(self.sc['trees'][tree_no - 1])]
        return (root, root + os.sep, os.path.join(root, '.') + os.sep)[self.spelling]

    def _model_path(self, filename):
        rel = os.path.normpath(os.path.relpath(filename, self.root))
        return tuple(tuple(n.split('.')) for n in rel.split(os.sep))

    def _factory(self, r, kind):
        """The handle factory of rule r: a Handle subclass (kind F) or a plain function (kind G). Both record
        what they were called with and stamp the handle with (call, rule, file)."""
        adapter = self
        Handle = self.desper.Handle

        class Rec(Handle):
            def __init__(hself, filename, *args, **kwargs):
                p = adapter._model_path(filename)
                hself.tag = (adapter.call, r, p)
                adapter.log.append((r, p, kind, args_tag(args, kwargs)))

            def load(hself):
                return hself.tag

        if kind == 'F':
            return Rec
        return lambda filename, *args, **kwargs: Rec(filename, *args, **kwargs)

    def _walk(self, m, prefix, cols, maps, raw, depth=0):
        maps.add(prefix)
        layers = list(getattr(m.handles, 'maps', [m.handles]))
        raw[prefix] = tuple(frozenset((k, getattr(h, 'tag', 'ALIEN')) for k, h in layer.items()) for layer in layers)
        for layer in layers:
            for key, h in layer.items():
                cols.setdefault(prefix + (tuple(key.split('.')),), []).append(getattr(h, 'tag', 'ALIEN'))
        if depth < 8:
            for key, sub in m.maps.items():
                self._walk(sub, prefix + (tuple(key.split('.')),), cols, maps, raw, depth + 1)

    def step(self, name, args, pre):
        assert name == 'Call'
        sc = self.sc
        c = self.call = args[0]
        call = sc['calls'][c - 1]
        self.root = self.roots[tree_key(sc['trees'][call['root'] - 1])]        # _model_path: relative to this call's root
        for rule in call['add']:
            self.n_rules += 1
            a, kw = ARGS[rule['args']]
            self.pop.add_rule(path_str(rule['dir'], os.sep), self._factory(self.n_rules, rule['fac']), *a,
                              file_exts=['.' + e for e in sorted(rule['exts'])], **kw)
        self.log = []
        if c in sc['fresh']:                 # the same populator goes on with a new, empty map
            self.map = self.desper.ResourceMap()
        opts = {}
        if call['n'] != 'N':
            opts['nest_on_conflict'] = call['n'] == 'T'
        if call['t'] != 'N':
            opts['trim_extensions'] = call['t'] == 'T'
        if call['root'] != self.ctor_tree:
            opts['root'] = self.spelled(call['root'])
        with listing_order(self.order):
            _v, ex = guarded(lambda: self.pop(self.map, **opts))
        cols, maps, raw = {}, set(), {}
        self._walk(self.map, (), cols, maps, raw)
        self.raw = raw
        get = {}
        self._get_keys = candidate_keys(sc) | set(cols)
        for k in self._get_keys:
            h = self.map.get(path_str(k))
            via_get = getattr(h, 'tag', None if h is None else 'MAP' if isinstance(h, self.desper.ResourceMap) else 'ALIEN')
            try:
                via_item = self.map[path_str(k)]
            except KeyError:
                via_item = None
            get[k] = (via_get, via_item if isinstance(via_item, tuple) else None if via_item is None else 'MAP')
        for k, col in cols.items():          # evidence only: which order glob produced inside a clash group
            same = [t[2][-1] for t in col if t != 'ALIEN' and t[:2] == col[0][:2]] if col[0] != 'ALIEN' else []
            if len(same) > 1:
                self.orders.add('>'.join(name_str(n) for n in same))
        return {
            'exc': exc_name(ex) or 'ok',
            'columns': {k: tuple(v) for k, v in cols.items()},
            'get': get,
            'maps': frozenset(maps),
            'maps_by_get': frozenset(d for d in self.all_dirs
                                     if isinstance(self.map.get(path_str(d)), self.desper.ResourceMap)) | {()},
            'made': tuple(sorted(self.log)),
        }

    def expect(self, name, args, pre, post):
        cols = columns_of(post['layers'])
        between = MapsBetween(post['reqMaps'], post['okMaps'])
        self._model_layers = post['layers']
        return {
            'exc': post['exc'],
            'columns': cols,
            # a key resolves to its visible handle, to the sub-map if it is a directory that became one, or to nothing
            'get': {k: (cols[k][0], cols[k][0]) if k in cols else ('MAP', 'MAP') if k in post['maps'] else (None, None)
                    for k in self._get_keys | set(cols)},
            'maps': between,
            'maps_by_get': between,
            'made': tuple(sorted((m['r'], m['p'], m['f'], m['a']) for m in post['made'])),
        }

    def finish(self, stats):
        s = stats.extra.setdefault('clash_orders_realised', set())
        s |= self.orders
        # evidence only: how often the real layer split equals the model's (it depends on glob order)
        model = {tuple(m): tuple(frozenset((name_str(k), (h['c'], h['r'], h['p'])) for k, h in fmap(layer).items())
                                  for layer in ls) for m, ls in fmap(self._model_layers).items()}
        key = 'raw_layers_equal_model' if model == self.raw else 'raw_layers_differ_from_model'
        stats.extra[key] = stats.extra.get(key, 0) + 1

"""Adapter: spec/Coroutines.tla <-> desper.CoroutineProcessor / CoroutinePromise (real classes)."""
import gc
from fractions import Fraction

from ..replay import guarded, SKIP
from ..tla import fmap

Q = 0.25      # default model time unit (exactly representable); K['_Q'] overrides it per instance


class Env:
    pass


class Boom(Exception):
    pass


class BoomBase(BaseException):
    """What escapes a coroutine body need not be an Exception (KeyboardInterrupt, a control-flow signal of the program)."""


class CoroutinesAdapter:
    multi = True      # where a coroutine joins the line is free in the specification and shows only a frame later

    def __init__(self, desper, K):
        self.desper = desper
        self.K = K
        self.G = list(K['G'])
        self.Q = K.get('_Q', Q)

    def reset(self, init):
        desper = self.desper
        env = self.env = Env()
        env.log = []
        env.proc = desper.CoroutineProcessor()
        env.gens = {}
        env.prom = {}
        self.counter = getattr(self, 'counter', 0) + 1
        env.base_exc = self.counter % 2 == 0
        # Quit and SwitchWorld are raised from coroutine bodies by design (quit_loop(), switch()): in a quarter of the
        # behaviours the exception that escapes a body is one of the library's own control-flow signals
        env.signal = (None, 'switch', None, 'quit')[(self.counter // 2) % 4] if self.counter % 2 else None
        env.last_raised = None

        def escaping():
            if env.base_exc:
                ex = BoomBase()
            elif env.signal == 'switch':
                ex = desper.SwitchWorld(type('H', (desper.Handle,), {'load': lambda self_: desper.World()})())
            elif env.signal == 'quit':
                ex = desper.Quit()
            else:
                ex = Boom()
            env.last_raised = ex
            return ex
        # a wait is a number: in every third behaviour an exact rational (all model times are dyadic, Fraction is exact)
        env.num = (lambda x: Fraction(x)) if self.counter % 3 == 1 else (lambda x: x)
        G = self.G

        def make(g, script):
            idx = G.index(g) + 1

            def body():
                for i, (op, n) in enumerate(script, start=1):
                    if op == 'raise':
                        env.log.append((g, i, '-'))
                        raise escaping()
                    if op == 'y':
                        env.log.append((g, i, '-'))
                        if n > 0:
                            yield env.num(n * self.Q)
                        elif n < 0:
                            yield env.num(n * self.Q)
                        else:
                            yield (None if i % 2 else 0)
                    else:
                        tgt = G[n - 1]
                        try:
                            if op in ('kill', 'kill!'):
                                env.proc.kill(env.gens[tgt])
                                res = 'ok'
                            elif op in ('start', 'start!'):
                                env.prom[tgt] = env.proc.start(env.gens[tgt])
                                res = 'ok'
                            else:
                                res = env.proc.state(env.gens[tgt]).name
                        except ValueError:
                            res = 'ValueError'
                        env.log.append((g, i, res))
                        if not op.endswith('!'):
                            yield None
                env.log.append((g, len(script) + 1, 'return'))
                return 100 + idx
            return body()

        for g in G:
            env.gens[g] = make(g, [tuple(x) for x in self.K['Script'][g]])
        # non-generators are rejected with TypeError (checked once per behaviour)
        te = 0
        for f, a in ((env.proc.start, 42), (env.proc.kill, 'x'), (env.proc.state, None), (env.proc.start, make)):
            try:
                f(a)
            except TypeError:
                te += 1
            except Exception:
                pass
        self.type_errors = te

    def _held(self, gen):
        seen = set()
        stack = [(vars(self.env.proc), 0)]
        while stack:
            o, d = stack.pop()
            if id(o) in seen or d > 4:
                continue
            seen.add(id(o))
            for r in gc.get_referents(o):
                if r is gen:
                    return True
                if isinstance(r, (dict, list, set, tuple, frozenset)) or hasattr(r, '__dict__') or type(r).__name__ in ('deque',):
                    if not isinstance(r, type) and type(r).__name__ not in ('generator', 'module', 'function', 'CoroutineProcessor'):
                        stack.append((r, d + 1))
        return False

    def step(self, name, args, pre):
        env = self.env
        env.log = []
        p = env.proc
        if name == 'Start':
            v, ex = guarded(lambda: p.start(env.gens[args[0]]))
            if ex is None:
                env.prom[args[0]] = v
        elif name == 'Kill':
            v, ex = guarded(lambda: p.kill(env.gens[args[0]]))
        elif name == 'Process':
            v, ex = guarded(lambda: p.process(args[0] * self.Q))
        else:
            raise AssertionError(name)
        ret = 'ok' if ex is None else ('raised' if isinstance(ex, (Boom, BoomBase)) or ex is env.last_raised else type(ex).__name__)
        del ex
        obs = {'ret': ret, 'log': tuple(env.log), 'type_errors': self.type_errors}
        st, pst, pv, held = {}, {}, {}, {}
        for g, gen in env.gens.items():
            try:
                st[g] = p.state(gen).name
            except Exception as e:      # noqa
                st[g] = 'EXC:' + type(e).__name__
            pr = env.prom.get(g)
            if pr is not None:
                try:
                    pst[g] = pr.state.name
                except Exception as e:  # noqa
                    pst[g] = 'EXC:' + type(e).__name__
                pv[g] = 0 if pr.value is None else pr.value
            held[g] = self._held(gen)
        obs['state'] = st
        obs['promise_state'] = pst
        obs['promise_value'] = pv
        obs['held'] = held
        try:
            obs['wb'] = (p._timer / self.Q, tuple('S' if x is None else self._name(x) for x in p._active_queue),
                         frozenset((w.wait_time / self.Q, self._name(w.generator)) for w in p._wait_queue),
                         frozenset(self._name(x) for x in p._kill_queue))
        except Exception:
            obs['wb'] = SKIP
        return obs

    def _name(self, gen):
        for g, x in self.env.gens.items():
            if x is gen:
                return g
        return '?'

    def expect(self, name, args, pre, post):
        gens = fmap(post['gens'])
        state = {g: ('TERMINATED' if gens[g] == 'none' or g in post['kq'] else ('ACTIVE' if gens[g] == 'active' else 'PAUSED'))
                 for g in self.G}
        exp = {'ret': post['ret'],
               'log': tuple(tuple(x) for x in post['log'] if x[2] != 'exhausted'),
               'type_errors': 4,
               'state': state}
        known = set(self.env.prom)
        exp['promise_state'] = {g: state[g] for g in known}
        pval = fmap(post['pval'])
        prom = fmap(post['prom'])
        # the latest promise of g: value of the finished run (0 = None while running / killed / exhausted restart)
        exp['promise_value'] = {g: pval[g] for g in known}
        must_free = {g for g in self.G if gens[g] == 'none'}
        exp['held'] = lambda o, mf=must_free: all(not o[g] for g in mf)
        if True:
            exp['wb'] = lambda o, post=post: (o[0] == post['timer'] and o[1] == tuple(post['aq'])
                                              and o[2] == frozenset((float(d), g) for d, g in post['wh'])
                                              and o[3] == frozenset(post['kq']))
        return exp

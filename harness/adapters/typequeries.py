"""Adapter: spec/TypeQueries.tla <-> desper.World type queries over arbitrary class DAGs (C06)."""
import itertools

from ..replay import guarded
from ..tla import fmap


def build(name_prefix, n, bases, root):
    """Real classes for the DAG; returns {i: cls} or None when Python rejects every base order."""
    cls = {}
    for i in range(1, n + 1):
        bs = sorted(bases[i], reverse=True)
        made = None
        for perm in ([bs] + [list(p) for p in itertools.permutations(bs)][:24]):
            try:
                made = type('%s%d' % (name_prefix, i), tuple(cls[b] for b in perm) or (root,),
                            {'process': lambda self, dt=1: None} if root is not object else {'__bool__': lambda self: False})
                break
            except TypeError:
                continue
        if made is None:
            return None
        cls[i] = made
    return cls


def build_one(name_prefix, i, bases, cls, root):
    bs = sorted(bases[i], reverse=True)
    for perm in ([bs] + [list(p) for p in itertools.permutations(bs)][:24]):
        try:
            return type('%s%d' % (name_prefix, i), tuple(cls[b] for b in perm) or (root,),
                        {'process': lambda self, dt=1: None} if root is not object else {'__bool__': lambda self: False})
        except TypeError:
            continue
    return None


class TypeQueriesAdapter:
    multi = True      # track every model state that explains the observations so far (replay.walk)
    def __init__(self, desper, n):
        self.desper = desper
        self.n = n
        self.rejected = 0
        self.built = 0

    def reset(self, init):
        """Classes 1..N-1 exist from the start; class N (possibly a subclass of them) is defined only after a first
        round of queries, and its instance is attached through create_entity - the way a plugin or a lazily
        imported module behaves.  Components are attached alternately through create_entity and add_component."""
        bases = {i: set(b) for i, b in fmap(init['bases']).items()}
        n = self.n
        for i in range(1, n + 1):
            bases.setdefault(i, set())
        self.skip = False
        C = build('K', n - 1, bases, object)
        P = build('P', n - 1, bases, self.desper.Processor)
        if C is None or P is None:
            self.skip = True
            self.rejected += 1
            return
        w = self.w = self.desper.World()
        self.counter = getattr(self, 'counter', 0) + 1
        for k, i in enumerate(sorted(x for x in init['comps'] if x < n)):
            if (k + self.counter) % 2:
                w.add_component(1, C[i]())
            else:
                w.create_entity(C[i](), entity_id=1)
        # the order and priorities in which processors are added must not matter to by-type lookups: base classes
        # first with equal priorities / subclasses first / subclasses with lower priorities (sorting earlier)
        pmode = self.pmode = self.counter % 3
        for i in sorted((x for x in init['procs'] if x < n), reverse=pmode == 1):
            w.add_processor(P[i](), -i if pmode == 2 else None)
        for cls in C.values():          # a first round of queries before the last class exists
            w.get(cls)
            w.get_component(1, cls)
            w.has_component(1, cls)
        for cls in P.values():
            w.get_processor(cls)
        lastC = build_one('K', n, bases, C, object)
        lastP = build_one('P', n, bases, P, self.desper.Processor)
        if lastC is None or lastP is None:
            self.skip = True
            self.rejected += 1
            return
        C[n], P[n] = lastC, lastP
        if n in init['comps']:
            w.create_entity(C[n](), entity_id=1)
        if n in init['procs']:
            w.add_processor(P[n](), -n if pmode == 2 else None)
        # in every other behaviour a second entity owns one component of exactly every class: whatever it owns must
        # not change what the queries say about entity 1 (and get() lists its components too); without it classes
        # that have no instance anywhere in the world sit between the queried type and the component's type
        self.decoy = self.counter % 2 == 0
        if self.decoy:
            for i in sorted(C):
                w.add_component(2, C[i]())
        self.C, self.P = C, P
        self.built += 1
        self.cn = {c: i for i, c in self.C.items()}
        self.pn = {c: i for i, c in self.P.items()}

    def step(self, name, args, pre):
        if self.skip:
            return {}
        w = self.w
        ret = ('obs', 0, 0)
        if name == 'RemoveComponent':
            r, ex = guarded(lambda: w.remove_component(1, self.C[args[0]]))
            ret = ('comp', args[0], 0 if r is None else self.cn.get(type(r), -1)) if ex is None else ('EXC', type(ex).__name__, 0)
        elif name == 'RemoveProcessor':
            r, ex = guarded(lambda: w.remove_processor(self.P[args[0]]))
            ret = ('proc', args[0], 0 if r is None else self.pn.get(type(r), -1)) if ex is None else ('EXC', type(ex).__name__, 0)
        elif name == 'AddComponent':
            _r, ex = guarded(lambda: w.add_component(1, self.C[args[0]]()))
            ret = ('addc', args[0], args[0]) if ex is None else ('EXC', type(ex).__name__, 0)
        elif name == 'AddProcessor':
            _r, ex = guarded(lambda: w.add_processor(self.P[args[0]](), -args[0] if self.pmode == 2 else None))
            ret = ('addp', args[0], args[0]) if ex is None else ('EXC', type(ex).__name__, 0)
        obs = {'ret': ret}
        obs['get'] = {T: tuple(sorted((e, self.cn.get(type(c), -1)) for e, c in w.get(cls))) for T, cls in self.C.items()}
        gc = {}
        for T, cls in self.C.items():
            r = w.get_component(1, cls)
            gc[T] = 0 if r is None else self.cn.get(type(r), -1)
        obs['get_component'] = gc
        obs['has'] = {T: w.has_component(1, cls) for T, cls in self.C.items()}
        gp = {}
        for T, cls in self.P.items():
            r = w.get_processor(cls)
            gp[T] = 0 if r is None else self.pn.get(type(r), -1)
        obs['get_processor'] = gp
        obs['comps'] = frozenset(self.cn.get(type(c), -1) for c in w.get_components(1))
        obs['processors'] = frozenset(self.pn.get(type(p), -1) for p in w.processors)
        return obs

    def expect(self, name, args, pre, post):
        if self.skip:
            return {}
        n = self.n
        bases = {i: set(b) for i, b in fmap(post['bases']).items()}
        sub = {t: {t} for t in range(1, n + 1)}
        for s in range(1, n + 1):           # classes are numbered in creation order: bases come first
            for t in range(1, n + 1):
                if any(b in sub[t] for b in bases.get(s, ())):
                    sub[t].add(s)
        comps, procs = set(post['comps']), set(post['procs'])

        def single(S):
            g = {}
            for T in range(1, n + 1):
                c = {T} if T in S else (sub[T] & S)
                g[T] = frozenset(c) if c else frozenset({0})
            return lambda o, g=g: set(o) == set(g) and all(o[k] in g[k] for k in g)

        return {
            'ret': tuple(post['last']),
            'get': {T: tuple(sorted([(1, t) for t in sub[T] & comps] + ([(2, t) for t in sub[T]] if self.decoy else [])))
                    for T in range(1, n + 1)},
            'get_component': single(comps),
            'has': {T: bool(sub[T] & comps) for T in range(1, n + 1)},
            'get_processor': single(procs),
            'comps': frozenset(comps),
            'processors': frozenset(procs),
        }

    def finish(self, stats):
        stats.extra['hierarchies_python_rejected'] = stats.extra.get('hierarchies_python_rejected', 0) + self.rejected
        stats.extra['hierarchies_built'] = stats.extra.get('hierarchies_built', 0) + self.built
        self.rejected = self.built = 0

"""Component / processor classes and named objects that world description files refer to by dotted name
(`harness.adapters.wl_types.<Name>`).  Import only after common.import_desper() put the repository on sys.path.

Every instance records its constructor arguments; handler classes append (instance, callback, args, kwargs)
to LOG.  The class names are the `type` strings of spec/WorldLoad.tla (Decl / Prio there mirror this file).

Whether two components / processors / resources compare equal is nothing the statement (or the model) depends on:
in the behaviours for which the adapter sets EQUAL[0] they are value objects of the bluntest sort - every recording
instance equals every other one and they all hash alike (as the World adapter does every third behaviour)."""
import desper

LOG = []
EQUAL = [False]         # set per behaviour by the adapter (worldload.py: load / reset / finish)

OBJ = object()          # target of "${harness.adapters.wl_types.OBJ}"


class Holder:           # "${harness.adapters.wl_types.Holder.inner}": attribute of an attribute
    inner = object()


CREATED = []           # every recording instance, in creation order (the harness mutates their containers)


class Rec:
    def __init__(self, *args, **kwargs):
        self.wl_args = args
        self.wl_kwargs = kwargs
        CREATED.append(self)

    def __eq__(self, other):
        return self is other or (EQUAL[0] and isinstance(other, Rec))

    def __hash__(self):
        return 1 if EQUAL[0] else object.__hash__(self)


def _log(cb):
    def method(self, *args, **kwargs):
        LOG.append((self, cb, args, kwargs))
    method.__name__ = cb
    return method


class CPlain(Rec):
    pass


@desper.event_handler('on_add', 'on_world_load')
class CHandler(Rec):
    on_add = _log('on_add')
    on_world_load = _log('on_world_load')


@desper.event_handler('on_add')
class CAddOnly(Rec):
    on_add = _log('on_add')


@desper.event_handler(on_world_load='loaded')       # renamed callback
class CLoadOnly(Rec):
    loaded = _log('on_world_load')


class _Proc(Rec, desper.Processor):
    def process(self, dt=1):
        pass


class PA(_Proc):
    pass


class PB(_Proc):
    pass


class PADerived(PA):            # a world keeps one processor per EXACT type: PA and PADerived coexist
    pass


class PUpdSub(Rec, desper.OnUpdateProcessor):       # derived from a default processor of file handles
    pass


class PLate(_Proc):
    priority = 5


@desper.event_handler('on_add', 'on_world_load')
class PHandler(_Proc):
    on_add = _log('on_add')
    on_world_load = _log('on_world_load')

"""Adapter: spec/EventDeco.tla  <->  desper.event_handler + desper.EventDispatcher (real code from the working tree).

Classes are built with type() and decorated with the real decorator exactly as the model's Decorate(bases, d) says;
after every step __events__ of EVERY class is read again.  Register/Dispatch use a real EventDispatcher and methods
that log which method, defined by which class, ran on which instance with which argument objects.
"""
from ..replay import guarded, exc_name

# positional / keyword payloads; the callbacks check the *identity* of every object they receive
PAYLOADS = [((), {}), ((object(),), {}), ((None, []), {'k': object()}), ((0, ''), {'k': None, 'z': ()}),
            ((), {'only_kw': object()})]


class Env:
    pass


def effective(st, k):
    """cls.__events__ of class k in a model state: attribute lookup along the linearisation."""
    for c in st['mro'][k - 1]:
        a = st['attr'][c - 1]
        if a:
            return frozenset(st['heap'][a - 1])
    return frozenset()


class EventDecoAdapter:
    def __init__(self, desper):
        self.desper = desper
        self.counter = 0

    def reset(self, init):
        env = self.env = Env()
        self.counter = 0          # per behaviour: payload / empty-decoration choices depend on the history only
        env.classes = []          # index k-1 -> class k
        env.log = []
        env.d = None
        env.inst = None
        env.sent = None

    # ------------------------------------------------------------------------------------------
    def _method(self, k, name):
        env = self.env

        def method(self_, *args, **kw):
            sent = env.sent
            ok = (self_ is env.inst and sent is not None and len(args) == len(sent[0])
                  and all(x is y for x, y in zip(args, sent[0]))
                  and set(kw) == set(sent[1]) and all(kw[key] is sent[1][key] for key in kw))
            cls = type(self_)
            who = env.classes.index(cls) + 1 if cls in env.classes else 0
            env.log.append((who, name, k) if ok else (who, name, k, 'BADARGS'))
        method.__name__ = name
        return method

    def _decorate(self, bs, d):
        env = self.env
        k = len(env.classes) + 1
        ns = {m: self._method(k, m) for m in sorted(d['defs'])}
        cls = type('C%d' % k, tuple(env.classes[b - 1] for b in bs), ns)
        names, ren = sorted(d['names']), dict(sorted(d['ren']))
        self.counter += 1
        if names or ren or self.counter % 2:      # the empty decoration is applied every other time
            out = self.desper.event_handler(*names, **ren)(cls)
            if out is not cls:
                raise AssertionError('event_handler returned a different class')
        env.classes.append(cls)

    def step(self, name, args, pre):
        env = self.env
        env.log = []

        def call():
            if name == 'Decorate':
                self._decorate(args[0], args[1])
                env.d = env.inst = None
            elif name == 'Register':
                env.d = self.desper.EventDispatcher()
                env.inst = env.classes[args[0] - 1]()
                env.d.add_handler(env.inst)
            elif name == 'Dispatch':
                self.counter += 1
                env.sent = PAYLOADS[(self.counter + len(env.classes) + ord(args[0][0])) % len(PAYLOADS)]
                env.d.dispatch(args[0], *env.sent[0], **env.sent[1])
            else:
                raise AssertionError('unknown action ' + name)

        _v, ex = guarded(call)
        obs = {'ret': 'ok' if ex is None else exc_name(ex)}
        del ex
        obs['log'] = tuple(env.log)
        obs['n'] = len(env.classes)
        # every class again, not only the new one: "without altering the bases"
        obs['events'] = tuple(frozenset(dict(getattr(c, '__events__', {})).items()) for c in env.classes)
        obs['mro'] = tuple(tuple(env.classes.index(c) + 1 for c in cls.__mro__ if c in env.classes)
                           for cls in env.classes)
        obs['is_handler'] = None if env.d is None else env.d.is_handler(env.inst)
        try:        # white box: compared only while the private table keeps the anchored shape
            ev = env.d._events
            obs['wb_table'] = frozenset((e, getattr(f, '__name__', '?')) for e, s in ev.items() for (_r, f) in set(s))
        except Exception:
            from ..replay import SKIP
            obs['wb_table'] = SKIP
        return obs

    def expect(self, name, args, pre, post):
        n = len(post['bases'])
        exp = {'ret': 'ok',
               'log': tuple(tuple(x) for x in post['log']),
               'n': n,
               'events': tuple(effective(post, k) for k in range(1, n + 1)),
               'mro': tuple(tuple(m) for m in post['mro']),
               'is_handler': True if post['reg'] else None}
        if post['reg']:
            exp['wb_table'] = frozenset((e, m) for (e, m, _c) in post['table'])
        return exp

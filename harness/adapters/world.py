"""Adapter: spec/World.tla  <->  desper.World (real class from the working tree).

The constants of the TLC instance are Python values (K) shared with the cfg generator, so the class
hierarchy, the component instances and their handler declarations are built from the same data TLC used.
"""
from collections import Counter

from ..replay import guarded, SKIP
from ..tla import fmap


class Boom(Exception):
    pass


def topo(types, bases):
    out, seen = [], set()

    def visit(t):
        if t in seen:
            return
        for b in sorted(bases[t]):
            visit(b)
        seen.add(t)
        out.append(t)
    for t in sorted(types):
        visit(t)
    return out


def sub_of(types, bases):
    sub = {t: {t} for t in types}
    changed = True
    while changed:
        changed = False
        for s in types:
            for b in bases[s]:
                for t in types:
                    if b in sub[t] and s not in sub[t]:
                        sub[t].add(s)
                        changed = True
    return sub


class Env:
    pass


class CompStore:
    """Component instances by model name.  In weak mode the harness keeps no strong reference: an instance lives
    exactly as long as the world holds it, and a name that is attached again gets a fresh instance."""

    def __init__(self, factory, names, weak):
        import weakref
        self._weakref = weakref
        self.factory, self.weak = factory, weak
        self.refs, self.strong = {}, {}
        if not weak:
            for n in names:
                self.strong[n] = factory(n)

    def __getitem__(self, n):
        if not self.weak:
            return self.strong[n]
        r = self.refs.get(n)
        o = r() if r is not None else None
        if o is None:
            o = self.factory(n)
            self.refs[n] = self._weakref.ref(o)
        return o

    def items(self):
        if not self.weak:
            return list(self.strong.items())
        return [(n, r()) for n, r in self.refs.items() if r() is not None]


_ALIAS = {}      # model id -> the (falsy) Python identifier standing for it in the current behaviour, see reset()


def pyid(e):
    """Model entity ids are integers; ids >= 100 stand for non-integer hashables."""
    if e in _ALIAS:
        return _ALIAS[e]
    if e >= 200:
        return ('t', e)
    if e >= 100:
        return 'e%d' % e
    return e


def modelid(x):
    for k, v in _ALIAS.items():
        if type(x) is type(v) and x == v:
            return k
    if isinstance(x, tuple):
        return x[1]
    if isinstance(x, str):
        return int(x[1:])
    return x


class _Quiet(dict):
    """Observation of a step at which the world was deliberately not queried: absent facets are not compared."""
    def get(self, k, default=None):
        return dict.get(self, k, SKIP)


class WorldAdapter:
    multi = True      # track every model state that explains the observations so far (replay.walk)
    needs_pre = ('SetEnabledFault',)
    def __init__(self, desper, K, via=None, controllers=False, weak=False):
        """via: list of access modes to rotate over behaviours: 'world' (plain World calls), 'ctrl' (Controller methods),
        'func' (module-level shorthands), 'ref' (ComponentReference / ProcessorReference descriptors).
        controllers: component classes derive from desper.Controller (C19: a Controller knows its entity and world)."""
        self.modes = list(via or ['world'])
        self.controllers = controllers
        self.weak = weak        # C10: the world holds the only strong reference to attached components
        self.counter = 0
        self.desper = desper
        self.K = K
        self.sub = sub_of(K['Types'], K['Bases'])
        self.psub = sub_of(K['PTypes'], K['PBases']) if K['PTypes'] else {}
        self.all_ids = sorted(set(K['Ids']) | set(range(1, K['MaxAuto'] + 1)))

    # ------------------------------------------------------------------------------------------
    def reset(self, init):
        K, desper = self.K, self.desper
        env = self.env = Env()
        env.log = []
        env.fault = None
        env.killer = None
        env.remover = None
        env.probe_killer = None
        env.reentrant = None
        env.w = desper.World()
        env.step_no = 0
        env.quiet = 3 if (self.counter % 5 == 3 and getattr(self, 'allow_quiet', True)) else 0
        # reading the world from a lifecycle callback is everyday code and has no effect: in every other behaviour (outside
        # the quiet prefixes) each on_add / on_remove of a component queries every type before doing anything else
        env.look = self.counter % 2 == 0 and not env.quiet
        env.looks = 0
        env.blog = []
        bcomp = desper.event_handler('on_add', 'on_remove', 'probe')(
            type('ByComp', (), {'on_add': lambda s_, e, w_: env.blog.append('on_add'), 'on_remove': lambda s_, e, w_: env.blog.append('on_remove'),
                                'probe': lambda s_, *a: env.blog.append('probe')}))
        env.w2 = desper.World()
        env.w2.dispatch_enabled = False
        env.w2.create_entity(bcomp(), entity_id='bystander')
        env.w2.add_processor(type('ByProc', (desper.Processor,), {'process': lambda s_, dt: None})())
        self.counter += 1
        # an identifier is any hashable: in half of the behaviours the highest user-supplied id (one the automatic
        # counter never reaches) is a FALSY one - 0 or '' - which must behave like any other
        _ALIAS.clear()
        top = max(K['Ids']) if K['Ids'] else 0
        if top > K['MaxAuto'] and self.counter % 4 in (1, 3):
            _ALIAS[top] = 0 if self.counter % 4 == 1 else ''
        self.mode = self.modes[self.counter % len(self.modes)]
        controllers = self.controllers

        def lifecycle(cb):
            def m(self, entity, world):
                if self is None:
                    env.log.append((cb, 'None', modelid(entity)))
                    return
                if env.look and world is env.w:
                    env.looks += 1
                    for t in env.types.values():
                        world.get(t)
                if controllers and cb == 'on_add':
                    desper.Controller.on_add(self, entity, world)
                if env.killer and env.killer[0] == self.name and cb == 'on_remove':
                    victim, immediate = env.killer[1], env.killer[2]
                    always = len(env.killer) > 3
                    env.killer = None
                    if always or world.get_components(victim):
                        world.delete_entity(victim, immediate=immediate)
                if env.reentrant and env.reentrant[1] == self.name and cb == 'on_remove' and env.reentrant[0] == 'disable_on_remove':
                    env.reentrant = None
                    env.log.append((cb, self.name, modelid(entity)) if world is env.w else (cb, self.name, modelid(entity), 'WRONGWORLD'))
                    world.dispatch_enabled = False
                    return
                if env.reentrant and env.reentrant[1] == self.name and cb == 'on_add' and env.reentrant[0] != 'disable_on_remove':
                    what = env.reentrant[0]
                    env.reentrant = None
                    env.log.append((cb, self.name, modelid(entity)) if world is env.w else (cb, self.name, modelid(entity), 'WRONGWORLD'))
                    if what == 'selfremove':
                        world.remove_component(entity, type(self))
                    else:
                        world.dispatch_enabled = False
                    return
                env.log.append((cb, self.name, modelid(entity)) if world is env.w else (cb, self.name, modelid(entity), 'WRONGWORLD'))
                if env.fault == (cb, self.name):
                    env.fault = None
                    raise Boom()
            return m

        def probe(self, tok):
            env.log.append(('probe', 'None' if self is None else self.name, tok))
            if self is not None and env.probe_killer and env.probe_killer[0] == self.name:
                victim = env.probe_killer[1]
                env.probe_killer = None
                if env.w.get_components(victim):
                    env.w.delete_entity(victim, immediate=True)

        # components are individuals: in every third behaviour all of them compare EQUAL by value and hash alike (value
        # objects, e.g. dataclass components) - the world and its dispatcher must still tell them apart
        env.equal = self.counter % 3 == 0
        base_ns = {'on_add': lifecycle('on_add'), 'on_remove': lifecycle('on_remove'), 'probe': probe,
                   '__bool__': lambda self: not getattr(self, 'falsy', False),
                   '__eq__': lambda self, other: (self is other) or (env.equal and hasattr(other, '_verif_component')),
                   '__hash__': lambda self: 1 if env.equal else id(self) >> 4,
                   '_verif_component': True}
        env.types = {}
        for t in topo(K['Types'], K['Bases']):
            root = (desper.Controller,) if controllers else (object,)
            bs = tuple(env.types[b] for b in sorted(K['Bases'][t])) or root
            env.types[t] = type(t, bs, dict(base_ns) if bs == root else {})
            if controllers and bs != root and self.counter % 2:
                # a decorated leaf below an UNDECORATED intermediate class (Controller <- project base <- leaf with an
                # event of its own): the mapping inherited through the gap - Controller's on_add - must survive
                leaf = type(t + '_leaf', (env.types[t],), {'verif_unused': lambda self, *a, **k: None})
                env.types[t] = desper.event_handler('verif_unused')(leaf)
        def make_comp(c):
            o = env.types[K['TypeOf'][c]]()
            o.name = c
            o.falsy = c in K.get('_Falsy', ())      # a component whose truth value is False (empty container-like)
            if K['Decl'][c] and not controllers:
                o.__events__ = {ev: ev for ev in sorted(K['Decl'][c])}
            return o

        env.comps = CompStore(make_comp, sorted(K['Comps']), weak=self.weak)
        # a holder class with one reference descriptor per component / processor type (mode 'ref')
        env.holders = {}
        env.ctrls = {}

        def p_on_add(self):
            env.seen_processors = env.w.processors      # reading the world from a lifecycle callback is everyday code
            env.log.append(('on_add', self.name, -1))
            if env.fault == ('on_add', self.name):
                env.fault = None
                raise Boom()

        def p_on_remove(self):
            env.seen_processors = env.w.processors
            env.log.append(('on_remove', self.name, -1))

        def p_process(self, dt):
            env.log.append(('process', self.name, dt))
            if env.remover and env.remover[0] == self.name:
                victim_type = env.remover[1]
                env.remover = None
                self.world.remove_processor(env.ptypes[victim_type])
            if env.fault == ('process', self.name):
                env.fault = None
                raise Boom()

        env.ptypes = {}
        for t in topo(K['PTypes'], K['PBases']) if K['PTypes'] else []:
            bs = tuple(env.ptypes[b] for b in sorted(K['PBases'][t])) or (desper.Processor,)
            ns = {'process': p_process, 'on_add': p_on_add, 'on_remove': p_on_remove, 'probe': probe,
                  # like components, processors of every third behaviour all compare equal by value and hash alike
                  '__eq__': lambda self, other: (self is other) or (env.equal and hasattr(other, '_verif_processor')),
                  '__hash__': lambda self: 1 if env.equal else id(self) >> 4, '_verif_processor': True}
            if K['PDefault'][t] != 0 or bs != (desper.Processor,):
                ns['priority'] = K['PDefault'][t]
            env.ptypes[t] = type(t, bs, ns)
        env.procs = {}
        for p in sorted(K['Procs']):
            o = env.ptypes[K['PTypeOf'][p]]()
            o.name = p
            if K['PDecl'][p]:
                o.__events__ = {ev: ev for ev in sorted(K['PDecl'][p])}
            env.procs[p] = o

    # ------------------------------------------------------------------------------------------
    def step(self, name, args, pre):
        env = self.env
        w = env.w
        env.log = []
        env.fault = None
        env.killer = None
        env.remover = None
        env.probe_killer = None
        env.reentrant = None
        kind = ['ok', 0, '-']

        def call():
            if name == 'CreateEntity':
                eid, cs = args
                r = w.create_entity(*[env.comps[c] for c in cs], entity_id=None if eid == -1 else pyid(eid))
                kind[:] = ['id', modelid(r), '-']
            elif name == 'AddComponent':
                self._add_component(pyid(args[0]), env.comps[args[1]])
            elif name == 'RemoveComponent':
                r = self._remove_component(pyid(args[0]), env.types[args[1]])
                kind[:] = ['none', 0, '-'] if r is None else ['comp', 0, getattr(r, 'name', '?')]
            elif name == 'DeleteDeferred':
                self._delete(pyid(args[0]))
            elif name == 'DeleteImmediate':
                w.delete_entity(pyid(args[0]), immediate=True)
            elif name in ('AddProcessor', 'AddProcessorFault'):
                if name == 'AddProcessorFault':
                    env.fault = ('on_add', args[0])
                if args[1] == 999:
                    self._add_processor(env.procs[args[0]])
                else:
                    w.add_processor(env.procs[args[0]], args[1])
            elif name == 'RemoveProcessor':
                r = self._remove_processor(env.ptypes[args[0]])
                kind[:] = ['none', 0, '-'] if r is None else ['proc', 0, getattr(r, 'name', '?')]
            elif name == 'Process':
                w.process(args[0])
            elif name == 'ProcessProcFault':
                env.fault = ('process', args[1])
                w.process(args[0])
            elif name == 'ProcessRemoveFault':
                env.fault = ('on_remove', args[1])
                w.process(args[0])
            elif name == 'ProcessRemover':
                env.remover = (args[1], args[2])
                w.process(args[0])
            elif name == 'ProcessKiller':
                env.killer = (args[1], pyid(args[2]), True)
                w.process(args[0])
            elif name == 'ClearScheduler':
                env.killer = (args[0], pyid(args[1]), False, 'always')
                w.clear()
            elif name == 'ProcessScheduler':
                env.killer = (args[1], pyid(args[2]), False)
                w.process(args[0])
            elif name == 'AddSelfRemoving':
                env.reentrant = ('selfremove', args[1])
                w.add_component(pyid(args[0]), env.comps[args[1]])
            elif name == 'RemoveDisabling':
                env.reentrant = ('disable_on_remove', args[1])
                r = w.remove_component(pyid(args[0]), type(env.comps[args[1]]))
                kind[:] = ['none', 0, '-'] if r is None else ['comp', 0, getattr(r, 'name', '?')]
            elif name == 'CreateDisabling':
                env.reentrant = ('disable', args[1])
                r = w.create_entity(env.comps[args[1]], env.comps[args[2]], entity_id=pyid(args[0]))
                kind[:] = ['id', modelid(r), '-']
            elif name == 'SetEnabledFault':
                it = pre['queue'][args[0] - 1]
                env.fault = (it[0], it[1])
                w.dispatch_enabled = True
            elif name == 'Clear':
                w.clear()
            elif name == 'SetEnabled':
                w.dispatch_enabled = args[0]
            elif name == 'Probe':
                w.dispatch('probe', args[0])
            elif name == 'ProbeKiller':
                env.probe_killer = (args[1], pyid(args[2]))
                w.dispatch('probe', args[0])
            else:
                raise AssertionError('unknown action ' + name)

        _v, ex = guarded(call)
        if ex is not None:
            kind = ['raised' if isinstance(ex, Boom) else type(ex).__name__, 0, '-']
        del ex
        env.fault = None
        return self.observe(tuple(kind), name, args, pre)

    # -- C19: the same calls through the shorthands ------------------------------------------------
    def _ctrl(self, pe):
        c = self.env.ctrls.get(pe)
        if c is None:
            c = self.env.ctrls[pe] = self.desper.controller(pe, self.env.w)
        return c

    def _holder(self, pe, attr_type, kind):
        """One persistent owner object per (entity, type): a reference descriptor may keep per-owner state."""
        key = (pe, attr_type, kind)
        h = self.env.holders.get(key)
        if h is None:
            d = self.desper
            ref = d.ComponentReference(attr_type) if kind == 'c' else d.ProcessorReference(attr_type)
            H = type('Holder', (), {'ref': ref, 'world': self.env.w, 'entity': pe})
            h = self.env.holders[key] = H()
        return h

    def _add_component(self, pe, obj):
        m, d = self.mode, self.desper
        if m == 'ctrl':
            self._ctrl(pe).add_component(obj)
        elif m == 'func':
            d.add_component(self._ctrl(pe), obj)
        elif m == 'ref':
            self._holder(pe, type(obj), 'c').ref = obj
        else:
            self.env.w.add_component(pe, obj)

    def _remove_component(self, pe, cls):
        m, d, w = self.mode, self.desper, self.env.w
        if m == 'ctrl':
            return self._ctrl(pe).remove_component(cls)
        if m == 'func':
            return d.remove_component(self._ctrl(pe), cls)
        if m == 'ref':
            before = list(w.get_components(pe))
            del self._holder(pe, cls, 'c').ref
            after = {id(x) for x in w.get_components(pe)}
            gone = [x for x in before if id(x) not in after]
            return gone[0] if gone else None
        return w.remove_component(pe, cls)

    def _delete(self, pe):
        m, d = self.mode, self.desper
        if m == 'ctrl':
            self._ctrl(pe).delete()
        elif m in ('func', 'ref'):
            d.delete(self._ctrl(pe))
        else:
            self.env.w.delete_entity(pe)

    def _add_processor(self, obj):
        if self.mode == 'ref':
            self._holder(1, type(obj), 'p').ref = obj
        else:
            self.env.w.add_processor(obj)

    def _remove_processor(self, cls):
        w = self.env.w
        if self.mode == 'ref':
            before = list(w.processors)
            del self._holder(1, cls, 'p').ref
            after = {id(x) for x in w.processors}
            gone = [x for x in before if id(x) not in after]
            return gone[0] if gone else None
        return w.remove_processor(cls)

    def _q_get_component(self, pe, cls):
        m, d = self.mode, self.desper
        if m == 'ctrl':
            return self._ctrl(pe).get_component(cls)
        if m == 'func':
            return d.get_component(self._ctrl(pe), cls)
        if m == 'ref':
            return self._holder(pe, cls, 'c').ref
        return self.env.w.get_component(pe, cls)

    def _q_has(self, pe, cls):
        m, d = self.mode, self.desper
        if m == 'ctrl':
            return self._ctrl(pe).has_component(cls)
        if m in ('func', 'ref'):
            return d.has_component(self._ctrl(pe), cls)
        return self.env.w.has_component(pe, cls)

    def _q_comps(self, pe):
        m, d = self.mode, self.desper
        if m == 'ctrl':
            return self._ctrl(pe).get_components()
        if m in ('func', 'ref'):
            return d.get_components(self._ctrl(pe))
        return self.env.w.get_components(pe)

    def _q_get_processor(self, cls):
        if self.mode == 'ref':
            return self._holder(1, cls, 'p').ref
        return self.env.w.get_processor(cls)

    def observe(self, ret, name, args, pre):
        env, K = self.env, self.K
        w = env.w
        env.step_no += 1
        if env.step_no <= env.quiet:
            # looking is not free of effects (lazily maintained state is brought up to date by a read): in some
            # behaviours the first calls are made WITHOUT looking at the world in between - only what the calls
            # return and what the callbacks report is compared, every query waits for the first observed step
            return _Quiet(ret=ret, log=tuple(env.log))
        tn = {v: k for k, v in env.types.items()}
        obs = {'ret': ret}
        get = {}
        for T, cls in env.types.items():
            try:
                get[T] = tuple(sorted((modelid(e), getattr(c, 'name', '?')) for e, c in w.get(cls)))
            except Exception as ex:        # noqa
                get[T] = 'EXC:' + type(ex).__name__
        obs['get'] = get
        gc_, has, comps, exists = {}, {}, {}, {}
        for e in self.all_ids:
            pe = pyid(e)
            comps[e] = tuple(sorted(getattr(c, 'name', '?') for c in self._q_comps(pe)))
            exists[e] = w.entity_exists(pe)
            for T, cls in env.types.items():
                r = self._q_get_component(pe, cls)
                gc_[(e, T)] = None if r is None else getattr(r, 'name', '?')
                has[(e, T)] = self._q_has(pe, cls)
        obs['get_component'] = gc_
        obs['has'] = has
        obs['comps'] = comps
        obs['exists'] = exists
        obs['entities'] = tuple(sorted(modelid(e) for e in w.entities))
        # lifecycle
        obs['log'] = tuple(env.log)
        obs['enabled'] = w.dispatch_enabled
        hs = set()
        for c, o in env.comps.items():
            if hasattr(o, '__events__') and w.is_handler(o):
                hs.add(c)
        for p, o in env.procs.items():
            if hasattr(o, '__events__') and w.is_handler(o):
                hs.add(p)
        obs['is_handler'] = frozenset(hs)
        obs['self_handler'] = w.is_handler(w)
        if self.weak:
            import gc
            gc.collect()
            held = {getattr(c, 'name', '?') for e in self.all_ids for c in w.get_components(pyid(e))}
            obs['alive_detached'] = frozenset(n for n, o in env.comps.items() if n not in held)
        if self.controllers:
            obs['ctrl_knows'] = {c: (modelid(o.entity) if o.entity is not None else None, o.world is w)
                                 for c, o in env.comps.items()}
        # processors
        obs['processors'] = tuple(getattr(p, 'name', '?') for p in w.processors)
        gp = {}
        for T, cls in env.ptypes.items():
            r = self._q_get_processor(cls)
            gp[T] = None if r is None else getattr(r, 'name', '?')
        obs['get_processor'] = gp
        obs['pworld'] = {p: (o.world is w) for p, o in env.procs.items()}
        obs['pprio'] = {p: o.priority for p, o in env.procs.items()}
        # white box (only if the anchored attributes still have the expected shape)
        try:
            ents = {modelid(e): {tn[t]: c.name for t, c in row.items()} for e, row in w._entities.items()}
            comps_ix = {tn[t]: frozenset(modelid(e) for e in s) for t, s in w._components.items()}
            deadset = frozenset(modelid(e) for e in w._dead_entities)
            obs['wb_tables'] = (ents, comps_ix, deadset)
        except Exception:
            obs['wb_tables'] = SKIP
        try:
            obs['wb_queue_len'] = len(w._event_queue)
        except Exception:
            obs['wb_queue_len'] = SKIP
        # a second World, populated once and kept disabled: nothing done to the world under test may show there
        # (tables, processors and pending events are per instance); it is opened and closed again after every call
        b = env.w2
        b.dispatch_enabled = True
        b.dispatch_enabled = False
        obs['bystander'] = (tuple(sorted(map(repr, b.entities))), tuple(type(c).__name__ for c in b.get_components('bystander')),
                            tuple(type(q).__name__ for q in b.processors), tuple(env.blog))
        return obs

    # ------------------------------------------------------------------------------------------
    def expect(self, name, args, pre, post):
        K = self.K
        rows = {e: dict(fmap(r)) for e, r in fmap(post['rows']).items()}
        index = {t: s for t, s in fmap(post['index']).items()}
        dead = post['dead']
        exp = {'ret': tuple(post['ret'])}
        get = {}
        for T in K['Types']:
            items = []
            for t in self.sub[T]:
                for e in index.get(t, ()):
                    items.append((e, rows[e][t]))
            get[T] = tuple(sorted(items))
        exp['get'] = get
        gc_, has, comps, exists = {}, {}, {}, {}
        for e in self.all_ids:
            row = rows.get(e, {})
            comps[e] = tuple(sorted(row.values()))
            exists[e] = e in rows and e not in dead
            for T in K['Types']:
                cands = {row[t] for t in self.sub[T] if t in row}
                has[(e, T)] = bool(cands)
                gc_[(e, T)] = row[T] if T in row else (frozenset(cands) if cands else None)
        exp['comps'] = comps
        exp['exists'] = exists
        exp['has'] = has
        exp['get_component'] = lambda o, g=gc_: (set(o) == set(g) and all(
            (o[k] in g[k]) if isinstance(g[k], frozenset) else o[k] == g[k] for k in g))
        exp['entities'] = tuple(sorted(e for e in rows if e not in dead))
        exp['enabled'] = post['enabled']
        exp['is_handler'] = post['reg']
        if self.weak:
            # nothing keeps a detached component alive, except a postponed callback that still has to reach it
            pending = frozenset(it[1] for it in post['queue'])
            exp['alive_detached'] = lambda o, pending=pending: o <= pending
            # a component the world no longer holds is gone, whatever registration a raising callback left behind
            attached = {c for row in rows.values() for c in row.values()}
            exp['is_handler'] = frozenset(x for x in post['reg'] if x in attached or x in K['Procs'])
        exp['self_handler'] = post['selfReg']
        procs = tuple(post['procs'])
        exp['processors'] = procs
        present = {K['PTypeOf'][p]: p for p in procs}
        gp = {}
        for T in K['PTypes']:
            cands = {present[t] for t in self.psub[T] if t in present}
            gp[T] = present[T] if T in present else (frozenset(cands) if cands else None)
        exp['get_processor'] = lambda o, g=gp: (set(o) == set(g) and all(
            (o[k] in g[k]) if isinstance(g[k], frozenset) else o[k] == g[k] for k in g))
        pw = fmap(post['pworld']) if K['Procs'] else {}
        exp['pworld'] = {p: bool(pw[p]) for p in K['Procs']}
        pp = fmap(post['pprio']) if K['Procs'] else {}
        exp['pprio'] = {p: pp[p] for p in K['Procs']}
        exp['log'] = self._log_pred(name, args, pre, post)
        if self.controllers:
            # an attached Controller whose on_add has been delivered (not pending in the queue) knows entity and world
            pending = {(it[1], it[2]) for it in post['queue'] if it[0] == 'on_add'}
            must = {}
            for e, row in rows.items():
                for c in row.values():
                    if (c, e) not in pending:
                        must[c] = (e, True)
            exp['ctrl_knows'] = lambda o, must=must: all(o.get(c) == v for c, v in must.items())
        exp['wb_tables'] = (rows, {t: frozenset(s) for t, s in index.items()}, frozenset(dead))
        exp['wb_queue_len'] = len(post['queue'])
        exp['bystander'] = (("'bystander'",), ('ByComp',), ('ByProc',), ('on_add',))
        return exp

    def _expand(self, entry, reg):
        K = self.K
        if entry[0] == 'probe*':
            out = []
            for x in reg:
                decl = K['Decl'][x] if x in K['Comps'] else K['PDecl'][x]
                if 'probe' in decl:
                    out.append(('probe', x, entry[2]))
            return out
        return [tuple(entry)]

    def _log_pred(self, name, args, pre, post):
        """Predicate on the observed callback log.  Within one operation the order of lifecycle callbacks
        follows dict/set iteration and is compared as a bag; postponed callbacks are released operation by
        operation (groups in order, each group a bag); Processor.process calls are an ordered sequence and
        every removal of the deferred deletion precedes them."""
        reg = post['reg']
        mlog = [tuple(x) for x in post['log']]
        if (name == 'SetEnabled' and args[0]) or name == 'SetEnabledFault':
            groups = []
            for it in (pre['queue'][:args[0]] if name == 'SetEnabledFault' else pre['queue']):
                ents = self._expand((it[0], it[1], it[2]) if it[0] != 'probe' else ('probe*', '-', it[2]), reg)
                if it[3] or not groups:
                    groups.append(list(ents))
                else:
                    groups[-1].extend(ents)
            # the model may have stopped early (bad relay): only the delivered prefix counts
            n_expected = sum(len(self._expand(e, reg)) for e in mlog)

            def pred(o, groups=groups, n=n_expected):
                o = list(o)
                if len(o) != n:
                    return False
                i = 0
                for g in groups:
                    chunk = o[i:i + len(g)]
                    i += len(g)
                    if i > n:
                        chunk = o[i - len(g):n]
                        return Counter(chunk) <= Counter(g)
                    if Counter(chunk) != Counter(g):
                        return False
                return True
            return pred
        life = []
        proc = []
        for e in mlog:
            if e[0] == 'process':
                proc.append(e)
            else:
                life.extend(self._expand(e, reg))

        def pred(o, life=life, proc=proc):
            o = list(o)
            ol = [x for x in o if x[0] != 'process']
            op = [x for x in o if x[0] == 'process']
            if Counter(ol) != Counter(life) or op != proc:
                return False
            if op and ol:
                first_proc = min(i for i, x in enumerate(o) if x[0] == 'process')
                last_life = max(i for i, x in enumerate(o) if x[0] != 'process')
                if name.startswith('Process') and name != 'ProcessRemover' and last_life > first_proc:
                    return False
            return True
        pred.__qualname__ = 'log~bag(%r)+seq(%r)' % (life, proc)
        return pred

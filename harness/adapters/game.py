"""Adapter: spec/Game.tla <-> SimpleLoop + World + CoroutineProcessor + Handle, all real, composed end to end.

A behaviour is a sequence of Frame(inc, site, req).  SimpleLoop.start() cannot be paused from outside, so every
step re-executes the whole prefix on fresh objects (like adapters/loop.py): the harness owns the clock and the code
of the three processors of every world; when the plan is exhausted the time function raises Quit.
"""
from ..replay import guarded


class Env:
    pass


class GameAdapter:
    def __init__(self, desper, K):
        self.desper = desper
        self.K = K

    def reset(self, init):
        self.plan = []
        self.start_handle = init['cur']
        # left open by the model, varied from behaviour to behaviour: the clock's origin (huge integers stay exact),
        # the time unit (1 or 1/4 s: waits and increments scale together, all values exactly representable), how
        # the switch is requested (desper.switch() or a raw SwitchWorld)
        self.counter = getattr(self, 'counter', 0) + 1

    def _execute(self):
        d = self.desper
        K = self.K
        env = Env()
        env.frames_log = []      # one list per iteration
        env.fi = -1
        unit = 0.25 if self.counter % 3 == 0 else 1
        env.clock = (2 ** 40) * unit if self.counter % 2 else 0
        env.gens = {h: 0 for h in K['Hs']}
        env.done_req = False
        raw = self.counter % 4 < 2
        plan = self.plan

        def log(*x):
            env.frames_log[-1].append(tuple(x))

        def maybe_request(site):
            if env.fi < 0 or env.fi >= len(plan) or env.done_req:
                return
            inc, s, req = plan[env.fi]
            if s != site or req[0] != 'switch':
                return
            env.done_req = True
            kind, h, cc, cn = req
            if raw:
                raise d.SwitchWorld(env.handles[h], cc, cn)
            d.switch(env.handles[h], cc, cn)

        def units(dt):
            q = dt / unit
            return int(q) if q == int(q) else q

        def sleeper(world):
            while True:
                log('tick', world._verif_tag[0], world._verif_tag[1], 0)
                yield K['Wait'][world._verif_tag[0]] * unit

        class P0(d.Processor):
            def process(self, dt):
                w = self.world
                log('p0', w._verif_tag[0], w._verif_tag[1], units(dt))
                if not w._verif_started:
                    w._verif_started = True
                    w.get_processor(d.CoroutineProcessor).start(sleeper(w))
                maybe_request('p0')

        class P2(d.Processor):
            def process(self, dt):
                w = self.world
                log('p2', w._verif_tag[0], w._verif_tag[1], units(dt))
                maybe_request('p2')

        class GameHandle(d.Handle):
            def __init__(self, name):
                super().__init__()
                self.name = name

            def load(self):
                w = d.World()
                env.gens[self.name] += 1
                w._verif_tag = (self.name, env.gens[self.name])
                w._verif_started = False
                w.add_processor(P0(), 0)
                w.add_processor(d.CoroutineProcessor(), 1)
                w.add_processor(P2(), 2)
                return w

        env.handles = {h: GameHandle(h) for h in sorted(K['Hs'])}

        def time_function():
            env.fi += 1
            env.done_req = False
            if env.fi >= len(plan):
                raise d.Quit()
            env.frames_log.append([])
            env.clock += plan[env.fi][0] * unit
            return env.clock

        loop = d.SimpleLoop(time_function)
        old_default = d.default_loop
        d.default_loop = loop
        try:
            _v, ex = guarded(lambda: loop.switch(env.handles[self.start_handle]), 5.0)
            if ex is None:
                _v, ex = guarded(loop.start, 5.0)
            cw = loop.current_world
            cur = getattr(cw, '_verif_tag', None)
            cached = {h: (env.handles[h]()._verif_tag[1] if env.handles[h].cached else 0) for h in env.handles}
            return env, (type(ex).__name__ if ex is not None else None), cur, cached
        finally:
            d.default_loop = old_default

    def step(self, name, args, pre):
        assert name == 'Frame', name
        inc, site, req = args
        self.plan.append((inc, site, tuple(req)))
        env, exn, cur, cached = self._execute()
        n = len(self.plan)
        last = tuple(env.frames_log[n - 1]) if len(env.frames_log) >= n else None
        return dict(self._facets(last), exc=exn, iterations=len(env.frames_log), cur=cur, cached=cached)

    @staticmethod
    def _facets(log):
        """ticks: C08 (which sleeper woke);  runs: C13 (whose processors ran);  dts: C14 (with which dt);  order: all."""
        if log is None:
            return {'ticks': None, 'runs': None, 'dts': None, 'order': None}
        return {'ticks': tuple(x for x in log if x[0] == 'tick'),
                'runs': tuple(x[:3] for x in log if x[0] != 'tick'),
                'dts': tuple(x[3] for x in log if x[0] != 'tick'),
                'order': tuple(x[:3] for x in log)}

    def expect(self, name, args, pre, post):
        log = tuple(tuple(x) for x in post['log'])
        st, gen = post['st'], post['gen']
        return dict(self._facets(log), exc=None, iterations=post['frames'], cur=(post['cur'], gen[post['cur']]),
                    cached={h: (gen[h] if st[h] != 'none' else 0) for h in st})

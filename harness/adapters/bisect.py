"""Adapter: spec/Bisect.tla <-> desper.bisect (real module)."""
import importlib


class Item:
    """Wrapper compared only through key=, so the key variants are exercised on non-comparable objects."""
    def __init__(self, v):
        self.v = v


class BisectAdapter:
    def __init__(self, desper):
        self.b = importlib.import_module('desper.bisect')

    def reset(self, init):
        self.a = list(init['a'])
        self.x = init['x']

    def step(self, name, args, pre):
        b, a, x = self.b, self.a, self.x
        r = b.bisect_right(a, x)
        l = b.bisect_left(a, x)
        ar, al = list(a), list(a)
        b.insort_right(ar, x)
        b.insort_left(al, x)
        items = [Item(v) for v in a]
        rk = b.bisect_right(items, x, key=lambda it: it.v)
        lk = b.bisect_left(items, x, key=lambda it: it.v)
        ik = list(items)
        new = Item(x)
        b.insort(ik, new, key=lambda it: it.v)
        return {'plain': (r, l, tuple(ar), tuple(al)), 'key': (rk, lk, tuple(it.v for it in ik), ik.index(new)),
                'aliases': b.bisect is b.bisect_right and b.insort is b.insort_right}

    def expect(self, name, args, pre, post):
        r, l, ar, al = post['res']
        return {'plain': (r, l, tuple(ar), tuple(al)), 'key': (r, l, tuple(ar), r), 'aliases': True}

"""Adapter: spec/WorldLoad.tla  <->  desper.model.world (WorldHandle, WorldFromFileHandle, populate_world_from_dict).

Each `Load(md)` edge writes the description as a real JSON file into a temporary directory and loads it
through a real WorldFromFileHandle stored in a real ResourceMap (file1: key 'w'; file2: key 'worlds/w1', i.e.
below an implicitly created map), or feeds the resolved dict to populate_world_from_dict (dict: through a
WorldHandle; bare: on a fresh World).  `Enable` sets dispatch_enabled = True; `Access` reaches the cached world
again through handle() and resource_map[key]; `ClearHandle`, `Disturb` (components of the first world mutate
their list/dict arguments in place, the resource handles are cleared), `Rewrite` (the file now holds AltDesc)
and `Reload` (the same handle object loads again) form the second round.  Observations are canonical tuples:
objects are named by identity lookup (never by address), unordered things are sorted bags."""
import importlib
import json
import os
import shutil
import tempfile

from ..replay import guarded, exc_name

MOD = 'harness.adapters.wl_types'
STR_IDS = {0: '', 1: 'hero', 2: '1'}       # <<"s", k>>; "" is falsy but an id; "1" is a string, not the integer 1
AUTO = ('auto', 0)
NOENT = ('-', 0)
TAG = {'obj': '', 'res': 'res', 'handle': 'handle'}


def resolve(name):
    """Independent of object_from_string: longest importable module prefix, then attributes."""
    parts = name.split('.')
    for k in range(len(parts), 0, -1):
        try:
            obj = importlib.import_module('.'.join(parts[:k]))
        except ImportError:
            continue
        for p in parts[k:]:
            obj = getattr(obj, p)
        return obj
    raise ImportError(name)


def skey(x):
    return repr(x)


class WorldLoadAdapter:
    def __init__(self, desper, shapes, altdesc=None, workdir=None):
        self.desper = desper
        self.shapes = shapes
        self.altdesc = altdesc
        # One mkdtemp directory per adapter, inside the check's scratch directory (removed by Result.finish);
        # the JSON file itself lives only for the duration of one Load.  (rmdir costs 3 ms here: not per step.)
        self.dir = tempfile.mkdtemp(prefix='verif-c15-', dir=workdir)
        self.own_dir = workdir is None
        self.types = importlib.import_module(MOD)
        self.mw = importlib.import_module('desper.model.world')
        self.named = {s['name']: resolve(s['name']) for s in shapes.values() if s['k'] == 'str' and s['mk'] == 'obj'}
        types = self.types

        class RecHandle(desper.Handle):
            def __init__(self, path):
                self.path = path
                self.gen = 1            # as `gen` in the model: one more with every clear()
                self.values = {}        # generation -> the object loaded in it (a fresh, unique one)

            def load(self):
                self.values[self.gen] = types.Rec(self.path)
                return self.values[self.gen]

            def clear(self):
                self.gen += 1
                super().clear()
        self.RecHandle = RecHandle

    # -- description -> JSON / dict ---------------------------------------------------------------
    def json_of(self, tok):
        s = self.shapes[tok]
        if s['k'] == 'str':
            mk = s['mk']
            return s['pre'] + ('' if mk == 'none' else '$%s{%s}' % (TAG.get(mk, mk), s['name']))
        if s['k'] == 'json':
            return json.loads(s['name'])
        if s['k'] == 'list':
            return [self.json_of(t) for t in s['items']]
        return {'k%d' % (i + 1): self.json_of(t) for i, t in enumerate(s['items'])}

    @staticmethod
    def py_id(i):
        return None if i == AUTO else STR_IDS[i[1]] if i[0] == 's' else False if i[0] == 'b' else i[1]

    def file_json(self, desc, sparse):
        """sparse: empty lists / absent ids are left out (the loader's .get defaults) instead of written."""
        def put(d, k, v):
            if v or not sparse:
                d[k] = v

        def one(c):
            d = {'type': MOD + '.' + c['type']}
            put(d, 'args', [self.json_of(t) for t in c['args']])
            put(d, 'kwargs', {k: self.json_of(t) for k, t in c['kwargs']})
            return d
        out = {}
        put(out, 'processors', [one(c) for c in desc['procs']])
        ents = []
        for e in desc['ents']:
            d = {}
            if e['id'] != AUTO:
                d['id'] = self.py_id(e['id'])
            elif not sparse:
                d['id'] = None
            put(d, 'components', [one(c) for c in e['comps']])
            ents.append(d)
        put(out, 'entities', ents)
        return out

    def resolved(self, tok, rm):
        """What a caller of populate_world_from_dict passes where the file would carry a reference."""
        s = self.shapes[tok]
        if s['k'] == 'str' and s['pre'] == '' and s['mk'] in TAG:
            if s['mk'] == 'obj':
                return self.named[s['name']]
            path = s['name'].replace('.', '/')
            return rm[path] if s['mk'] == 'res' else rm.get(path)
        return self.json_of(tok)

    def dict_desc(self, desc, rm):
        def one(c):
            return {'type': getattr(self.types, c['type']), 'args': [self.resolved(t, rm) for t in c['args']],
                    'kwargs': {k: self.resolved(t, rm) for k, t in c['kwargs']}}
        return {'processors': [one(c) for c in desc['procs']],
                'entities': [dict({'components': [one(c) for c in e['comps']]},
                                  **({} if e['id'] == AUTO else {'id': self.py_id(e['id'])})) for e in desc['ents']]}

    # -- canonical forms ----------------------------------------------------------------------------
    def canon(self, arg):
        for name, o in self.named.items():
            if arg is o:
                return ('obj', name)
        for path, h in self.env['handles'].items():
            if arg is h:
                return ('hdl', path)
            for k, v in h.values.items():
                if arg is v:
                    return ('res', '%s#%d' % (path, k))
        try:
            return ('json', json.dumps(arg, sort_keys=True))
        except TypeError:
            return ('other', type(arg).__name__)

    def canon_model(self, v):
        if v[0] == 'raw':
            return ('json', json.dumps(self.json_of(v[1]), sort_keys=True))
        if v[0] == 'none':
            return ('json', 'null')
        return (v[0], v[1])

    def inst_real(self, o):
        return (type(o).__name__, tuple(self.canon(a) for a in getattr(o, 'wl_args', ())),
                tuple(sorted((k, self.canon(v)) for k, v in getattr(o, 'wl_kwargs', {}).items())))

    def inst_model(self, i):
        return (i['type'], tuple(self.canon_model(a) for a in i['args']),
                tuple(sorted((k, self.canon_model(v)) for k, v in i['kwargs'])))

    def id_canon(self, pyid):
        """Explicit identifiers are compared exactly, automatic ones only as 'some fresh identifier'."""
        key = (type(pyid).__name__, pyid)
        return ('id',) + key if key in self.explicit else ('auto',)

    # -- protocol -------------------------------------------------------------------------------------
    def reset(self, init):
        self.set_desc(init['desc'])
        self.env = None
        self.mw.object_from_string.cache_clear()

    def set_desc(self, desc):
        self.desc = desc
        self.explicit = {(type(p).__name__, p) for p in (self.py_id(e['id']) for e in desc['ents'] if e['comps'])
                         if p is not None}

    def step(self, name, args, pre):
        env = self.env
        if name == 'Load':
            return self.load(args[0])
        if name == 'Reload':
            return self.observe(self.call_handle())
        if name == 'Enable':
            def enable():
                env['world'].dispatch_enabled = True
            return self.observe(guarded(enable)[1])
        if name == 'Access':
            def access():
                return env['handle'](), env['rm'][env['key']]
            got, ex = guarded(access)
            obs = self.observe(ex)
            obs['same_world'] = ex is None and got[0] is env['world'] and got[1] is env['world']
            return obs
        if name == 'ClearHandle':
            _, ex = guarded(env['handle'].clear)
            return {'outcome': exc_name(ex), 'cached': env['handle'].cached}
        if name == 'Disturb':
            _, ex = guarded(self.disturb)
            return {'outcome': exc_name(ex)}
        if name == 'Rewrite':
            self.set_desc(self.altdesc)
            self.write_file()
            return {'outcome': None}
        return {}       # stage steps of the small-step instance have no counterpart call

    def disturb(self):
        """What running game code may do between two loads: components change the containers they were
        built with, resources are dropped from memory."""
        def mutate(v):
            if isinstance(v, list):
                for x in v:
                    mutate(x)
                v.append('MUTATED')
            elif isinstance(v, dict):
                for x in list(v.values()):
                    mutate(x)
                v['MUTATED'] = 1
        for o in list(self.types.CREATED):
            for v in list(o.wl_args) + list(o.wl_kwargs.values()):
                mutate(v)
        for h in self.env['handles'].values():
            h.clear()

    def write_file(self):
        with open(self.env['file'], 'w') as f:
            json.dump(self.file_json(self.desc, sparse=(self.env['mode'] == 'file2')), f)

    def call_handle(self):
        """handle() on a handle that is not cached: a load.  The callback log and the instance registry restart."""
        del self.types.LOG[:]
        del self.types.CREATED[:]
        self.env['world'], ex = guarded(self.env['handle'])
        return ex

    def load(self, md):
        d = self.desper
        rm = d.ResourceMap()
        handles = {'r0': self.RecHandle('r0'), 'a.b': self.RecHandle('a.b')}
        rm['r0'] = handles['r0']
        rm['a/b'] = handles['a.b']
        key = 'worlds/w1' if md == 'file2' else 'w'
        self.env = env = {'handles': handles, 'rm': rm, 'mode': md, 'world': None, 'handle': None, 'key': key,
                          'file': os.path.join(self.dir, 'world.json')}
        if md in ('file1', 'file2'):
            self.write_file()       # stays (and may be rewritten) until the next behaviour overwrites it
            h = env['handle'] = d.WorldFromFileHandle(env['file'])
            rm[key] = h
            return self.observe(self.call_handle())
        dd = self.dict_desc(self.desc, rm)
        if md == 'dict':
            h = env['handle'] = d.WorldHandle()
            h.transform_functions.append(lambda hh, ww: d.populate_world_from_dict(ww, dd))
            rm[key] = h
            return self.observe(self.call_handle())
        del self.types.LOG[:]
        del self.types.CREATED[:]
        world = env['world'] = d.World()
        _, ex = guarded(lambda: d.populate_world_from_dict(world, dd))
        return self.observe(ex)

    def close(self):
        shutil.rmtree(self.dir, ignore_errors=True)

    def __del__(self):
        if self.own_dir:
            self.close()

    def observe(self, ex):
        obs = {'outcome': exc_name(ex)}
        w = self.env['world']
        if ex is not None or w is None:
            return obs
        obs['dispatch_enabled'] = w.dispatch_enabled
        obs['processors'] = [self.inst_real(p) for p in w.processors]
        obs['entities'] = sorted(((self.id_canon(e), sorted((self.inst_real(c) for c in w.get_components(e)), key=skey))
                                  for e in w.entities), key=skey)
        calls = {}
        for o, cb, args, kwargs in self.types.LOG:
            if kwargs or (cb == 'on_world_load' and len(args) != 2) or (cb == 'on_add' and len(args) not in (0, 2)):
                c = (cb, 'BADARGS', len(args))
            elif cb == 'on_world_load':
                c = (cb, args[0] is self.env['handle'], args[1] is w)
            elif args:
                c = (cb, self.id_canon(args[0]), args[1] is w)
            else:
                c = (cb, None, None)        # a processor's on_add takes no arguments
            calls.setdefault(id(o), (o, []))[1].append(c)
        obs['log'] = sorted(((self.inst_real(o), tuple(cs)) for o, cs in calls.values()), key=skey)
        return obs

    def expect(self, name, args, pre, post):
        if name == 'ClearHandle':
            return {'outcome': None, 'cached': False}
        if name in ('Disturb', 'Rewrite'):
            return {'outcome': None}
        if name not in ('Load', 'Reload', 'Enable', 'Access'):
            return {}
        if post['pc'] == 'failed':
            return {'outcome': post['err']}
        x = post['w']
        insts = {i['who']: i for i in x['procs']}
        for r in x['rows']:
            insts.update({i['who']: i for i in r['comps']})
        calls = {}
        for c in x['log']:
            if c['cb'] == 'on_world_load':
                t = (c['cb'], True, True)
            elif c['ent'] == NOENT:
                t = (c['cb'], None, None)
            else:
                t = (c['cb'], self.id_canon(self.py_id(c['ent'])), True)
            calls.setdefault(c['who'], []).append(t)
        return {
            **({'same_world': True} if name == 'Access' else {}),
            'outcome': None,
            'dispatch_enabled': x['enabled'],
            'processors': [self.inst_model(p) for p in x['procs']],
            'entities': sorted(((self.id_canon(self.py_id(r['id'])), sorted((self.inst_model(c) for c in r['comps']), key=skey))
                                for r in x['rows']), key=skey),
            'log': sorted(((self.inst_model(insts[who]) if who in insts else ('?', who), tuple(cs)) for who, cs in calls.items()), key=skey),
        }

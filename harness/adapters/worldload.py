"""Adapter: spec/WorldLoad.tla  <->  desper.model.world (WorldHandle, WorldFromFileHandle, populate_world_from_dict).

Each `Load(md)` edge writes the description as a real JSON file into a temporary directory and loads it
through a real WorldFromFileHandle stored in a real ResourceMap (file1: key 'w'; file2: key 'worlds/w1', i.e.
below an implicitly created map), or feeds the resolved dict to populate_world_from_dict (dict: through a
WorldHandle; bare: on a fresh World).  `Enable` sets dispatch_enabled = True; `Access` reaches the cached world
again through handle() and resource_map[key]; `ClearHandle`, `Disturb` (components of the first world mutate
their list/dict arguments in place, the resource handles are cleared), `Rewrite` (the file now holds AltDesc)
and `Reload` (the same handle object loads again) form the second round.  Observations are canonical tuples:
objects are named by identity lookup (never by address), unordered things are sorted bags.

`Load(md, True)` first loads the *bystander*: the fixed description ByDesc of the spec, behind a second
WorldFromFileHandle stored under 'by' in the same ResourceMap, loaded before the world under test and left
disabled; `EnableBy` sets its dispatch_enabled.  Facet `bystander` = (its dispatch_enabled, what its own handlers
heard so far, with ITS handle / world as the arguments of on_world_load); facet `log` of the world under test is
everything any other recording object heard.

Configuration: `ResourceMap.split_char` (a class attribute that "can be changed at any time") is '/' or ':' per
behaviour, a stable function of the description and the load mode; keys are built with it, references in world
files stay dotted.  reset() and finish() restore it, so that no behaviour leaks into the next.
In the same way (a stable function of description, load mode and bystander: every description meets it in at least
two of the scripted behaviours, one of them through a file handle) the recording classes of wl_types are value
objects in every third behaviour: all components, processors and loaded resources compare equal and hash alike -
also those of the bystander world.  The harness itself tells objects apart by identity only."""
import importlib
import json
import os
import shutil
import tempfile
import zlib

from ..replay import guarded, exc_name
from ..tla import to_tla

MOD = 'harness.adapters.wl_types'
STR_IDS = {0: '', 1: 'hero', 2: '1'}       # <<"s", k>>; "" is falsy but an id; "1" is a string, not the integer 1
AUTO = ('auto', 0)
NOENT = ('-', 0)
TAG = {'obj': '', 'res': 'res', 'handle': 'handle'}
MODES = ('file1', 'file2', 'dict', 'bare')
SEPS = ('/', ':')
SEP0 = []       # ResourceMap.split_char as the library defines it (recorded by the first adapter of the process)


def resolve(name):
    """Independent of object_from_string: longest importable module prefix, then attributes."""
    parts = name.split('.')
    for k in range(len(parts), 0, -1):
        try:
            obj = importlib.import_module('.'.join(parts[:k]))
        except ImportError:
            continue
        for p in parts[k:]:
            obj = getattr(obj, p)
        return obj
    raise ImportError(name)


def skey(x):
    return repr(x)


def BY_ID(e):       # entity identifiers of the bystander are compared by value (they are all explicit or unheard)
    return ('id', type(e).__name__, e)


class WorldLoadAdapter:
    def __init__(self, desper, shapes, altdesc=None, bydesc=None, workdir=None):
        self.desper = desper
        self.shapes = shapes
        self.altdesc = altdesc
        self.bydesc = bydesc
        if not SEP0:
            SEP0.append(desper.ResourceMap.split_char)
        # the bystander's objects are named by their class (distinct in ByDesc); model tags as Inst() assigns them
        self.by_names = {}
        if bydesc:
            self.by_names = {('p', i + 1, 0): c['type'] for i, c in enumerate(bydesc['procs'])}
            self.by_names.update({('c', e + 1, j + 1): c['type'] for e, ent in enumerate(bydesc['ents'])
                                  for j, c in enumerate(ent['comps'])})
        # One mkdtemp directory per adapter, inside the check's scratch directory (removed by Result.finish);
        # the JSON file itself lives only for the duration of one Load.  (rmdir costs 3 ms here: not per step.)
        self.dir = tempfile.mkdtemp(prefix='verif-c15-', dir=workdir)
        self.own_dir = workdir is None
        self.types = importlib.import_module(MOD)
        self.mw = importlib.import_module('desper.model.world')
        self.named = {s['name']: resolve(s['name']) for s in shapes.values() if s['k'] == 'str' and s['mk'] == 'obj'}
        types = self.types

        class RecHandle(desper.Handle):
            def __init__(self, path):
                self.path = path
                self.gen = 1            # as `gen` in the model: one more with every clear()
                self.values = {}        # generation -> the object loaded in it (a fresh, unique one)

            def load(self):
                self.values[self.gen] = types.Rec(self.path)
                return self.values[self.gen]

            def clear(self):
                self.gen += 1
                super().clear()
        self.RecHandle = RecHandle

    # -- description -> JSON / dict ---------------------------------------------------------------
    def json_of(self, tok):
        s = self.shapes[tok]
        if s['k'] == 'str':
            mk = s['mk']
            return s['pre'] + ('' if mk == 'none' else '$%s{%s}' % (TAG.get(mk, mk), s['name']))
        if s['k'] == 'json':
            return json.loads(s['name'])
        if s['k'] == 'list':
            return [self.json_of(t) for t in s['items']]
        return {'k%d' % (i + 1): self.json_of(t) for i, t in enumerate(s['items'])}

    @staticmethod
    def py_id(i):
        return None if i == AUTO else STR_IDS[i[1]] if i[0] == 's' else False if i[0] == 'b' else i[1]

    def file_json(self, desc, sparse):
        """sparse: empty lists / absent ids are left out (the loader's .get defaults) instead of written."""
        def put(d, k, v):
            if v or not sparse:
                d[k] = v

        def one(c):
            d = {'type': MOD + '.' + c['type']}
            put(d, 'args', [self.json_of(t) for t in c['args']])
            put(d, 'kwargs', {k: self.json_of(t) for k, t in c['kwargs']})
            return d
        out = {}
        put(out, 'processors', [one(c) for c in desc['procs']])
        ents = []
        for e in desc['ents']:
            d = {}
            if e['id'] != AUTO:
                d['id'] = self.py_id(e['id'])
            elif not sparse:
                d['id'] = None
            put(d, 'components', [one(c) for c in e['comps']])
            ents.append(d)
        put(out, 'entities', ents)
        return out

    def resolved(self, tok, rm):
        """What a caller of populate_world_from_dict passes where the file would carry a reference."""
        s = self.shapes[tok]
        if s['k'] == 'str' and s['pre'] == '' and s['mk'] in TAG:
            if s['mk'] == 'obj':
                return self.named[s['name']]
            path = s['name'].replace('.', self.env['sep'])
            return rm[path] if s['mk'] == 'res' else rm.get(path)
        return self.json_of(tok)

    def dict_desc(self, desc, rm):
        def one(c):
            return {'type': getattr(self.types, c['type']), 'args': [self.resolved(t, rm) for t in c['args']],
                    'kwargs': {k: self.resolved(t, rm) for k, t in c['kwargs']}}
        return {'processors': [one(c) for c in desc['procs']],
                'entities': [dict({'components': [one(c) for c in e['comps']]},
                                  **({} if e['id'] == AUTO else {'id': self.py_id(e['id'])})) for e in desc['ents']]}

    # -- canonical forms ----------------------------------------------------------------------------
    def canon(self, arg):
        for name, o in self.named.items():
            if arg is o:
                return ('obj', name)
        for path, h in self.env['handles'].items():
            if arg is h:
                return ('hdl', path)
            for k, v in h.values.items():
                if arg is v:
                    return ('res', '%s#%d' % (path, k))
        try:
            return ('json', json.dumps(arg, sort_keys=True))
        except TypeError:
            return ('other', type(arg).__name__)

    def canon_model(self, v):
        if v[0] == 'raw':
            return ('json', json.dumps(self.json_of(v[1]), sort_keys=True))
        if v[0] == 'none':
            return ('json', 'null')
        return (v[0], v[1])

    def inst_real(self, o):
        return (type(o).__name__, tuple(self.canon(a) for a in getattr(o, 'wl_args', ())),
                tuple(sorted((k, self.canon(v)) for k, v in getattr(o, 'wl_kwargs', {}).items())))

    def inst_model(self, i):
        return (i['type'], tuple(self.canon_model(a) for a in i['args']),
                tuple(sorted((k, self.canon_model(v)) for k, v in i['kwargs'])))

    def id_canon(self, pyid):
        """Explicit identifiers are compared exactly, automatic ones only as 'some fresh identifier'."""
        key = (type(pyid).__name__, pyid)
        return ('id',) + key if key in self.explicit else ('auto',)

    # -- protocol -------------------------------------------------------------------------------------
    def reset(self, init):
        self.desper.ResourceMap.split_char = SEP0[0]        # a behaviour that ended in a violation did not finish()
        self.env = None                                     # (the last behaviour's objects go before their hashes change)
        self.types.EQUAL[0] = False
        self.set_desc(init['desc'])
        self.variant = zlib.crc32(to_tla(init['desc']).encode())
        self.mw.object_from_string.cache_clear()

    def finish(self, stats):
        self.desper.ResourceMap.split_char = SEP0[0]
        if self.env:
            k = 'behaviours_with_split_char_' + ('slash' if self.env['sep'] == '/' else 'colon')
            stats.extra[k] = stats.extra.get(k, 0) + 1
            if self.env.get('remounted'):
                stats.extra['behaviours_with_remounted_tree'] = stats.extra.get('behaviours_with_remounted_tree', 0) + 1
            if self.types.EQUAL[0]:
                stats.extra['behaviours_with_value_equal_objects'] = stats.extra.get('behaviours_with_value_equal_objects', 0) + 1
        self.types.EQUAL[0] = False

    def set_desc(self, desc):
        self.desc = desc
        self.explicit = {(type(p).__name__, p) for p in (self.py_id(e['id']) for e in desc['ents'] if e['comps'])
                         if p is not None}

    def step(self, name, args, pre):
        env = self.env
        if name == 'Load':
            return self.load(*args)
        if name == 'Reload':
            return self.observe(self.call_handle())
        if name == 'Enable':
            def enable():
                env['world'].dispatch_enabled = True
            return self.observe(guarded(enable)[1])
        if name == 'EnableBy':
            def enable_by():
                env['by']['world'].dispatch_enabled = True
            return self.observe(guarded(enable_by)[1])
        if name == 'Access':
            def access():
                return env['handle'](), env['rm'][env['key']]
            got, ex = guarded(access)
            obs = self.observe(ex)
            obs['same_world'] = ex is None and got[0] is env['world'] and got[1] is env['world']
            return obs
        if name == 'ClearHandle':
            _, ex = guarded(env['handle'].clear)
            return {'outcome': exc_name(ex), 'cached': env['handle'].cached}
        if name == 'Disturb':
            _, ex = guarded(self.disturb)
            return {'outcome': exc_name(ex)}
        if name == 'Rewrite':
            self.set_desc(self.altdesc)
            self.write_file()
            return {'outcome': None}
        return {}       # stage steps of the small-step instance have no counterpart call

    def disturb(self):
        """What running game code may do between two loads: components change the containers they were
        built with, resources are dropped from memory."""
        def mutate(v):
            if isinstance(v, list):
                for x in v:
                    mutate(x)
                v.append('MUTATED')
            elif isinstance(v, dict):
                for x in list(v.values()):
                    mutate(x)
                v['MUTATED'] = 1
        for o in list(self.types.CREATED):
            for v in list(o.wl_args) + list(o.wl_kwargs.values()):
                mutate(v)
        for h in self.env['handles'].values():
            h.clear()
        # the model speaks of "the enclosing resource tree" at the time of the load; which map is its root between two
        # loads is left open: in half of the behaviours the whole tree is mounted into a larger one holding other
        # handles under the same paths (the second load must resolve $res{} / $handle{} against those)
        if (self.variant // 6) % 2 == 0:
            self.remount()

    def remount(self):
        env = self.env
        sep = env['sep']
        top = self.desper.ResourceMap()
        handles = {'r0': self.RecHandle('r0'), 'a.b': self.RecHandle('a.b')}
        for h in handles.values():
            h.gen = 2           # generation of the model after Disturb (as if cleared once, like the handles they replace)
        top['r0'] = handles['r0']
        top['a' + sep + 'b'] = handles['a.b']
        top['sub'] = env['rm']
        env['old_handles'] = env['handles']     # still reachable as sub/r0, sub/a/b: no longer what the references mean
        env['handles'] = handles
        env['rm'] = top
        env['key'] = 'sub' + sep + env['key']
        env['remounted'] = True

    def write_file(self):
        with open(self.env['file'], 'w') as f:
            json.dump(self.file_json(self.desc, sparse=(self.env['mode'] == 'file2')), f)

    def call_handle(self):
        """handle() on a handle that is not cached: a load.  The callback log and the instance registry restart
        (what the bystander's objects heard stays)."""
        self.fresh_log()
        self.env['world'], ex = guarded(self.env['handle'])
        return ex

    def fresh_log(self):
        by = self.env['by']
        self.types.LOG[:] = [c for c in self.types.LOG if by and id(c[0]) in by['ids']]
        del self.types.CREATED[:]

    def preload_bystander(self):
        """A second world of the same map, loaded before the world under test and left as its handle returns it."""
        env = self.env
        path = os.path.join(self.dir, 'bystander.json')
        if not os.path.exists(path):
            with open(path, 'w') as f:
                json.dump(self.file_json(self.bydesc, sparse=False), f)
        h = self.desper.WorldFromFileHandle(path)
        env['rm']['by'] = h
        self.fresh_log()
        world, ex = guarded(lambda: env['rm']['by'])
        if ex is not None:
            raise ex
        objs = list(self.types.CREATED)         # kept alive: their ids identify them in the log
        env['by'] = {'handle': h, 'world': world, 'objs': objs, 'ids': {id(o) for o in objs}}

    def load(self, md, with_by=False):
        d = self.desper
        sep = SEPS[(self.variant + MODES.index(md) + with_by) % 2]
        d.ResourceMap.split_char = sep
        # 0,1,0,1,2,0,2,0 over the scripted behaviours of c15.py: every residue of the description's variant meets a zero
        self.types.EQUAL[0] = (self.variant // 2 + MODES.index(md) + 2 * with_by) % 3 == 0
        rm = d.ResourceMap()
        handles = {'r0': self.RecHandle('r0'), 'a.b': self.RecHandle('a.b')}
        rm['r0'] = handles['r0']
        rm['a' + sep + 'b'] = handles['a.b']
        key = 'worlds' + sep + 'w1' if md == 'file2' else 'w'
        self.env = env = {'handles': handles, 'rm': rm, 'mode': md, 'world': None, 'handle': None, 'key': key,
                          'file': os.path.join(self.dir, 'world.json'), 'sep': sep, 'by': None}
        if with_by:
            self.preload_bystander()
        if md in ('file1', 'file2'):
            self.write_file()       # stays (and may be rewritten) until the next behaviour overwrites it
            h = env['handle'] = d.WorldFromFileHandle(env['file'])
            rm[key] = h
            return self.observe(self.call_handle())
        dd = self.dict_desc(self.desc, rm)
        if md == 'dict':
            h = env['handle'] = d.WorldHandle()
            h.transform_functions.append(lambda hh, ww: d.populate_world_from_dict(ww, dd))
            rm[key] = h
            return self.observe(self.call_handle())
        self.fresh_log()
        world = env['world'] = d.World()
        _, ex = guarded(lambda: d.populate_world_from_dict(world, dd))
        return self.observe(ex)

    def close(self):
        shutil.rmtree(self.dir, ignore_errors=True)

    def __del__(self):
        if self.own_dir:
            self.close()

    def observe(self, ex):
        obs = {'outcome': exc_name(ex)}
        w = self.env['world']
        if ex is not None or w is None:
            return obs
        obs['dispatch_enabled'] = w.dispatch_enabled
        obs['processors'] = [self.inst_real(p) for p in w.processors]
        obs['entities'] = sorted(((self.id_canon(e), sorted((self.inst_real(c) for c in w.get_components(e)), key=skey))
                                  for e in w.entities), key=skey)
        by = self.env['by']
        mine = [c for c in self.types.LOG if not (by and id(c[0]) in by['ids'])]
        obs['log'] = self.heard(mine, self.env['handle'], w, self.id_canon, self.inst_real)
        if by:
            theirs = [c for c in self.types.LOG if id(c[0]) in by['ids']]
            obs['bystander'] = (by['world'].dispatch_enabled,
                                self.heard(theirs, by['handle'], by['world'], BY_ID, lambda o: type(o).__name__))
        return obs

    def heard(self, log, handle, world, idc, name):
        """Per recording object, the callbacks it got in order; arguments by identity with `handle` / `world`."""
        calls = {}
        for o, cb, args, kwargs in log:
            if kwargs or (cb == 'on_world_load' and len(args) != 2) or (cb == 'on_add' and len(args) not in (0, 2)):
                c = (cb, 'BADARGS', len(args))
            elif cb == 'on_world_load':
                c = (cb, args[0] is handle, args[1] is world)
            elif args:
                c = (cb, idc(args[0]), args[1] is world)
            else:
                c = (cb, None, None)        # a processor's on_add takes no arguments
            calls.setdefault(id(o), (o, []))[1].append(c)
        return sorted(((name(o), tuple(cs)) for o, cs in calls.values()), key=skey)

    def expect(self, name, args, pre, post):
        if name == 'ClearHandle':
            return {'outcome': None, 'cached': False}
        if name in ('Disturb', 'Rewrite'):
            return {'outcome': None}
        if name not in ('Load', 'Reload', 'Enable', 'EnableBy', 'Access'):
            return {}
        if post['pc'] == 'failed':
            return {'outcome': post['err']}
        x = post['w']
        insts = {i['who']: i for i in x['procs']}
        for r in x['rows']:
            insts.update({i['who']: i for i in r['comps']})

        def heard(log, name, idc):
            calls = {}
            for c in log:
                if c['cb'] == 'on_world_load':
                    t = (c['cb'], True, True)
                elif c['ent'] == NOENT:
                    t = (c['cb'], None, None)
                else:
                    t = (c['cb'], idc(self.py_id(c['ent'])), True)
                calls.setdefault(c['who'], []).append(t)
            return sorted(((name(who), tuple(cs)) for who, cs in calls.items()), key=skey)
        by = {}
        if 'absent' not in post['bw']:
            by['bystander'] = (post['bw']['enabled'],
                               heard(post['bw']['log'], lambda who: self.by_names.get(who, ('?', who)), BY_ID))
        return {
            **({'same_world': True} if name == 'Access' else {}), **by,
            'outcome': None,
            'dispatch_enabled': x['enabled'],
            'processors': [self.inst_model(p) for p in x['procs']],
            'entities': sorted(((self.id_canon(self.py_id(r['id'])), sorted((self.inst_model(c) for c in r['comps']), key=skey))
                                for r in x['rows']), key=skey),
            'log': heard(x['log'], lambda who: self.inst_model(insts[who]) if who in insts else ('?', who), self.id_canon),
        }

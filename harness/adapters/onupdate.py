"""Adapter: spec/OnUpdate.tla <-> desper.OnUpdateProcessor in a real World (C19)."""
from ..replay import guarded


class Boom(Exception):
    pass


class OnUpdateAdapter:
    def __init__(self, desper):
        self.desper = desper

    def reset(self, init):
        d = self.desper
        self.w = d.World()
        self.proc = d.OnUpdateProcessor()
        self.w.add_processor(self.proc)
        self.gen = 0
        self.old = []
        self.got = []
        self.fault = None
        got = self.got
        outer = self

        @d.event_handler('on_update')
        class Listener:
            def on_update(self, dt):
                got.append((self.name, dt) if self.gen == outer.gen else (self.name, dt, 'WORLD-LEFT-BEHIND'))
                if outer.fault == self.name:
                    outer.fault = None
                    raise Boom()

        self.cls = Listener
        self.ent = {}

    def step(self, name, args, pre):
        self.got.clear()
        self.fault = None
        w = self.w
        ex = None
        if name == 'Attach':
            o = self.cls()
            o.name = args[0]
            o.gen = self.gen
            self.ent[args[0]] = w.create_entity(o)
        elif name == 'Detach':
            w.delete_entity(self.ent.pop(args[0]), immediate=True)
        elif name == 'Reinstall':
            # the old world stays alive with its listeners (they must hear nothing any more); everybody moves
            self.old.append(w)
            self.gen += 1
            w = self.w = self.desper.World()
            w.add_processor(self.proc)
            for n in sorted(self.ent):
                o = self.cls()
                o.name = n
                o.gen = self.gen
                self.ent[n] = w.create_entity(o)
        elif name == 'Frame':
            _v, ex = guarded(lambda: w.process(args[0]))
        elif name == 'FrameFault':
            self.fault = args[1]
            _v, ex = guarded(lambda: w.process(args[0]))
        ret = 'ok' if ex is None else ('raised' if isinstance(ex, Boom) else type(ex).__name__)
        return {'ret': ret, 'deliveries': tuple(sorted(self.got))}

    def expect(self, name, args, pre, post):
        return {'ret': post['ret'], 'deliveries': tuple(sorted(tuple(x) for x in post['log']))}

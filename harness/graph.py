"""State graphs dumped by TLC (-dump dot,actionlabels): loading, BFS tree, paths, idle-to-idle quotient."""
import re
from collections import deque

from . import tla

_NODE = re.compile(r'^(-?\d+) \[label="((?:[^"\\]|\\.)*)"')
_EDGE = re.compile(r'^(-?\d+) -> (-?\d+) \[label="((?:[^"\\]|\\.)*)"')
_UNESC = re.compile(r'\\(.)')


def _un(s):
    return _UNESC.sub(lambda m: '\n' if m.group(1) == 'n' else m.group(1), s)


class Graph:
    def __init__(self):
        self.states = {}       # id -> FD(var -> value)
        self.init = []         # ids
        self.out = {}          # id -> list of (name, args, dst)   (deduplicated)
        self.parent = {}       # id -> (src, name, args)  BFS tree
        self.depth = {}

    def n_edges(self):
        return sum(len(v) for v in self.out.values())

    @classmethod
    def load_dot(cls, path):
        g = cls()
        seen_edges = set()
        labels = {}
        with open(path) as f:
            for line in f:
                m = _EDGE.match(line)
                if m:
                    key = (int(m.group(1)), int(m.group(2)), m.group(3))
                    if key in seen_edges:
                        continue
                    seen_edges.add(key)
                    lab = labels.get(m.group(3))
                    if lab is None:
                        lab = labels[m.group(3)] = tla.parse_label(_un(m.group(3)))
                    g.out.setdefault(key[0], []).append((lab[0], lab[1], key[1]))
                    continue
                m = _NODE.match(line)
                if m:
                    i = int(m.group(1))
                    if i not in g.states:
                        g.states[i] = tla.parse_state(_un(m.group(2)))
                        if 'style = filled' in line[m.end():]:
                            g.init.append(i)
        for i in g.states:
            g.out.setdefault(i, [])
        g._bfs()
        return g

    def _bfs(self):
        self.parent = {}
        self.depth = {}
        q = deque()
        for i in self.init:
            self.depth[i] = 0
            q.append(i)
        while q:
            s = q.popleft()
            for (n, a, d) in self.out.get(s, ()):
                if d not in self.depth:
                    self.depth[d] = self.depth[s] + 1
                    self.parent[d] = (s, n, a)
                    q.append(d)

    def path_to(self, sid):
        """List of (src, name, args, dst) from an initial state to sid along the BFS tree."""
        path = []
        cur = sid
        while cur in self.parent:
            s, n, a = self.parent[cur]
            path.append((s, n, a, cur))
            cur = s
        path.reverse()
        return path

    def succ(self, sid, name, args):
        return [d for (n, a, d) in self.out.get(sid, ()) if n == name and a == args]

    def quotient(self, idle):
        """Idle-to-idle quotient of a small-step graph.

        idle(state) says whether a state is between two top-level calls. A *call* is one edge out of
        an idle state followed by internal edges through non-idle states up to the next idle state;
        the quotient keeps one edge (label of the first step, idle successor) per reachable outcome.
        Non-terminating internal cycles simply produce no outcome along that branch.
        """
        q = Graph()
        idle_ids = {i for i, s in self.states.items() if idle(s)}
        for i in idle_ids:
            q.states[i] = self.states[i]
        q.init = [i for i in self.init if i in idle_ids]
        memo = {}

        def outcomes(start):
            # all idle states reachable from `start` through non-idle states (start may be idle itself)
            if start in idle_ids:
                return {start}
            if start in memo:
                return memo[start]
            res = set()
            seen = {start}
            stack = [start]
            while stack:
                s = stack.pop()
                for (_n, _a, d) in self.out.get(s, ()):
                    if d in idle_ids:
                        res.add(d)
                    elif d not in seen:
                        seen.add(d)
                        stack.append(d)
            memo[start] = res
            return res

        for i in idle_ids:
            edges = set()
            for (n, a, d) in self.out.get(i, ()):
                for o in outcomes(d):
                    edges.add((n, a, o))
            q.out[i] = sorted(edges, key=lambda e: (e[0], repr(e[1]), e[2]))
        q._bfs()
        return q


_SIM_STATE = re.compile(r'\\\* <(.*?) line \d+, col \d+ to line \d+, col \d+ of module \w+>\nSTATE_\d+ == \n((?:.+\n?)+)')


def load_sim_file(path):
    """One behaviour written by `tlc -simulate file=...`: list of (label or None, state)."""
    txt = open(path).read()
    out = []
    for m in _SIM_STATE.finditer(txt):
        lab = m.group(1).strip()
        st = tla.parse_state(m.group(2))
        if lab.startswith('Init'):
            out.append((None, st))
        else:
            out.append((tla.parse_label(lab), st))
    return out

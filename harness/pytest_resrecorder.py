"""pytest plugin (loaded with `-p harness.pytest_resrecorder`, tests are not edited): observes every use the
repository's own tests make of `desper.ResourceMap`, `desper.Handle` and the snapshots made by `get_static_map()`
and turns each test into one trace for ResourcesTrace.tla (pipeline B).

Only public calls are wrapped (ResourceMap: [] get []= clear get_static_map; Handle: () clear, and `load` of the
handle classes a test defines - to see which loads run; StaticResourceMap: [] attribute access get setattr delattr).
After every top-level call the recorder observes what the pipeline-A adapter observes (its projection functions
are reused): every path through get(), the back-links of everything the tables list, the ChainMap layers, `cached`
of every handle, the snapshot through get().

The objects are the test's own.  A tree that exists before the first recorded call (the fixtures write the tables
directly) is the initial state of the trace (header `init`); an empty first ChainMap layer that appears between two
calls is the PushLayer action (what DirectoryResourcePopulator does).  Pool ids: the first map that receives a call
is the root, maps made for intermediate key parts get reserved ids placed before all others (the specification's
`Fresh` takes the least free id), the test's own maps come last.

Anything Resources.tla cannot express marks the test `unsupported` with a reason (listed in the evidence, never a
violation): tables written directly after the first call, calls outside the generated domain of SetItem (a node
stored in two places, cycles), reads of a snapshot older than the latest one, re-entrant use of the tree from inside
load(), a load() that raises, snapshot classes not made by get_static_map(), handles that were already cached when
first seen, non-string keys.
"""
import functools
import json
import keyword
import os

import pytest

OUT = os.environ.get('VERIF_TRACE_OUT_RES')
MAX_NAMES, MAX_DEPTH = 14, 3


def lexical_class(n):
    if not n.isidentifier():
        return 'space' if ' ' in n else 'digit' if n[:1].isdigit() else 'dot'
    if n in ('None', 'True', 'False'):
        return 'const'
    if keyword.iskeyword(n):
        return 'keyword'
    if n.startswith('__'):
        return 'dunder' if n.endswith('__') else 'private'
    if n.startswith('_'):
        return 'under'
    return 'plain' if n.isascii() else 'nonascii'


class HProxy:
    """What the adapter's observer wants to know of a handle (the real object is left alone)."""

    def __init__(self, name, real):
        self.name, self.real, self.products = name, real, []

    @property
    def cached(self):
        return self.real.cached


class TRec:
    """Recorder of one test."""

    def __init__(self, S, test):
        from .adapters import resources as ra
        self.S, self.test = S, test
        outer = self

        class Obs(ra.ResourcesAdapter):
            def _ids(self):
                d = {id(o): k for k, o in self.env.maps.items()}
                d.update((id(p.real), k) for k, p in self.env.handles.items())
                d[id(None)] = 'none'
                return d

            def _classify(self, v):
                k = outer.tags.get(id(v))
                if k is not None and k in self.env.handles:
                    return ('handle', k)
                return super()._classify(v)

        self.ad = Obs(S.desper, probe=False, depth=MAX_DEPTH)
        env = self.ad.env = ra.Env()
        env.maps, env.handles, env.snaps = {}, {}, {}
        env.names, env.real, env.abstract, env.cls = [], {}, {}, {}
        env.probes, env.probes1 = [], []
        env.loaded, env.seen, env.armed = [], [], set()
        self.env = env
        self.tags = {}              # id(object) -> pool id (objects are kept alive in env / keep)
        self.keep = []
        self.implicit = 0
        self.depth = 0              # recorded calls in progress
        self.in_load = 0
        self.events = []
        self.init = None
        self.sig = None             # the tables as last observed (to notice direct writes)
        self.maxlayers = 1
        self.unsupported = None
        self.snapshots = False
        self.all_snaps = set()      # id() of every snapshot node ever made (the roots are kept alive in `keep`)

    def bad(self, why):
        if self.unsupported is None:
            self.unsupported = why

    # -- universe ------------------------------------------------------------------------------
    def name(self, n):
        if n not in self.env.real:
            if len(self.env.names) >= MAX_NAMES:
                self.bad('more than %d names' % MAX_NAMES)
                return n
            self.env.names.append(n)
            self.env.real[n] = self.env.abstract[n] = n
            self.env.cls[n] = lexical_class(n)
            self._probes()
        return n

    def _probes(self):
        """Every path of up to MAX_DEPTH names over the names seen so far (a later name denotes nothing yet)."""
        ad, env = self.ad, self.env
        ad.paths = None
        sep = self.S.desper.ResourceMap.split_char
        env.probes = [('/'.join(p), sep.join(p), list(p)) for p in ad._paths()]
        env.probes1 = [p for p in env.probes if '/' not in p[0]]

    def path(self, key):
        parts = key.split(self.S.desper.ResourceMap.split_char)
        if len(parts) > MAX_DEPTH:
            self.bad('key of more than %d parts' % MAX_DEPTH)
        return [self.name(p) for p in parts]

    def discover(self, obj, implicit=False):
        """Pool id of a map or handle, registering it (and, for a map, everything its tables list) on first sight."""
        d = self.S.desper
        k = self.tags.get(id(obj))
        if k is not None:
            return k
        if not implicit:
            # start from the top of the tree the object says it belongs to (parent is public)
            top, seen = obj, set()
            while isinstance(getattr(top, 'parent', None), d.ResourceMap) and id(top) not in seen:
                seen.add(id(top))
                top = top.parent
            if top is not obj and id(top) not in self.tags:
                self.discover(top)
                if id(obj) in self.tags:
                    return self.tags[id(obj)]
        if isinstance(obj, d.ResourceMap):
            if implicit:
                self.implicit += 1
                k = 'i%d' % self.implicit
            else:
                k = 'm0' if not self.env.maps else 'x%d' % (sum(1 for t in self.env.maps if t[0] == 'x') + 1)
            self.tags[id(obj)] = k
            self.env.maps[k] = obj
            blank = True
            try:
                subs, layers = list(obj.maps.items()), [list(l.items()) for l in obj.handles.maps]
            except Exception:
                self.bad('tables of a map not readable')
                return k
            for n, c in subs + [kv for l in layers for kv in l]:
                blank = False
                if isinstance(n, str):
                    self.name(n)
                self.discover(c)
            if (not blank or len(layers) != 1) and self.events and not implicit:
                self.bad('a tree built outside the recorded calls shows up after the first call')
        elif isinstance(obj, d.Handle):
            k = 'h%d' % (len(self.env.handles) + 1)
            self.tags[id(obj)] = k
            self.env.handles[k] = HProxy(k, obj)
            self.S.wrap_load(type(obj))
            try:
                if obj.cached:
                    self.bad('a handle was already cached when first seen')
            except Exception:
                self.bad('cached not readable')
        else:
            self.bad('a %s inside a resource map' % type(obj).__name__)
            return '?'
        return k

    # -- observation ---------------------------------------------------------------------------
    def tables(self):
        """(maps, layers) in pool ids, as the real tables are now."""
        ids = self.ad._ids()
        mp = {k: {n: ids.get(id(c), '?') for n, c in m.maps.items()} for k, m in self.env.maps.items()}
        ly = {k: tuple({n: ids.get(id(h), '?') for n, h in l.items()} for l in m.handles.maps) for k, m in self.env.maps.items()}
        return mp, ly

    def signature(self):
        mp, ly = self.tables()
        ids = self.ad._ids()
        links = {k: (ids.get(id(getattr(o, 'parent', None)), '?'), getattr(o, 'key', None))
                 for k, o in list(self.env.maps.items()) + [(t, p.real) for t, p in self.env.handles.items()]}
        return mp, ly, links

    def catch_up(self):
        """Before a recorded call: what happened to the tables since the last observation?  Nothing, or PushLayer."""
        if self.sig is None or self.unsupported:
            return
        now = self.signature()
        # objects first seen with this call are not compared (they are blank, or the test is set aside anyway)
        now = tuple({k: v for k, v in part.items() if k in old} for part, old in zip(now, self.sig))
        if now == self.sig:
            return
        pushed = [k for k in now[1] if now[1][k] == ({},) + self.sig[1][k]]
        if len(pushed) == 1 and now[0] == self.sig[0] and now[2] == self.sig[2] \
                and all(now[1][k] == self.sig[1][k] for k in now[1] if k != pushed[0]):
            self.env.loaded, self.env.seen = [], []
            self.emit('PushLayer', (pushed[0],), ('ok',))
        else:
            self.bad('tables written directly between recorded calls')

    def emit(self, op, args, ret, extra=None):
        from . import record_resources as rr
        env = self.env
        self.S.observing += 1
        try:
            obs = {'ret': ret, 'loaded': tuple(sorted(env.loaded)), 'seen_in_load': tuple(sorted(env.seen))}
            obs.update(extra or {})
            for k, m in list(env.maps.items()):         # whatever the call brought along
                for c in list(m.maps.values()):
                    self.discover(c)
                for l in m.handles.maps:
                    for h in list(l.values()):
                        self.discover(h)
            self.ad._observe(obs)
            self.maxlayers = max([self.maxlayers] + [len(m.handles.maps) for m in env.maps.values()])
            self.events.append(rr.event(op, args, obs))
            self.sig = self.signature()
        except Exception as ex:     # noqa: a recorder failure must never disturb the test
            self.bad('recorder error: %r' % (ex,))
        finally:
            self.S.observing -= 1

    def first_call(self):
        """The tree as it is before the first recorded call."""
        if self.init is not None:
            return
        self.S.observing += 1
        try:
            mp, ly, links = self.signature()
            held = {c for d in mp.values() for c in d.values()} | {h for ls in ly.values() for l in ls for h in l.values()}
            self.init = {'maps': [[k, [list(kv) for kv in sorted(d.items())]] for k, d in sorted(mp.items())],
                         'layers': [[k, [[list(kv) for kv in sorted(l.items())] for l in ls]] for k, ls in sorted(ly.items())],
                         'parent': [[k, v[0]] for k, v in sorted(links.items()) if k in held],
                         'key': [[k, 'none' if v[1] is None else str(v[1])] for k, v in sorted(links.items()) if k in held],
                         'cached': []}
            self.sig = (mp, ly, links)
            if any('?' in d.values() for d in mp.values()):
                self.bad('foreign objects in the tables')
            # a hand-made tree must be one the public API could have made (BackLinks holds in the state it starts from)
            vis = {k: {n: h for l in reversed(ls) for n, h in l.items()} for k, ls in ly.items()}
            if any(links.get(c) != (k, n) for tab in (mp, vis) for k, d in tab.items() for n, c in d.items()) \
                    or any(set(mp[k]) & set(vis[k]) for k in mp):
                self.bad('the tree the fixtures wrote is not one the public API makes (back-links, or a name in both tables)')
        finally:
            self.S.observing -= 1

    def classify(self, v, ex, default=None):
        if ex is not None:
            if isinstance(ex, AssertionError):
                self.bad('a call the documentation excludes (assertion)')
            return ('exc', type(ex).__name__)
        if default is not None and v is default[0] and id(v) not in self.tags:
            return ('default',)
        return self.ad._classify(v)


class Session:
    def __init__(self):
        self.desper = None
        self.cur = None             # TRec of the running test
        self.results = []
        self.observing = 0
        self.orig = {}
        self.wrapped = set()

    def flush(self):
        R, self.cur = self.cur, None
        if R is None or not R.events:
            return
        from . import record_resources as rr
        order = ['m0'] + ['i%d' % i for i in range(1, R.implicit + 2)] + sorted((k for k in R.env.maps if k[0] == 'x'),
                                                                                 key=lambda k: int(k[1:]))
        if R.snapshots and any(hasattr(self.desper.StaticResourceMap, n) for n in R.env.names):
            R.bad('a resource name collides with a member of StaticResourceMap')
        self.results.append({'test': R.test, 'unsupported': R.unsupported, 'events': R.events, 'init': R.init,
                             'MapOrder': order, 'Hd': sorted(R.env.handles) or ['h0'], 'Names': list(R.env.names) or ['n0'],
                             'cls': dict(R.env.cls) or {'n0': 'plain'}, 'MaxDepth': MAX_DEPTH,
                             'MaxLayers': R.maxlayers + 1})

    # -- wrapping ------------------------------------------------------------------------------
    def wrap_load(self, cls):
        """Count the loads of the handle classes the tests define (load is the one method users override)."""
        for klass in cls.__mro__:
            if 'load' in klass.__dict__:
                if klass in self.wrapped:
                    return
                self.wrapped.add(klass)
                orig = klass.__dict__['load']
                S = self

                @functools.wraps(orig)
                def load(self_, *a, **kw):
                    R = S.cur
                    if R is None or S.observing:
                        return orig(self_, *a, **kw)
                    k = R.discover(self_)
                    if R.in_load:
                        R.bad('a load() runs inside another load()')
                    try:
                        R.env.seen.append((k, bool(self_.cached)))
                    except Exception:
                        R.bad('cached not readable during load()')
                    R.in_load += 1
                    try:
                        v = orig(self_, *a, **kw)
                    except BaseException:
                        R.bad('a load() raised')
                        raise
                    finally:
                        R.in_load -= 1
                    R.env.loaded.append(k)
                    R.env.handles[k].products.append(v)
                    return v

                klass.load = load
                return

    def call(self, kind, op_args, run, mutates=False, default=None, post=None):
        """Run one public call; top-level calls become events.  Recorder failures never reach the test."""
        R = self.cur
        if R is None or self.observing:
            return run()
        if R.in_load:
            if mutates:
                R.bad('the tree is changed from inside load()')
            return run()
        if R.depth:
            return run()
        args = kids = None
        self.observing += 1
        try:
            args = op_args(R)
            if args is not None:
                R.first_call()
                R.catch_up()
                if kind == 'Clear':
                    m = R.env.maps[args[0]]
                    kids = list(m.maps.values()) + list(m.handles.values())
        except Exception as ex:     # noqa
            R.bad('recorder error: %r' % (ex,))
            args = None
        finally:
            self.observing -= 1
        if args is None:
            return run()        # not a call on the modelled objects: whatever it does inside is recorded on its own
        R.depth += 1
        try:
            R.env.loaded, R.env.seen = [], []
            v = ex = None
            try:
                v = run()
                return v
            except BaseException as e:      # noqa: recorded, then it continues on its way
                ex = e
                raise
            finally:
                self.observing += 1
                try:
                    extra = {}
                    if post:
                        post(R, args, v, ex)
                    if kind == 'Clear':
                        m = R.env.maps[args[0]]
                        ids = R.ad._ids()
                        extra['empty_after_clear'] = (not m.maps) and (not m.handles)
                        extra['detached'] = tuple(sorted((ids.get(id(c), '?'), ids.get(id(getattr(c, 'parent', None)), '?'),
                                                          'none' if getattr(c, 'key', None) is None else str(c.key)) for c in kids))
                    if kind == 'Snapshot' and ex is None:
                        ret = ('snap', args[0])
                    elif kind in ('SetItem', 'Clear', 'ClearHandle', 'SSetAttr', 'SDelAttr') and ex is None:
                        ret = ('ok',) if v is None else ('?', type(v).__name__)
                    else:
                        ret = R.classify(v, ex, default)
                    R.emit(kind, args, ret, extra)
                except Exception as e2:     # noqa
                    R.bad('recorder error: %r' % (e2,))
                finally:
                    self.observing -= 1
        finally:
            R.depth -= 1

    def install(self):
        import desper
        self.desper = desper
        RM, H, SM = desper.ResourceMap, desper.Handle, desper.StaticResourceMap
        S = self
        o = self.orig
        for cls, names in ((RM, ('__setitem__', '__getitem__', 'get', 'clear', 'get_static_map')), (H, ('__call__', 'clear')),
                           (SM, ('__getitem__', '__getattribute__', 'get', '__setattr__', '__delattr__'))):
            for n in names:
                o[cls.__name__, n] = cls.__dict__[n]

        def keyed(self_, key, R):
            if not isinstance(key, str):
                R.bad('non-string key')
                return None
            return (R.discover(self_), R.path(key))

        def can_set(R, m, p, node):
            """The generated domain of SetItem, on the real tables (a node sits in one place: no staging moves; it may be
            stored again where it is)."""
            from . import record_resources as rr
            mp, ly = R.tables()
            sh = rr.Shadow(['m0'] + sorted(k for k in mp if k != 'm0'), mp, ly)
            if not sh.can_set(m, tuple(p), node, (), pool=False, moves=False):
                return False
            # the least free pool id must be a reserved one never used before
            return not any(k[0] == 'i' and k not in sh.held and sh.blank(k) and k not in (m, node) for k in sh.mp)

        def setitem(self_, key, value):
            def args(R):
                a = keyed(self_, key, R)
                if a is None or not isinstance(value, (RM, H)):
                    R.bad('a call the documentation excludes (value is no resource)')
                    return None
                node = R.discover(value)
                if R.unsupported or not can_set(R, a[0], a[1], node):
                    R.bad('assignment outside the generated domain of SetItem (node already in a map, cycle, or id reuse)')
                    return None
                return (a[0], tuple(a[1]), node)

            def post(R, a, v, ex):
                cur = self_
                for n in a[1][:-1]:             # maps made for intermediate key parts, in walk order
                    cur = cur.maps.get(n) if isinstance(cur, RM) else None
                    if cur is None:
                        break
                    R.discover(cur, implicit=True)
            return S.call('SetItem', args, lambda: o['ResourceMap', '__setitem__'](self_, key, value), True, post=post)

        def getitem(self_, key):
            return S.call('GetItem', lambda R: (lambda a: a and (a[0], tuple(a[1])))(keyed(self_, key, R)),
                          lambda: o['ResourceMap', '__getitem__'](self_, key))

        def get(self_, key, default=None):
            return S.call('Get', lambda R: (lambda a: a and (a[0], tuple(a[1])))(keyed(self_, key, R)),
                          lambda: o['ResourceMap', 'get'](self_, key, default), default=(default,))

        def clear(self_):
            return S.call('Clear', lambda R: (R.discover(self_),), lambda: o['ResourceMap', 'clear'](self_), True)

        def get_static_map(self_):
            def post(R, a, v, ex):
                R.env.snaps = {}
                R.snapshots = True
                if ex is None:
                    R.ad._bind_snapshot(v, a[0])
                    R.keep.append(v)
                    R.all_snaps.update(id(s) for s in R.env.snaps.values())
            return S.call('Snapshot', lambda R: (R.discover(self_),), lambda: o['ResourceMap', 'get_static_map'](self_),
                          post=post)

        def hcall(self_):
            return S.call('Call', lambda R: (R.discover(self_),), lambda: o['Handle', '__call__'](self_))

        def hclear(self_):
            return S.call('ClearHandle', lambda R: (R.discover(self_),), lambda: o['Handle', 'clear'](self_), True)

        def snode(R, self_):
            """The snapshot at hand is the latest one: it is kept, and read, while its map changes (KeepSnap)."""
            k = next((k for k, s in R.env.snaps.items() if s is self_), None)
            if k is None and id(self_) in R.all_snaps:
                R.bad('a snapshot older than the latest one is read')
            return k

        def sargs(self_, name):
            def f(R):
                x = snode(R, self_)
                if x is None or not isinstance(name, str):
                    return None
                return (x, R.name(name))
            return f

        def sgetitem(self_, key):
            return S.call('SItem', sargs(self_, key), lambda: o['StaticResourceMap', '__getitem__'](self_, key))

        def sgetattribute(self_, name):
            R = S.cur
            if R is None or S.observing or R.depth or R.in_load or not R.env.snaps or \
                    (name not in R.env.real and hasattr(SM, name)) or snode(R, self_) is None:
                return o['StaticResourceMap', '__getattribute__'](self_, name)
            kind = 'SAttr' if name.isidentifier() else 'SItem'
            return S.call(kind, sargs(self_, name), lambda: o['StaticResourceMap', '__getattribute__'](self_, name))

        def sget(self_, key):
            return S.call('SGet', sargs(self_, key), lambda: o['StaticResourceMap', 'get'](self_, key))

        def ssetattr(self_, name, value):
            return S.call('SSetAttr', sargs(self_, name), lambda: o['StaticResourceMap', '__setattr__'](self_, name, value))

        def sdelattr(self_, name):
            return S.call('SDelAttr', sargs(self_, name), lambda: o['StaticResourceMap', '__delattr__'](self_, name))

        RM.__setitem__, RM.__getitem__, RM.get, RM.clear, RM.get_static_map = setitem, getitem, get, clear, get_static_map
        H.__call__, H.clear = hcall, hclear
        SM.__getitem__, SM.__getattribute__, SM.get, SM.__setattr__, SM.__delattr__ = \
            sgetitem, sgetattribute, sget, ssetattr, sdelattr


S = Session()


def pytest_configure(config):
    if OUT:
        S.install()


@pytest.hookimpl(tryfirst=True)
def pytest_runtest_setup(item):
    if OUT:         # before the fixtures of the test are set up
        S.flush()
        S.cur = TRec(S, item.nodeid)


def pytest_runtest_teardown(item, nextitem):
    if OUT:
        S.flush()


def pytest_sessionfinish(session, exitstatus):
    if OUT:
        S.flush()
        with open(OUT, 'w') as f:
            json.dump(S.results, f)

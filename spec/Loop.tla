-------------------------------- MODULE Loop --------------------------------
(***************************************************************************)
(* desper.loop: SimpleLoop, switch(), quit_loop(), Quit / SwitchWorld,     *)
(* world handles with cached world instances (Handle caching, C12) and the *)
(* enabled/disabled gate of every world instance (Dispatcher.tla, C04).    *)
(*                                                                         *)
(* One action = one iteration of SimpleLoop.loop (`Frame`), parameterised  *)
(* by what the running world's code does in that frame: at one of the      *)
(* request sites (first processor, on_update callback, coroutine body,     *)
(* last processor) it may call switch(), raise SwitchWorld, Quit, call     *)
(* quit_loop(), raise another exception, or dispatch an event into another *)
(* (left) world.  Callbacks of the harness only log, so the release of an  *)
(* entered world is a deterministic sequence and the frame is one step.    *)
(*                                                                         *)
(* World instances are numbered in creation order (a load() call creates   *)
(* instance nextInst).  A fresh instance is disabled and holds its         *)
(* load-time callbacks (on_add relay, on_world_load) in its queue.         *)
(*                                                                         *)
(* Switches (TRUE = intended, FALSE = as implemented at 05622c8):          *)
(*   SwitchClearsBeforeLoad (D16)   StartResetsInFinally (D17)             *)
(*   SelfSwitchByHandle (D27, FALSE = as coded after the repair of D16)    *)
(***************************************************************************)
EXTENDS Naturals, Integers, Sequences, FiniteSets, TLC

CONSTANTS Hs,          \* world handles (strings)
          MaxInst,     \* guard: at most this many world instances are ever loaded
          MaxFrames,   \* guard: frames per behaviour
          Incs,        \* clock increments offered per iteration (non-negative integers)
          Sites,       \* subset of {"p1", "upd", "co", "p2"}: request sites explored
          Reqs,        \* subset of {"nop","switch","raise","quit","quit_loop","error","poke"}
          SwitchClearsBeforeLoad, StartResetsInFinally,
          SelfSwitchByHandle   \* (D27) switch() recognises "the handle the loop runs from" by the handle as well, not only
                               \* by the instance it caches (FALSE: as coded after the repair of D16 - a running world whose
                               \* handle was un-cached by the running code and is re-entered with clear_current loses on_switch_in)

VARIABLES inst,      \* handle -> cached instance id, 0 = not cached
          nextInst,
          en,        \* instance -> dispatching enabled
          q,         \* instance -> queue of postponed events <<name, from, to>>
          cur,       \* handle the loop runs ("none" before the first switch)
          curInst,   \* instance the loop processes (0 = none)
          running, started,
          last,      \* previous clock reading, -1 = None
          now,       \* clock
          frames,
          coUsed,    \* instances whose harness coroutine already raised a request (a generator that raised is finished)
          log,       \* ghost: what happened in the last call: sequence of records (see below)
          ret        \* outcome of the last call

vars == <<inst, nextInst, en, q, cur, curInst, running, started, last, now, frames, coUsed, log, ret>>

NoTS == 0 - 1
AllSites == <<"p1", "upd", "co", "p2">>
SiteIdx(s) == CHOOSE i \in 1..4 : AllSites[i] = s
Insts == 1..MaxInst
LoadQueue == <<<<"on_add", 0, 0>>, <<"on_world_load", 0, 0>>>>

Init == /\ inst = [h \in Hs |-> 0] /\ nextInst = 1
        /\ en = [i \in Insts |-> FALSE] /\ q = [i \in Insts |-> <<>>]
        /\ cur = "none" /\ curInst = 0 /\ running = FALSE /\ started = FALSE
        /\ last = NoTS /\ now = 0 /\ frames = 0 /\ coUsed = {} /\ log = <<>> /\ ret = "ok"

(***************************************************************************)
(* A record threaded through one frame:  s = [inst, nextInst, en, q, log]  *)
(* log entries:  <<"run", instance, site, dt>>     a site of the running world executed with that dt           *)
(*               <<"ev", instance, name, from, to>> an event callback delivered in that instance                 *)
(*               <<"load", handle, instance>>       handle.load() ran and produced that instance                 *)
(***************************************************************************)
S0 == [inst |-> inst, nextInst |-> nextInst, en |-> en, q |-> q, log |-> <<>>]

\* handle(): cached instance, or load a fresh disabled one
Call(s, h) == IF s.inst[h] # 0 THEN <<s, s.inst[h]>>
              ELSE LET i == s.nextInst IN
                   <<[s EXCEPT !.inst[h] = i, !.nextInst = i + 1, !.en[i] = FALSE, !.q[i] = LoadQueue,
                               !.log = Append(@, <<"load", h, i>>)], i>>
ClearH(s, h) == [s EXCEPT !.inst[h] = 0]

\* world.dispatch(name, a, b) on instance i
Dispatch(s, i, name, a, b) ==
    IF s.en[i] THEN [s EXCEPT !.log = Append(@, <<"ev", i, name, a, b>>)]
    ELSE [s EXCEPT !.q[i] = Append(@, <<name, a, b>>)]

\* world.dispatch_enabled = True on instance i: release in order
RECURSIVE ReleaseAll(_, _, _)
ReleaseAll(lg, i, qq) == IF qq = <<>> THEN lg
                         ELSE ReleaseAll(Append(lg, <<"ev", i, Head(qq)[1], Head(qq)[2], Head(qq)[3]>>), i, Tail(qq))
Enable(s, i) == [s EXCEPT !.en[i] = TRUE, !.log = ReleaseAll(@, i, s.q[i]), !.q[i] = <<>>]

\* desper.switch(h, cc, cn) called by code of the running instance w.  Returns <<state when SwitchWorld is raised,
\* clear_current and clear_next as carried by the exception>>.  A switch is a self-switch when the target handle
\* currently caches the very instance that is running, or is the handle the loop runs from (whose cache the running
\* code may have dropped meanwhile): in both cases the loop's clear_current would hit the target.
SwitchFn(s, w, curH, h, cc, cn) ==
    LET self == (s.inst[h] # 0 /\ s.inst[h] = w) \/ (SelfSwitchByHandle /\ h = curH)
        early == SwitchClearsBeforeLoad /\ (cn \/ (cc /\ self))
        pre == IF early THEN ClearH(s, h) ELSE s
        c == Call(pre, h)
        to == c[2]
        s1 == Dispatch(c[1], w, "on_switch_out", w, to)
        s2 == [s1 EXCEPT !.en[w] = FALSE, !.en[to] = FALSE]
    IN <<Dispatch(s2, to, "on_switch_in", w, to),
         IF early /\ self THEN FALSE ELSE cc,
         IF early THEN FALSE ELSE cn>>

\* Loop.switch + SimpleLoop.switch executed by the loop when it catches SwitchWorld(h, cc, cn)
LoopSwitch(s, curH, h, cc, cn) ==
    LET s1 == IF cc /\ curH # "none" THEN ClearH(s, curH) ELSE s
        s2 == IF cn THEN ClearH(s1, h) ELSE s1
        c == Call(s2, h)
    IN <<Enable(c[1], c[2]), c[2]>>

Commit(s) == /\ inst' = s.inst /\ nextInst' = s.nextInst /\ en' = s.en /\ q' = s.q /\ log' = s.log

\* the sites of the running instance that execute before (and including) the requesting site
RECURSIVE RunSites(_, _, _, _, _)
RunSites(s, w, from, upto, dt) ==
    IF upto < from THEN s
    ELSE [RunSites(s, w, from, upto - 1, dt) EXCEPT !.log = Append(@, <<"run", w, AllSites[upto], dt>>)]

----------------------------------------------------------------------------
(* Top-level calls *)

\* the program makes handle h the loop's world before starting (loop.switch(h) from outside)
InitialSwitch(h) ==
    /\ ~running /\ nextInst <= MaxInst
    /\ LET r == LoopSwitch(S0, cur, h, FALSE, FALSE) IN
       /\ Commit(r[1]) /\ cur' = h /\ curInst' = r[2]
    /\ ret' = "ok" /\ UNCHANGED <<running, started, last, now, frames, coUsed>>

\* loop.start(): modelled as the begin of a run; the frames follow as separate steps
Start == /\ ~running /\ curInst # 0
         /\ running' = TRUE /\ started' = TRUE /\ log' = <<>> /\ ret' = "ok"
         /\ UNCHANGED <<inst, nextInst, en, q, cur, curInst, last, now, frames, coUsed>>

\* one iteration of SimpleLoop.loop.  req = <<kind, handle, cc, cn>>
Frame(inc, site, req) ==
    /\ running /\ frames < MaxFrames
    /\ site \in Sites /\ req[1] \in Reqs
    /\ (req[1] \in {"switch", "raise", "switchq", "direct"} => nextInst + 1 <= MaxInst)
    /\ (req[1] \in {"poke", "respawn", "quitto"} => inst[req[2]] # 0 /\ inst[req[2]] # curInst /\ Len(q[inst[req[2]]]) < 3)
    /\ (req[1] \in {"nop"} => site = "p2")           \* a frame without request runs every site
    /\ frames' = frames + 1
    /\ (site = "co" => curInst \notin coUsed)
    /\ coUsed' = IF site = "co" /\ req[1] \notin {"nop", "poke", "direct", "respawn"} THEN coUsed \cup {curInst} ELSE coUsed
    /\ LET reading == now + inc
           dt == IF last = NoTS THEN 0 ELSE reading - last
           w == curInst
           k == SiteIdx(site)
           s1 == RunSites(S0, w, 1, k, dt)
       IN /\ now' = reading
          /\ CASE req[1] = "nop" ->
                    /\ Commit(s1) /\ last' = reading /\ ret' = "ok"
                    /\ UNCHANGED <<cur, curInst, running>>
               [] req[1] = "poke" ->         \* an event dispatched into another, cached world instance
                    /\ Commit(RunSites(Dispatch(s1, inst[req[2]], "poke", 0, 0), w, k + 1, 4, dt))
                    /\ last' = reading /\ ret' = "ok" /\ UNCHANGED <<cur, curInst, running>>
               [] req[1] = "respawn" ->
                    \* the running code replaces the only listener of another, cached world: it deletes that world's
                    \* observer, dispatches an event into that world while nobody listens there, then creates a new
                    \* observer.  A muted world holds the event (its name stays known to the dispatcher) and the new
                    \* observer - registered by the time the world is entered - receives it, after nothing else.
                    LET i == inst[req[2]]
                        s2 == IF s1.en[i]
                              THEN [s1 EXCEPT !.log = Append(@, <<"ev", i, "on_add", 0, 0>>)]
                              ELSE [s1 EXCEPT !.q[i] = @ \o <<<<"poke", 0, 0>>, <<"on_add", 0, 0>>>>] IN
                    /\ Commit(RunSites(s2, w, k + 1, 4, dt))
                    /\ last' = reading /\ ret' = "ok" /\ UNCHANGED <<cur, curInst, running>>
               [] req[1] = "switch" ->
                    LET f == SwitchFn(s1, w, cur, req[2], req[3], req[4])
                        r == LoopSwitch(f[1], cur, req[2], f[2], f[3]) IN
                    /\ Commit(r[1]) /\ cur' = req[2] /\ curInst' = r[2]
                    /\ last' = reading /\ ret' = "switched" /\ UNCHANGED running
               [] req[1] = "switchq" ->
                    \* switch(h) where the entered world's on_switch_in handler raises Quit: the loop has switched and
                    \* released the entered world's events (the event that raised is not kept), then start() returns
                    LET f == SwitchFn(s1, w, cur, req[2], FALSE, FALSE)
                        r == LoopSwitch(f[1], cur, req[2], f[2], f[3]) IN
                    /\ Commit(r[1]) /\ cur' = req[2] /\ curInst' = r[2]
                    /\ running' = FALSE /\ last' = NoTS /\ ret' = "returned"
               [] req[1] = "direct" ->
                    \* the running code calls loop.switch(h) itself and lets the frame finish: the rest of this frame
                    \* still belongs to the world being processed, the next iteration processes the new current world
                    LET r == LoopSwitch(s1, cur, req[2], FALSE, FALSE) IN
                    /\ Commit(RunSites(r[1], w, k + 1, 4, dt)) /\ cur' = req[2] /\ curInst' = r[2]
                    /\ last' = reading /\ ret' = "ok" /\ UNCHANGED running
               [] req[1] = "qlerr" ->
                    \* quit_loop() whose on_quit handler raises something else: that exception reaches the caller
                    /\ Commit(Dispatch(s1, w, "on_quit", 0, 0)) /\ running' = FALSE
                    /\ last' = IF StartResetsInFinally THEN NoTS ELSE reading
                    /\ ret' = "raised" /\ UNCHANGED <<cur, curInst>>
               [] req[1] = "raise" ->
                    LET r == LoopSwitch(s1, cur, req[2], req[3], req[4]) IN
                    /\ Commit(r[1]) /\ cur' = req[2] /\ curInst' = r[2]
                    /\ last' = reading /\ ret' = "switched" /\ UNCHANGED running
               [] req[1] = "quit" ->
                    /\ Commit(s1) /\ running' = FALSE /\ last' = NoTS /\ ret' = "returned"
                    /\ UNCHANGED <<cur, curInst>>
               [] req[1] = "quit_loop" ->
                    /\ Commit(Dispatch(s1, w, "on_quit", 0, 0)) /\ running' = FALSE /\ last' = NoTS /\ ret' = "returned"
                    /\ UNCHANGED <<cur, curInst>>
               [] req[1] = "quitto" ->
                    \* quit_loop(target) with an explicit target: on_quit goes to the GIVEN world - another, cached
                    \* instance, which is muted and therefore holds it - not to the one that is running
                    /\ Commit(Dispatch(s1, inst[req[2]], "on_quit", 0, 0)) /\ running' = FALSE /\ last' = NoTS /\ ret' = "returned"
                    /\ UNCHANGED <<cur, curInst>>
               [] req[1] = "clrquit" ->
                    \* the running code drops the cache of the current handle, then calls quit_loop(): on_quit still
                    \* goes to the world that is running, which stays the loop's current world
                    /\ Commit(Dispatch(IF cur # "none" THEN ClearH(s1, cur) ELSE s1, w, "on_quit", 0, 0))
                    /\ running' = FALSE /\ last' = NoTS /\ ret' = "returned"
                    /\ UNCHANGED <<cur, curInst>>
               [] req[1] = "error" ->
                    \* any other exception propagates out of start(); `running` is left as it is (not specified)
                    /\ Commit(s1) /\ running' = FALSE
                    /\ last' = IF StartResetsInFinally THEN NoTS ELSE reading
                    /\ ret' = "raised" /\ UNCHANGED <<cur, curInst>>
    /\ UNCHANGED started

ReqSet == {<<"nop", "-", FALSE, FALSE>>, <<"quit", "-", FALSE, FALSE>>, <<"quit_loop", "-", FALSE, FALSE>>,
           <<"clrquit", "-", FALSE, FALSE>>, <<"qlerr", "-", FALSE, FALSE>>,
           <<"error", "-", FALSE, FALSE>>}
          \cup {<<k, h, FALSE, FALSE>> : k \in {"poke", "switchq", "direct", "respawn", "quitto"}, h \in Hs}
          \cup {<<k, h, cc, cn>> : k \in {"switch", "raise"}, h \in Hs, cc \in BOOLEAN, cn \in BOOLEAN}

Next == \/ (\E h \in Hs : InitialSwitch(h))
        \/ Start
        \/ (\E inc \in Incs, site \in Sites, req \in ReqSet : Frame(inc, site, req))
Spec == Init /\ [][Next]_vars

----------------------------------------------------------------------------
(* Declarative layer *)
IsFrame == frames' = frames + 1
Runs(lg) == SelectSeq(lg, LAMBDA x : x[1] = "run")
Evs(lg, name) == SelectSeq(lg, LAMBDA x : x[1] = "ev" /\ x[3] = name)

\* C14
FirstDtZero == [][(IsFrame /\ last = NoTS) => \A i \in 1..Len(Runs(log')) : Runs(log')[i][4] = 0]_vars
DtIsDifference == [][(IsFrame /\ last # NoTS) => \A i \in 1..Len(Runs(log')) : Runs(log')[i][4] = now' - last]_vars
LastIsReading == [][(IsFrame /\ running') => last' = now']_vars
\* (the current world stays, unless the Quit came out of a switch that had already been performed: request "switchq")
QuitReturnsNormally == [][(IsFrame /\ ret' = "returned") =>
                            /\ ~running' /\ last' = NoTS
                            /\ (Len(Evs(log', "on_switch_out")) = 0 => cur' = cur /\ curInst' = curInst)]_vars
\* on_quit goes to the current world, or to the world given to quit_loop (request "quitto") - never anywhere else
OnQuitDeliveredInCurrent ==
    \* (a "switchq" frame enters another world before it returns: what that world had been holding - possibly an on_quit
    \* addressed to it by an earlier quit_loop(target) - is released there; the request itself dispatches no on_quit)
    [][\A inc \in Incs, site \in Sites, req \in ReqSet : (Frame(inc, site, req) /\ ret' = "returned" /\ req[1] # "switchq") =>
          \A i \in 1..Len(Evs(log', "on_quit")) :
              Evs(log', "on_quit")[i][2] = (IF req[1] = "quitto" THEN inst[req[2]] ELSE curInst)]_vars
StartAlwaysFresh == (~running) => last = NoTS

\* C13
RunsOnlyCurrent == [][IsFrame => \A i \in 1..Len(Runs(log')) : Runs(log')[i][2] = curInst]_vars
\* the frame is abandoned at the request: no site after the requesting one runs
FrameAbandoned == [][IsFrame /\ ret' \in {"switched", "returned", "raised"} =>
                        \A i \in 1..Len(Runs(log')) : \A j \in 1..Len(Runs(log')) : i < j => SiteIdx(Runs(log')[i][3]) < SiteIdx(Runs(log')[j][3])]_vars
\* switch(): out once in the world being left, in once in the instance that is entered, after its load-time callbacks
SwitchedByFn == IsFrame /\ ret' \in {"switched", "returned"} /\ Len(Evs(log', "on_switch_out")) > 0
OutOnceInLeft == [][SwitchedByFn =>
                       (Len(Evs(log', "on_switch_out")) = 1 /\ Evs(log', "on_switch_out")[1][2] = curInst)]_vars
InOnceInEntered == [][SwitchedByFn =>
                        /\ Len(Evs(log', "on_switch_in")) = 1
                        /\ Evs(log', "on_switch_in")[1][2] = curInst'
                        /\ Evs(log', "on_switch_in")[1][5] = curInst'
                        /\ \A i \in 1..Len(log') : (log'[i][1] = "ev" /\ log'[i][3] \in {"on_add", "on_world_load"} /\ log'[i][2] = curInst') =>
                               \E j \in (i + 1)..Len(log') : log'[j][1] = "ev" /\ log'[j][3] = "on_switch_in"]_vars
\* a world left through switch() is muted: it holds what is dispatched to it until it is entered again
LeftWorldMuted == [][(IsFrame /\ ret' = "switched" /\ Len(Evs(log', "on_switch_out")) > 0 /\ curInst' # curInst) => ~en'[curInst]]_vars
CurrentEnabled == (running /\ curInst # 0) => (en[curInst] /\ q[curInst] = <<>>)
ClearYieldsFresh == [][(IsFrame /\ ret' = "switched") => (cur' # "none" /\ inst'[cur'] = curInst')]_vars
\* (the handle of the running world may be un-cached by the running code itself - "clrquit" - which is why a
\* self-switch is recognised by the cached instance and not by the handle)
=============================================================================

------------------------------ MODULE LoopSim ------------------------------
(***************************************************************************)
(* Loop.tla with the label of the last action kept in the state, so that   *)
(* behaviours produced by `tlc -simulate` (which names the action but not  *)
(* its parameters) can be replayed into the real SimpleLoop: random long   *)
(* behaviours over constants far beyond what an exhaustive dump can hold   *)
(* (more handles, all request sites and kinds at once, tens of frames).    *)
(***************************************************************************)
EXTENDS Loop
VARIABLE act
svars == <<vars, act>>
SInit == Init /\ act = <<"Init">>
SNext == \/ (\E h \in Hs : InitialSwitch(h) /\ act' = <<"InitialSwitch", h>>)
         \/ (Start /\ act' = <<"Start">>)
         \/ (\E inc \in Incs, site \in Sites, req \in ReqSet : Frame(inc, site, req) /\ act' = <<"Frame", inc, site, req>>)
SSpec == SInit /\ [][SNext]_svars
=============================================================================

-------------------------- MODULE DispatcherTrace --------------------------
(***************************************************************************)
(* Pipeline B: executions recorded from the real EventDispatcher (long     *)
(* random histories over a larger pool than TLC explores exhaustively) are *)
(* checked against Dispatcher.tla.  One TLC run validates a whole batch:   *)
(* `tid` selects the trace, `l` is the next event to consume.  A recorded  *)
(* event is one public call with its arguments and the complete observable *)
(* state after it returned (outcome, callback log, enabled flag,           *)
(* registered and alive handlers, ids still queued).  The internal steps   *)
(* of the specification (Deliver, RelStep, ...) are silent; the recorded   *)
(* observation must hold in the idle state that ends the call, otherwise   *)
(* that branch is pruned (CONSTRAINT ObsOK).  A trace is accepted iff some *)
(* branch consumes every event; all invariants of Dispatcher are checked   *)
(* in every state on the way.                                              *)
(***************************************************************************)
EXTENDS Dispatcher, Json, IOUtils

Traces == JsonDeserialize(IOEnv.TRACE_FILE)

VARIABLES tid, l
tvars == <<vars, tid, l>>

ToSet(s) == {s[i] : i \in 1..Len(s)}
Evs == Traces[tid].events
Cur == Evs[l]

TInit == /\ tid \in 1..Len(Traces)
         /\ TLCSet(tid, 0)
         /\ subs = [h \in H |-> ToSet(Traces[tid].header.subs[h])]
         /\ beh = [h \in H |-> Traces[tid].header.beh[h]]
         /\ held = H /\ alive = H /\ reg = {} /\ known = {}
         /\ enabled = TRUE /\ queue = <<>> /\ stack = <<>> /\ eid = 0
         /\ log = <<>> /\ ret = "ok" /\ call = "none" /\ delivered = {} /\ bad = "none"
         /\ evOf = <<>> /\ snapOf = <<>>
         /\ l = 1

Consume(A) == /\ l <= Len(Evs) /\ A /\ l' = l + 1 /\ UNCHANGED tid

TNext == \/ Consume(Cur.op = "AddHandler" /\ AddHandler(Cur.arg))
         \/ Consume(Cur.op = "RemoveHandler" /\ RemoveHandler(Cur.arg))
         \/ Consume(Cur.op = "DropRef" /\ DropRef(Cur.arg))
         \/ Consume(Cur.op = "Dispatch" /\ Dispatch(Cur.arg))
         \/ Consume(Cur.op = "SetEnabled" /\ SetEnabled(Cur.arg))
         \/ Consume(Cur.op = "Clear" /\ Clear)
         \/ (Internal /\ UNCHANGED <<tid, l>>)

TraceSpec == TInit /\ [][TNext]_tvars

QueueIds == [i \in 1..Len(queue) |-> queue[i].id]
\* Traces recorded by observing the repository's own tests see only public calls and callbacks: the ids that the
\* harness's own recorder threads through the payload, and the pending queue, are unknown there (header.ids = FALSE):
\* the callback log is then compared without ids and the queue is not compared.
WithIds == Traces[tid].header.ids
NoId(lg) == [i \in 1..Len(lg) |-> <<lg[i][2], lg[i][3]>>]
\* the observation recorded after call l-1 must hold when that call has returned
ObsOK == (Idle /\ l > 1) =>
            LET e == Evs[l - 1] IN
            /\ ret = e.ret /\ enabled = e.enabled
            /\ (IF WithIds THEN log = e.log /\ (e.queue # <<0 - 1>> => QueueIds = e.queue) ELSE NoId(log) = NoId(e.log))
               \* queue = <<-1>>: the recorder could not see the pending queue (private attribute re-laid out)
            /\ reg = ToSet(e.reg) /\ alive = ToSet(e.alive)
\* while the call is still running, the callbacks made so far must be a prefix of the recorded log: wrong
\* iteration orders are pruned at once, which keeps validation linear in the length of the trace
PrefixOK == (~Idle /\ l > 1) =>
               LET e == Evs[l - 1] IN
               /\ Len(log) <= Len(e.log)
               /\ \A i \in 1..Len(log) : IF WithIds THEN log[i] = e.log[i] ELSE log[i][2] = e.log[i][2] /\ log[i][3] = e.log[i][3]
\* per-trace high-water mark of consumed events (register tid; needs -workers 1)
Track == ObsOK /\ PrefixOK /\ (Idle => TLCSet(tid, IF l > TLCGet(tid) THEN l ELSE TLCGet(tid)))

Rejected == {t \in 1..Len(Traces) : TLCGet(t) # Len(Traces[t].events) + 1}
Accepted == \/ Rejected = {}
            \/ (\A t \in Rejected : PrintT(<<"REJECT", t, TLCGet(t)>>)) /\ FALSE
=============================================================================

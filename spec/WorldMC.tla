------------------------------ MODULE WorldMC ------------------------------
(* Model-checking instances of World: named constant definitions for cfg files. *)
EXTENDS World

\* component classes: a diamond D(B, C), B(A), C(A) plus an unrelated X
T5 == {"A", "B", "C", "D", "X"}
Bases5 == [t \in T5 |-> CASE t = "A" -> {} [] t = "B" -> {"A"} [] t = "C" -> {"A"} [] t = "D" -> {"B", "C"} [] t = "X" -> {}]
\* chain: B(A) only
T2 == {"A", "B"}
Bases2 == [t \in T2 |-> IF t = "B" THEN {"A"} ELSE {}]

C4 == {"c1", "c2", "c3", "c4"}
TypeOf4 == [c \in C4 |-> CASE c = "c1" -> "A" [] c = "c2" -> "A" [] c = "c3" -> "D" [] c = "c4" -> "B"]
DeclNone4 == [c \in C4 |-> {}]

C3 == {"c1", "c2", "c3"}
TypeOf3 == [c \in C3 |-> CASE c = "c1" -> "A" [] c = "c2" -> "A" [] c = "c3" -> "B"]
\* c1 full handler, c2 declares only on_add (+probe), c3 declares only on_remove
Decl3 == [c \in C3 |-> CASE c = "c1" -> {"on_add", "on_remove", "probe"} [] c = "c2" -> {"on_add", "probe"} [] c = "c3" -> {"on_remove"}]
TypeOf3x == [c \in C3 |-> CASE c = "c1" -> "A" [] c = "c2" -> "A" [] c = "c3" -> "D"]
DeclNone3 == [c \in C3 |-> {}]
Decl3b == [c \in C3 |-> CASE c = "c1" -> {"on_add", "on_remove"} [] c = "c2" -> {} [] c = "c3" -> {"on_remove", "probe"}]

NoProcs == {}
NoPTypes == {}
EmptyFn == <<>>

\* processors: P2(P1), Q ; defaults 0, 0, 5
PT3 == {"P1", "P2", "Q"}
PBases3 == [t \in PT3 |-> IF t = "P2" THEN {"P1"} ELSE {}]
PR4 == {"p1", "p1b", "p2", "q"}
PTypeOf4 == [p \in PR4 |-> CASE p = "p1" -> "P1" [] p = "p1b" -> "P1" [] p = "p2" -> "P2" [] p = "q" -> "Q"]
PDefault3 == [t \in PT3 |-> IF t = "Q" THEN 5 ELSE 0]
PDecl4 == [p \in PR4 |-> CASE p = "p1" -> {"on_add", "on_remove"} [] p = "p1b" -> {} [] p = "p2" -> {"on_remove"} [] p = "q" -> {"on_add"}]
PR2 == {"p1", "q"}
PTypeOf2 == [p \in PR2 |-> IF p = "p1" THEN "P1" ELSE "Q"]
PDecl2 == [p \in PR2 |-> IF p = "p1" THEN {"on_add", "on_remove"} ELSE {}]
PriosC07 == {0 - 1, 0, 5}
=============================================================================

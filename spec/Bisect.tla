------------------------------- MODULE Bisect -------------------------------
(***************************************************************************)
(* desper/bisect.py (the module World.add_processor relies on for the      *)
(* execution order, C07): the lo/hi/mid loops of bisect_right and          *)
(* bisect_left transcribed as recursive operators, checked against their   *)
(* contracts on every sorted sequence over a small value set, and the      *)
(* insort variants on top of them.  Init chooses the input; `Eval`         *)
(* computes all four results; the dump is the test table replayed into the *)
(* real functions (with and without key=).                                 *)
(***************************************************************************)
EXTENDS Naturals, Integers, Sequences, FiniteSets, TLC

CONSTANTS Vals,     \* values (integers)
          MaxLen

VARIABLES a, x, res
vars == <<a, x, res>>

Sorted(s) == \A i, j \in 1..Len(s) : i < j => s[i] <= s[j]
Seqs == UNION {[1..n -> Vals] : n \in 0..MaxLen}

Init == a \in {s \in Seqs : Sorted(s)} /\ x \in Vals /\ res = <<>>

\* the loops of the code, 0-based lo/hi as in Python:  while lo < hi: mid = (lo+hi)//2; if x < a[mid]: hi = mid else lo = mid+1
RECURSIVE BR(_, _, _, _), BL(_, _, _, _)
BR(s, v, lo, hi) == IF lo < hi THEN LET mid == (lo + hi) \div 2 IN
                                     IF v < s[mid + 1] THEN BR(s, v, lo, mid) ELSE BR(s, v, mid + 1, hi)
                    ELSE lo
BL(s, v, lo, hi) == IF lo < hi THEN LET mid == (lo + hi) \div 2 IN
                                     IF s[mid + 1] < v THEN BL(s, v, mid + 1, hi) ELSE BL(s, v, lo, mid)
                    ELSE lo
InsertAt(s, i, v) == SubSeq(s, 1, i) \o <<v>> \o SubSeq(s, i + 1, Len(s))     \* i = 0-based insertion index

Eval == /\ res = <<>>
        /\ LET r == BR(a, x, 0, Len(a))  l == BL(a, x, 0, Len(a)) IN
           res' = <<r, l, InsertAt(a, r, x), InsertAt(a, l, x)>>
        /\ UNCHANGED <<a, x>>
Next == Eval
Spec == Init /\ [][Next]_vars

\* contracts (docstrings of the module)
RightContract == res # <<>> => /\ \A i \in 1..res[1] : a[i] <= x
                               /\ \A i \in (res[1] + 1)..Len(a) : a[i] > x
LeftContract == res # <<>> => /\ \A i \in 1..res[2] : a[i] < x
                              /\ \A i \in (res[2] + 1)..Len(a) : a[i] >= x
InsortKeepsSorted == res # <<>> => Sorted(res[3]) /\ Sorted(res[4]) /\ Len(res[3]) = Len(a) + 1
\* insort_right puts the new item after every equal one (stability of processor order)
RightIsAfterEquals == res # <<>> => \A i \in 1..Len(a) : a[i] = x => i <= res[1]
=============================================================================

--------------------------- MODULE DispatcherMC ---------------------------
(* Model-checking instances of Dispatcher: named choice sets for cfg files. *)
EXTENDS Dispatcher

BehSet(h) == {<<k, "-">> : k \in {"nop", "raise", "disable", "enable"}}
             \cup {<<"add", t>> : t \in H} \cup {<<"remove", t>> : t \in H}
             \cup {<<"drop", t>> : t \in H \ {h}}
             \cup {<<"disp", e>> : e \in Ev \ {Trigger}}
AllBeh == UNION {BehSet(h) : h \in H}
\* a handler that is on the Python stack while others run (nested enable/dispatch) cannot be collected:
\* such handlers are never chosen as drop targets, so `alive` needs no "busy" bookkeeping
BehOK(b) == \A h \in H : b[h] \in BehSet(h) /\ (b[h][1] = "drop" => b[b[h][2]][1] \notin {"disp", "enable"})
Beh_All == {b \in [H -> AllBeh] : BehOK(b)}
Beh_Kinds(K) == {b \in Beh_All : \A h \in H : b[h][1] \in K}
Beh_Nop == Beh_Kinds({"nop"})
Beh_C04 == Beh_Kinds({"nop", "raise", "disable", "enable"})
Beh_C10 == Beh_Kinds({"nop", "drop", "remove"})
Beh_C03 == Beh_Kinds({"nop", "add", "remove", "disp"})

Beh_OnlyH1(K) == {b \in Beh_Kinds(K) : \A h \in H \ {"h1"} : b[h][1] = "nop"}
Beh_C10_H1 == Beh_OnlyH1({"nop", "drop", "remove"})
Beh_C03_H1 == Beh_OnlyH1({"nop", "add", "remove", "disp"})

Subs_All == [H -> (SUBSET Ev) \ {{}}]
Subs_AllA == {s \in Subs_All : \A h \in H : Trigger \in s[h]}
Subs_Fixed == {[h \in H |-> IF h = "h1" THEN Ev ELSE {Trigger}]}
\* a handler that maps no event at all (a component that subscribes only in some configurations): registered all the same
Subs_OneSilent == {[h \in H |-> IF h = "h2" THEN {} ELSE {Trigger}]}
=============================================================================

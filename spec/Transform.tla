----------------------------- MODULE Transform -----------------------------
(***************************************************************************)
(* desper.logic.spatial.Transform2D / Transform3D — three stored values    *)
(* per transform, property setters that store and then dispatch the        *)
(* matching on_*_change event to the listeners registered on *that*        *)
(* transform (a Transform is an EventDispatcher).                          *)
(*                                                                         *)
(* Operational layer (shaped like spatial.py):                             *)
(*   Build            __init__ of every transform with the arguments       *)
(*                    chosen at Init (given or defaulted, copied into a    *)
(*                    fresh vector, 2D rotation reduced modulo 360)        *)
(*   SetPosition/SetRotation/SetScale(t, v)   one public assignment        *)
(*   AddListener/RemoveListener(t, l)         add_handler / remove_handler *)
(* A listener may re-enter the setter from its callback ("clamp": told a   *)
(* value other than its clamp value, it assigns the clamp value to the     *)
(* property that notified it) or raise from it ("raise": told about its    *)
(* property, it raises).  One public call is still one TLC step, but       *)
(* its effect is computed by running the code's statements in order on a   *)
(* machine state M = [st, lg, n, last, exc]:                               *)
(*   Assign(t, p, v, M)   the setter: store, then dispatch                 *)
(*   Loop(.., todo, M)    dispatch(): one callback per listener of the     *)
(*                        snapshot, in an order chosen by the              *)
(*                        specification (set iteration order); each        *)
(*                        callback records what a read of the property     *)
(*                        returns at that moment and may call Assign or    *)
(*                        raise                                            *)
(* so every interleaving of outer and nested deliveries is an outcome.     *)
(* An exception raised by a callback is not handled anywhere in the        *)
(* library: it leaves the dispatch loop (the listeners of the snapshot not *)
(* yet served are not called), the setter (which has stored the value      *)
(* already: nothing is undone), every enclosing callback / dispatch /      *)
(* setter of a nested assignment alike, and reaches the caller of the      *)
(* public assignment (M.exc, call.exc).                                    *)
(* Ghosts for the declarative layer: `log` (deliveries of the last call in *)
(* order, each [l, ev, sent, read, seq, fresh]) and `call`; the properties *)
(* are at the end (C20).                                                   *)
(*                                                                         *)
(* Values are tagged so that TLC never compares a number with a token:     *)
(*   <<"n", i>> a number,  <<"v", tok>> a vector identified by a token.    *)
(*                                                                         *)
(* Deviation switches (TRUE = intended, FALSE = deviating):                *)
(*   RotationNotifiesStored   D20 (as implemented at 05622c8): the 2D      *)
(*                            rotation setter dispatches the reduced value *)
(*                            it stored, not the raw one                   *)
(*   StoreBeforeNotify        the setter stores first (as coded); FALSE =  *)
(*                            the two statements swapped, used only to     *)
(*                            show that the order properties can fail      *)
(***************************************************************************)
EXTENDS Integers, Sequences, FiniteSets, TLC

CONSTANTS T2, T3,        \* ids of the 2D / 3D transforms (strings)
          L,             \* listener ids (strings)
          Rot,           \* scalar rotations that are assigned / given to the constructor (integers)
          Vecs,          \* tokens of the vectors that are assigned / given to the constructor
          SubsChoices,   \* set of functions [L -> SUBSET Ev \ {{}}]: events each listener class maps
          BehChoices,    \* set of functions [L -> <<"nop", "-", "-">> | <<"clamp", property, vector token>>
                         \*                          | <<"raise", property, "-">>]
          CtorChoices,   \* set of functions [T -> [Props -> value or Dflt]]: constructor arguments
          RegChoices,    \* set of functions [T -> SUBSET L]: listeners registered right after construction
          WithListenerOps,          \* BOOLEAN: include AddListener / RemoveListener
          RotationNotifiesStored, StoreBeforeNotify

VARIABLES subs,      \* listener -> events its class maps (fixed after Init)
          beh,       \* listener -> what its callbacks do (fixed after Init)
          ctor,      \* constructor arguments; consumed (set to Used) by Build so that later states merge
          built,
          stored,    \* transform -> [position, rotation, scale]: what a read of the property returns
          reg,       \* transform -> listeners registered on it
          log,       \* ghost: callbacks run by the last call, in order
          call       \* ghost: the last public call [k, t, p, v, n, last, exc]: v = the assigned value, n = number
                     \* of assignments it comprised (nested ones included), last = what the latest of them keeps,
                     \* exc = an exception raised by a listener reached the caller

vars == <<subs, beh, ctor, built, stored, reg, log, call>>

T == T2 \cup T3
Props == {"position", "rotation", "scale"}
Ev == {"on_position_change", "on_rotation_change", "on_scale_change"}
EventOf(p) == CASE p = "position" -> "on_position_change"
                [] p = "rotation" -> "on_rotation_change"
                [] p = "scale" -> "on_scale_change"
PropOf(e) == CHOOSE p \in Props : EventOf(p) = e

N(i) == <<"n", i>>
V(s) == <<"v", s>>
Dflt == <<"dflt", "-">>          \* "argument not given"
Used == <<"used", "-">>
Zero == V("zero")                \* Vec2() / Vec3()
One == V("one")                  \* Vec2(1., 1.) / Vec3(1., 1., 1.)
VecVals == {V(s) : s \in Vecs}
RotVals(t) == IF t \in T2 THEN {N(i) : i \in Rot} ELSE VecVals
AllVals == VecVals \cup {N(i) : i \in Rot}
Scalar(t, p) == t \in T2 /\ p = "rotation"

\* the default argument objects of __init__
DefaultOf(t, p) == CASE p = "position" -> Zero
                     [] p = "scale" -> One
                     [] p = "rotation" -> IF t \in T2 THEN N(0) ELSE Zero

\* what the code keeps of a value v: `v % 360.` (result in [0, 360), like TLA+'s %) for the 2D
\* rotation, the value itself otherwise
StoreForm(t, p, v) == IF Scalar(t, p) THEN N(v[2] % 360) ELSE v

NoLog == <<>>
Nop == <<"nop", "-", "-">>
ClampRot == 10                   \* clamp value of a 2D rotation (already in [0, 360): the clamp settles)
Clamps(l, p) == beh[l][1] = "clamp" /\ beh[l][2] = p
ClampVal(l, t, p) == IF Scalar(t, p) THEN N(ClampRot) ELSE V(beh[l][3])
Raises(l, p) == beh[l][1] = "raise" /\ beh[l][2] = p
\* dispatch(ev) on transform t reaches the registered listeners whose class maps ev (a snapshot)
Targets(t, ev) == {l \in reg[t] : ev \in subs[l]}
NoCall(k, t, p) == [k |-> k, t |-> t, p |-> p, v |-> Used, n |-> 0, last |-> Used, exc |-> FALSE]

Init == /\ subs \in SubsChoices /\ beh \in BehChoices /\ ctor \in CtorChoices /\ reg \in RegChoices
        /\ built = FALSE
        /\ stored = [t \in T |-> [p \in Props |-> Used]]
        /\ log = NoLog /\ call = NoCall("none", "-", "-")

Build == /\ ~built /\ built' = TRUE
         /\ stored' = [t \in T |-> [p \in Props |->
                          StoreForm(t, p, IF ctor[t][p] = Dflt THEN DefaultOf(t, p) ELSE ctor[t][p])]]
         /\ ctor' = [t \in T |-> [p \in Props |-> Used]]
         /\ log' = NoLog /\ call' = NoCall("build", "-", "-")
         /\ UNCHANGED <<subs, beh, reg>>

(***************************************************************************)
(* The setter and the delivery loop, statement by statement.  Both return  *)
(* the SET of machine states the call may end in (one per iteration order).*)
(*   M.st    the stored values       M.lg    deliveries so far             *)
(*   M.n     assignments begun       M.last  what the latest one keeps     *)
(*   M.exc   an exception is propagating: every statement is skipped       *)
(* A delivery is `fresh` when no assignment has begun since the one that   *)
(* issued it; a stale one belongs to an outer dispatch still in progress   *)
(* after a callback re-assigned the property.                              *)
(***************************************************************************)
RECURSIVE Assign(_, _, _, _), Loop(_, _, _, _, _, _)
Assign(t, p, v, M) ==
    LET kept == StoreForm(t, p, v)
        sent == IF Scalar(t, p) /\ ~RotationNotifiesStored THEN v ELSE kept
        Store(X) == [X EXCEPT !.st[t][p] = kept]
        M1 == [M EXCEPT !.n = @ + 1, !.last = kept] IN
    IF StoreBeforeNotify
    THEN Loop(t, p, sent, M1.n, Targets(t, EventOf(p)), Store(M1))      \* self._p = value; self.dispatch(EV, value)
    ELSE {IF X.exc THEN X ELSE Store(X) : X \in Loop(t, p, sent, M1.n, Targets(t, EventOf(p)), M1)}

Loop(t, p, sent, seq, todo, M) ==
    IF todo = {} \/ M.exc THEN {M}         \* served everybody / an exception (of a nested assignment) passes through
    ELSE UNION {
        LET M1 == [M EXCEPT !.lg = Append(@, [l |-> l, ev |-> EventOf(p), sent |-> sent, read |-> M.st[t][p],
                                               seq |-> seq, fresh |-> seq = M.n])] IN
        IF Raises(l, p)
        THEN {[M1 EXCEPT !.exc = TRUE]}                                 \* nobody else of `todo` is served
        ELSE IF Clamps(l, p) /\ sent # ClampVal(l, t, p)
        THEN UNION {Loop(t, p, sent, seq, todo \ {l}, M2) : M2 \in Assign(t, p, ClampVal(l, t, p), M1)}
        ELSE Loop(t, p, sent, seq, todo \ {l}, M1)
      : l \in todo}

Set(t, p, v) ==
    /\ built
    /\ \E M \in Assign(t, p, v, [st |-> stored, lg |-> NoLog, n |-> 0, last |-> Used, exc |-> FALSE]) :
         /\ stored' = M.st /\ log' = M.lg
         /\ call' = [k |-> "set", t |-> t, p |-> p, v |-> v, n |-> M.n, last |-> M.last, exc |-> M.exc]
    /\ UNCHANGED <<subs, beh, ctor, built, reg>>

SetPosition(t, v) == v \in VecVals /\ Set(t, "position", v)
SetRotation(t, v) == v \in RotVals(t) /\ Set(t, "rotation", v)
SetScale(t, v) == v \in VecVals /\ Set(t, "scale", v)

AddListener(t, l) ==
    /\ WithListenerOps /\ built
    /\ reg' = [reg EXCEPT ![t] = @ \cup {l}]
    /\ log' = NoLog /\ call' = NoCall("add", t, l)
    /\ UNCHANGED <<subs, beh, ctor, built, stored>>

RemoveListener(t, l) ==
    /\ WithListenerOps /\ built
    /\ reg' = [reg EXCEPT ![t] = @ \ {l}]
    /\ log' = NoLog /\ call' = NoCall("remove", t, l)
    /\ UNCHANGED <<subs, beh, ctor, built, stored>>

Next == \/ Build
        \/ (\E t \in T, v \in AllVals : SetPosition(t, v) \/ SetRotation(t, v) \/ SetScale(t, v))
        \/ (\E t \in T, l \in L : AddListener(t, l) \/ RemoveListener(t, l))

Spec == Init /\ [][Next]_vars

----------------------------------------------------------------------------
(* The declarative layer                                                   *)

Idx == 1..Len(log)
TypeOK == /\ built \in BOOLEAN /\ reg \in [T -> SUBSET L] /\ subs \in [L -> SUBSET Ev]
          /\ \A i \in Idx : log[i].l \in L /\ log[i].ev \in Ev /\ log[i].seq \in 1..call.n
          /\ call.exc \in BOOLEAN

\* the value a read of property p of transform t returns
Read(t, p) == stored[t][p]
\* the last notification listener l received during the last call (used only when there is one)
LastOf(l) == log[CHOOSE i \in Idx : log[i].l = l /\ \A j \in Idx : log[j].l = l => j <= i]
Heard == {log[i].l : i \in Idx}

\* 2D rotation is kept in [0, 360)
StoredIsReduced == built => \A t \in T2 : Read(t, "rotation")[1] = "n" /\ Read(t, "rotation")[2] \in 0..359

\* values given at construction are stored like assigned ones; absent ones read as the defaults
ConstructedLikeAssigned ==
    [][Build => \A t \in T, p \in Props :
          stored'[t][p] = StoreForm(t, p, IF ctor[t][p] = Dflt THEN DefaultOf(t, p) ELSE ctor[t][p])]_vars

\* the notifications of the latest assignment of the call carry the value a read of the property returns
\* right after the call (without re-entrant listeners: every notification does) - whether or not one of the
\* listeners raised: whoever was told the value was told what the property reads now
NotifiedValueIsReadBack == \A i \in Idx : log[i].seq = call.n => log[i].sent = Read(call.t, PropOf(log[i].ev))

\* the value is stored before anybody is told: a listener reading the property inside its callback sees the value
\* it is being told — unless the property has been assigned again since (stale delivery of an outer dispatch)
DeliveryReadsPayload == \A i \in Idx : log[i].fresh => log[i].read = log[i].sent

\* after the call the property holds what the most recent assignment (in the order they were made, nested ones
\* included) keeps: an outer assignment does not overwrite what a callback assigned meanwhile, and an assignment
\* during which a listener raised is not taken back
StoredIsLastAssigned == call.k = "set" => Read(call.t, call.p) = call.last

\* after the call, the last notification a listener received is the value a read returns — unless it is a stale one,
\* or the dispatch of a later (nested) assignment, which would have told the listener again, was cut short by a
\* raising listener
LastNotificationIsReadBack ==
    call.k = "set" => \A l \in Heard : (LastOf(l).fresh /\ (call.exc => LastOf(l).seq = call.n))
                                            => LastOf(l).sent = Read(call.t, call.p)
\* The same without the exception does NOT hold for the code as written (nor for any setter that dispatches
\* synchronously): a listener that comes after a re-assigning listener in the iteration order is told the outer,
\* already overwritten value last.  Kept to show the difference (expect_violation run on the intended model).
LastNotificationIsReadBackStrict ==
    call.k = "set" => \A l \in Heard : LastOf(l).sent = Read(call.t, call.p)

\* only the event of the assigned property is dispatched; nothing is dispatched by other calls
OnlyMatchingEvent == \A i \in Idx : call.k = "set" /\ log[i].ev = EventOf(call.p)

\* every assignment (nested ones included) notifies exactly once each listener registered on the assigned
\* transform whose class maps the event, and nobody else (in particular not the listeners of the other transform);
\* when a listener raised, the assignments in progress were cut short: nobody twice, nobody else
OncePerListener ==
    call.k = "set" =>
        \A l \in L, s \in 1..call.n :
            LET got == Cardinality({i \in Idx : log[i].l = l /\ log[i].seq = s})
                due == IF l \in reg[call.t] /\ EventOf(call.p) \in subs[l] THEN 1 ELSE 0 IN
            IF call.exc THEN got <= due ELSE got = due

\* the caller of the assignment gets the exception exactly when a raising listener was served, and that delivery
\* is the last thing the call did
RaiseEndsTheCall ==
    LET Raised(i) == Raises(log[i].l, PropOf(log[i].ev)) IN
    /\ call.exc <=> \E i \in Idx : Raised(i)
    /\ \A i \in Idx : Raised(i) => i = Len(log)

\* a call on one transform never changes what another one reads — instances built from the same default
\* arguments included: they hold no common value that an assignment elsewhere could alter
DefaultsNotShared ==
    [][built => \A u \in T : (call'.t # u) => stored'[u] = stored[u]]_vars

\* an assignment changes exactly the assigned property of the assigned transform, to the assigned value (2D
\* rotation: to its representative in [0, 360)) or to what a re-entrant listener assigned on top of it; every
\* other call leaves all values alone
StoresAssigned ==
    [][built => IF call'.k = "set"
                THEN /\ stored' = [stored EXCEPT ![call'.t][call'.p] = call'.last]
                     /\ call'.n = 1 => call'.last = (IF call'.t \in T2 /\ call'.p = "rotation"
                                                    THEN N(call'.v[2] % 360) ELSE call'.v)
                ELSE stored' = stored]_vars
=============================================================================

----------------------------- MODULE Transform -----------------------------
(***************************************************************************)
(* desper.logic.spatial.Transform2D / Transform3D — three stored values    *)
(* per transform, property setters that store and then dispatch the        *)
(* matching on_*_change event to the listeners registered on *that*        *)
(* transform (a Transform is an EventDispatcher; the listeners here never  *)
(* re-enter it, so one public call is one step: big-step over the          *)
(* dispatcher of Dispatcher.tla, whose re-entrant behaviour is C03/C04).   *)
(*                                                                         *)
(* Operational layer (shaped like spatial.py):                             *)
(*   Build            __init__ of every transform with the arguments       *)
(*                    chosen at Init (given or defaulted, copied into a    *)
(*                    fresh vector, 2D rotation reduced modulo 360)        *)
(*   SetPosition/SetRotation/SetScale(t, v)   store, then dispatch         *)
(*   AddListener/RemoveListener(t, l)         add_handler / remove_handler *)
(* Declarative layer: `log` (bag of <<listener, event, payload>> of the    *)
(* last call), `call`, and the properties at the end (C20).                *)
(*                                                                         *)
(* Values are tagged so that TLC never compares a number with a token:     *)
(*   <<"n", i>> a number,  <<"v", tok>> a vector identified by a token.    *)
(*                                                                         *)
(* Deviation switch (TRUE = intended, FALSE = as implemented at 05622c8):  *)
(*   RotationNotifiesStored   D20: the 2D rotation setter dispatches the   *)
(*                            reduced value it stored, not the raw one     *)
(***************************************************************************)
EXTENDS Integers, FiniteSets, TLC

CONSTANTS T2, T3,        \* ids of the 2D / 3D transforms (strings)
          L,             \* listener ids (strings)
          Rot,           \* scalar rotations that are assigned / given to the constructor (integers)
          Vecs,          \* tokens of the vectors that are assigned / given to the constructor
          SubsChoices,   \* set of functions [L -> SUBSET Ev \ {{}}]: events each listener class maps
          CtorChoices,   \* set of functions [T -> [Props -> value or Dflt]]: constructor arguments
          RegChoices,    \* set of functions [T -> SUBSET L]: listeners registered right after construction
          WithListenerOps,          \* BOOLEAN: include AddListener / RemoveListener
          RotationNotifiesStored

VARIABLES subs,      \* listener -> events its class maps (fixed after Init)
          ctor,      \* constructor arguments; consumed (set to Used) by Build so that later states merge
          built,
          stored,    \* transform -> [position, rotation, scale]: what a read of the property returns
          reg,       \* transform -> listeners registered on it
          log,       \* ghost: bag (function entry -> count) of callbacks run by the last call
          call       \* ghost: the last public call [k, t, p, v] (v = the assigned value)

vars == <<subs, ctor, built, stored, reg, log, call>>

T == T2 \cup T3
Props == {"position", "rotation", "scale"}
Ev == {"on_position_change", "on_rotation_change", "on_scale_change"}
EventOf(p) == CASE p = "position" -> "on_position_change"
                [] p = "rotation" -> "on_rotation_change"
                [] p = "scale" -> "on_scale_change"
PropOf(e) == CHOOSE p \in Props : EventOf(p) = e

N(i) == <<"n", i>>
V(s) == <<"v", s>>
Dflt == <<"dflt", "-">>          \* "argument not given"
Used == <<"used", "-">>
Zero == V("zero")                \* Vec2() / Vec3()
One == V("one")                  \* Vec2(1., 1.) / Vec3(1., 1., 1.)
VecVals == {V(s) : s \in Vecs}
RotVals(t) == IF t \in T2 THEN {N(i) : i \in Rot} ELSE VecVals
Scalar(t, p) == t \in T2 /\ p = "rotation"

\* the default argument objects of __init__
DefaultOf(t, p) == CASE p = "position" -> Zero
                     [] p = "scale" -> One
                     [] p = "rotation" -> IF t \in T2 THEN N(0) ELSE Zero

\* what the code keeps of a value v: `v % 360.` (result in [0, 360), like TLA+'s %) for the 2D
\* rotation, the value itself otherwise
StoreForm(t, p, v) == IF Scalar(t, p) THEN N(v[2] % 360) ELSE v

NoLog == <<>>
\* dispatch(ev, x) on transform t: one callback per registered listener whose class maps ev
Notify(t, ev, x) == [e \in {<<l, ev, x>> : l \in {m \in reg[t] : ev \in subs[m]}} |-> 1]

Init == /\ subs \in SubsChoices /\ ctor \in CtorChoices /\ reg \in RegChoices
        /\ built = FALSE
        /\ stored = [t \in T |-> [p \in Props |-> Used]]
        /\ log = NoLog /\ call = [k |-> "none", t |-> "-", p |-> "-", v |-> Used]

Build == /\ ~built /\ built' = TRUE
         /\ stored' = [t \in T |-> [p \in Props |->
                          StoreForm(t, p, IF ctor[t][p] = Dflt THEN DefaultOf(t, p) ELSE ctor[t][p])]]
         /\ ctor' = [t \in T |-> [p \in Props |-> Used]]
         /\ log' = NoLog /\ call' = [k |-> "build", t |-> "-", p |-> "-", v |-> Used]
         /\ UNCHANGED <<subs, reg>>

Set(t, p, v) ==
    /\ built
    /\ LET kept == StoreForm(t, p, v)
           sent == IF Scalar(t, p) /\ ~RotationNotifiesStored THEN v ELSE kept IN
         /\ stored' = [stored EXCEPT ![t][p] = kept]
         /\ log' = Notify(t, EventOf(p), sent)
    /\ call' = [k |-> "set", t |-> t, p |-> p, v |-> v]
    /\ UNCHANGED <<subs, ctor, built, reg>>

SetPosition(t, v) == v \in VecVals /\ Set(t, "position", v)
SetRotation(t, v) == v \in RotVals(t) /\ Set(t, "rotation", v)
SetScale(t, v) == v \in VecVals /\ Set(t, "scale", v)

AddListener(t, l) ==
    /\ WithListenerOps /\ built
    /\ reg' = [reg EXCEPT ![t] = @ \cup {l}]
    /\ log' = NoLog /\ call' = [k |-> "add", t |-> t, p |-> l, v |-> Used]
    /\ UNCHANGED <<subs, ctor, built, stored>>

RemoveListener(t, l) ==
    /\ WithListenerOps /\ built
    /\ reg' = [reg EXCEPT ![t] = @ \ {l}]
    /\ log' = NoLog /\ call' = [k |-> "remove", t |-> t, p |-> l, v |-> Used]
    /\ UNCHANGED <<subs, ctor, built, stored>>

AllVals == VecVals \cup {N(i) : i \in Rot}

Next == \/ Build
        \/ (\E t \in T, v \in AllVals : SetPosition(t, v) \/ SetRotation(t, v) \/ SetScale(t, v))
        \/ (\E t \in T, l \in L : AddListener(t, l) \/ RemoveListener(t, l))

Spec == Init /\ [][Next]_vars

----------------------------------------------------------------------------
(* Declarative layer                                                       *)

TypeOK == /\ built \in BOOLEAN /\ reg \in [T -> SUBSET L] /\ subs \in [L -> SUBSET Ev]
          /\ \A e \in DOMAIN log : e[1] \in L /\ e[2] \in Ev

\* the value a read of property p of transform t returns
Read(t, p) == stored[t][p]

\* 2D rotation is kept in [0, 360)
StoredIsReduced == built => \A t \in T2 : Read(t, "rotation")[1] = "n" /\ Read(t, "rotation")[2] \in 0..359

\* values given at construction are stored like assigned ones; absent ones read as the defaults
ConstructedLikeAssigned ==
    [][Build => \A t \in T, p \in Props :
          stored'[t][p] = StoreForm(t, p, IF ctor[t][p] = Dflt THEN DefaultOf(t, p) ELSE ctor[t][p])]_vars

\* every notification carries the value a read of the matching property returns right after the call
NotifiedValueIsReadBack == \A e \in DOMAIN log : e[3] = Read(call.t, PropOf(e[2]))

\* only the event of the assigned property is dispatched; nothing is dispatched by other calls
OnlyMatchingEvent == \A e \in DOMAIN log : call.k = "set" /\ e[2] = EventOf(call.p)

\* each listener registered on the assigned transform whose class maps the event is called exactly
\* once, nobody else is called (in particular not the listeners of the other transform)
OncePerListener ==
    /\ \A e \in DOMAIN log : log[e] = 1
    /\ call.k = "set" =>
         \A l \in L : Cardinality({e \in DOMAIN log : e[1] = l}) =
                      (IF l \in reg[call.t] /\ EventOf(call.p) \in subs[l] THEN 1 ELSE 0)

\* a call on one transform never changes what another one reads — instances built from the same default
\* arguments included: they hold no common value that an assignment elsewhere could alter
DefaultsNotShared ==
    [][built => \A u \in T : (call'.t # u) => stored'[u] = stored[u]]_vars

\* an assignment changes exactly the assigned property of the assigned transform, to the assigned
\* value (2D rotation: to its representative in [0, 360)); every other call leaves all values alone
StoresAssigned ==
    [][built => IF call'.k = "set"
                THEN stored' = [stored EXCEPT ![call'.t][call'.p] =
                                   IF call'.t \in T2 /\ call'.p = "rotation" THEN N(call'.v[2] % 360) ELSE call'.v]
                ELSE stored' = stored]_vars
=============================================================================

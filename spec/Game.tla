-------------------------------- MODULE Game --------------------------------
(***************************************************************************)
(* Loop o World o CoroutineProcessor o Handle composed end to end.         *)
(*                                                                         *)
(* Every world handle h loads worlds made of three processors:             *)
(*   p0  (priority 0)  starts the world's sleeper coroutine in the first   *)
(*                     frame of the instance and may request a switch;     *)
(*   CoroutineProcessor (priority 1) runs the sleeper:                     *)
(*                     while True: tick; yield Wait[h]                     *)
(*   p2  (priority 2)  may request a switch.                               *)
(* One action = one iteration of SimpleLoop.loop.  What the modules decide *)
(* separately (Loop.tla: who runs and with which dt; Coroutines.tla: the   *)
(* shared timer; Resources.tla: handle caching) must compose into "world   *)
(* time": a sleeper wakes in the first frame OF ITS OWN WORLD INSTANCE by  *)
(* which the dt fed to that instance's CoroutineProcessor since the yield  *)
(* reaches the wait.  Frames of other worlds, frames abandoned before the  *)
(* CoroutineProcessor ran (a switch requested by p0) and the time spent    *)
(* elsewhere between two visits do not count, except that the first frame  *)
(* after coming back is fed the whole clock difference since the previous  *)
(* iteration (SimpleLoop keeps one clock for all worlds).  A handle that   *)
(* was cleared yields a new instance whose sleeper starts over.            *)
(***************************************************************************)
EXTENDS Naturals, Sequences, FiniteSets, TLC

CONSTANTS Hs,         \* handles (strings)
          Wait,       \* handle -> wait yielded by its sleeper (positive)
          Incs,       \* clock increments per iteration
          MaxFrames, MaxGen,
          WakeAtDeadline   \* TRUE = as coded and intended (timer >= deadline); FALSE: a sleeper woken only AFTER its deadline
                           \* (non-vacuity of NoOversleep / WakeOnWorldTime: TLC must report one of them)

VARIABLES cur,        \* handle the loop runs
          st,         \* handle -> "none" (nothing cached) | "new" (instance loaded, never processed) |
                      \*           "ready" (sleeper started, has not run yet) | "sleep"
          gen,        \* handle -> number of instances loaded so far (the cached one is the latest)
          acc,        \* handle -> dt fed to the coroutine processor of the cached instance since the sleeper's yield
          first,      \* TRUE until the first iteration has read the clock
          frames,
          lastDt, coRan, ticked,    \* ghosts describing the last frame
          log         \* ghost: what the last frame showed: <<"p0", h, gen, dt>>, <<"tick", h, gen>>, <<"p2", h, gen, dt>>

vars == <<cur, st, gen, acc, first, frames, lastDt, coRan, ticked, log>>

Sites == {"p0", "p2"}
Kinds == {"nop", "switch"}
Reqs == {<<"nop", "-", FALSE, FALSE>>} \cup {<<"switch", h, cc, cn>> : h \in Hs, cc \in BOOLEAN, cn \in BOOLEAN}

\* does serving the request load a new instance of its target?
Loads(req) == IF req[1] # "switch" THEN FALSE
              ELSE (st[req[2]] = "none") \/ req[4] \/ (req[3] /\ (req[2] = cur))

Init == /\ cur \in Hs
        /\ st = [h \in Hs |-> IF h = cur THEN "new" ELSE "none"]
        /\ gen = [h \in Hs |-> IF h = cur THEN 1 ELSE 0]
        /\ acc = [h \in Hs |-> 0]
        /\ first = TRUE /\ frames = 0 /\ lastDt = 0 /\ coRan = FALSE /\ ticked = FALSE /\ log = <<>>

\* a record threaded through the frame
\* desper.switch(h, cc, cn) followed by SimpleLoop.switch: which handles are cleared / loaded
Load(s, h) == IF s.st[h] = "none" THEN [s EXCEPT !.st[h] = "new", !.gen[h] = @ + 1, !.acc[h] = 0] ELSE s
Clear(s, h) == [s EXCEPT !.st[h] = "none", !.acc[h] = 0]
Switch(s, h, cc, cn) ==
    LET self == h = s.cur
        s1 == IF cn \/ (cc /\ self) THEN Clear(s, h) ELSE s
        cc1 == IF self THEN FALSE ELSE cc
        s2 == Load(s1, h)
        s3 == IF cc1 THEN Clear(s2, s.cur) ELSE s2
    IN [s3 EXCEPT !.cur = h]

Frame(inc, site, req) ==
    /\ frames < MaxFrames
    /\ inc \in Incs /\ site \in Sites /\ req \in Reqs
    /\ Loads(req) => gen[req[2]] < MaxGen
    /\ LET dt == IF first THEN 0 ELSE inc
           h == cur
           g == gen[h]
           early == site = "p0" /\ req[1] = "switch"          \* the frame is abandoned before the coroutines run
           \* p0: start the sleeper of a new instance
           stA == IF st[h] = "new" THEN "ready" ELSE st[h]
           \* coroutine processor
           due == stA = "sleep" /\ (IF WakeAtDeadline THEN acc[h] + dt >= Wait[h] ELSE acc[h] + dt > Wait[h])
           tick == ~early /\ (stA = "ready" \/ due)
           stB == IF early THEN stA ELSE "sleep"
           accB == IF early THEN acc[h] ELSE IF tick THEN 0 ELSE acc[h] + dt
           s0 == [cur |-> cur, st |-> [st EXCEPT ![h] = stB], gen |-> gen, acc |-> [acc EXCEPT ![h] = accB]]
           s1 == IF req[1] = "switch" THEN Switch(s0, req[2], req[3], req[4]) ELSE s0
       IN /\ cur' = s1.cur /\ st' = s1.st /\ gen' = s1.gen /\ acc' = s1.acc
          /\ first' = FALSE /\ frames' = frames + 1
          /\ lastDt' = dt /\ coRan' = ~early /\ ticked' = tick
          /\ log' = <<<<"p0", h, g, dt>>>>
                    \o (IF tick THEN <<<<"tick", h, g, 0>>>> ELSE <<>>)
                    \o (IF early THEN <<>> ELSE <<<<"p2", h, g, dt>>>>)

Next == \E inc \in Incs, site \in Sites, req \in Reqs : Frame(inc, site, req)

Spec == Init /\ [][Next]_vars

-----------------------------------------------------------------------------
TypeOK == /\ cur \in Hs /\ st[cur] # "none"
          /\ \A h \in Hs : /\ st[h] \in {"none", "new", "ready", "sleep"}
                           /\ (st[h] = "none") => acc[h] = 0
                           /\ (st[h] # "none") => gen[h] >= 1

\* C08 (never later): nobody oversleeps
NoOversleep == \A h \in Hs : st[h] = "sleep" => acc[h] < Wait[h]

\* C08 composed with C13/C14: a sleeping coroutine of a surviving instance ticks in a frame iff that frame belongs to
\* its world, the coroutine processor ran in it, and the world time accumulated reaches the wait in that frame
WakeOnWorldTime ==
    [][\A h \in Hs : (st[h] = "sleep" /\ st'[h] = "sleep" /\ gen'[h] = gen[h]) =>
          (((h = cur /\ ticked')) <=> (h = cur /\ coRan' /\ acc[h] + lastDt' >= Wait[h]))]_vars

\* C13: only the current world's coroutines see time pass; the others are frozen, discarded or freshly loaded
OthersFrozen ==
    [][\A h \in Hs : h # cur => \/ (st'[h] = st[h] /\ acc'[h] = acc[h] /\ gen'[h] = gen[h])
                                \/ st'[h] = "none"
                                \/ (st'[h] = "new" /\ gen'[h] = gen[h] + 1)]_vars

\* C12/C13: an instance once dropped never runs again - generations only grow, and a frame runs the latest instance
GenMonotone == [][\A h \in Hs : gen'[h] >= gen[h]]_vars

\* C09/C08: a fresh instance's sleeper runs in the first frame in which its coroutine processor runs
FreshRunsAtOnce ==
    [][(st[cur] \in {"new", "ready"} /\ coRan') => ticked']_vars
=============================================================================

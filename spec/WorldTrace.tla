----------------------------- MODULE WorldTrace -----------------------------
(***************************************************************************)
(* Pipeline B for World.tla: executions of the real desper.World (long     *)
(* random histories over pools larger than TLC explores exhaustively)      *)
(* recorded call by call and checked against the specification.  World.tla *)
(* is big-step, so every recorded call is exactly one action; where the    *)
(* specification leaves a choice (which subclass component a by-type       *)
(* removal picks, how far a faulted frame got) TLC follows the successor   *)
(* that matches the recorded observations.  All invariants of World.tla    *)
(* are evaluated in every state of every accepted trace.                   *)
(***************************************************************************)
EXTENDS World, Json, IOUtils

Traces == JsonDeserialize(IOEnv.TRACE_FILE)

VARIABLES tid, l
tvars == <<vars, tid, l>>

ToSet(s) == {s[i] : i \in 1..Len(s)}
Evs == Traces[tid].events
Cur == Evs[l]

TInit == /\ tid \in 1..Len(Traces) /\ TLCSet(tid, 0) /\ Init /\ l = 1

Consume(A) == /\ l <= Len(Evs) /\ A /\ l' = l + 1 /\ UNCHANGED tid

TNext == \/ Consume(Cur.op = "CreateEntity" /\ CreateEntity(Cur.a1, Cur.a2))
         \/ Consume(Cur.op = "AddComponent" /\ AddComponent(Cur.a1, Cur.a2))
         \/ Consume(Cur.op = "RemoveComponent" /\ RemoveComponent(Cur.a1, Cur.a2))
         \/ Consume(Cur.op = "DeleteDeferred" /\ DeleteDeferred(Cur.a1))
         \/ Consume(Cur.op = "DeleteImmediate" /\ DeleteImmediate(Cur.a1))
         \/ Consume(Cur.op = "AddProcessor" /\ AddProcessor(Cur.a1, Cur.a2))
         \/ Consume(Cur.op = "AddProcessorFault" /\ AddProcessorFault(Cur.a1, Cur.a2))
         \/ Consume(Cur.op = "RemoveProcessor" /\ RemoveProcessor(Cur.a1))
         \/ Consume(Cur.op = "Process" /\ Process(Cur.a1))
         \/ Consume(Cur.op = "ProcessProcFault" /\ ProcessProcFault(Cur.a1, Cur.a2))
         \/ Consume(Cur.op = "ProcessRemoveFault" /\ ProcessRemoveFault(Cur.a1, Cur.a2))
         \/ Consume(Cur.op = "ProcessRemover" /\ ProcessRemover(Cur.a1, Cur.a2, Cur.a3))
         \/ Consume(Cur.op = "ProcessScheduler" /\ ProcessScheduler(Cur.a1, Cur.a2, Cur.a3))
         \/ Consume(Cur.op = "RemoveDisabling" /\ RemoveDisabling(Cur.a1, Cur.a2))
         \/ Consume(Cur.op = "AddSelfRemoving" /\ AddSelfRemoving(Cur.a1, Cur.a2))
         \/ Consume(Cur.op = "CreateDisabling" /\ CreateDisabling(Cur.a1, Cur.a2, Cur.a3))
         \/ Consume(Cur.op = "ProcessKiller" /\ ProcessKiller(Cur.a1, Cur.a2, Cur.a3))
         \/ Consume(Cur.op = "SetEnabledFault" /\ SetEnabledFault(Cur.a1))
         \/ Consume(Cur.op = "Clear" /\ Clear)
         \/ Consume(Cur.op = "SetEnabled" /\ SetEnabled(Cur.a1))

TraceSpec == TInit /\ [][TNext]_tvars

Count(s, x) == Cardinality({i \in 1..Len(s) : s[i] = x})
SameBag(a, b) == Len(a) = Len(b) /\ \A x \in ToSet(a) \cup ToSet(b) : Count(a, x) = Count(b, x)
Lifecycle(s) == SelectSeq(s, LAMBDA x : x[1] # "process")
Frames(s) == SelectSeq(s, LAMBDA x : x[1] = "process")
CompsOf(e) == IF e \in DOMAIN rows THEN {rows[e][t] : t \in DOMAIN rows[e]} ELSE {}

\* the observation recorded after call l-1: return value, every entity's components, existence, registered
\* listeners, enabled flag, processor order and priorities, callback log (lifecycle callbacks as a bag - their
\* order inside one call follows dict/set iteration - Processor.process calls as a sequence)
ObsOK == (l > 1) =>
    LET e == Evs[l - 1] IN
    /\ ret = e.ret
    /\ \A i \in 1..Len(e.comps) : CompsOf(e.comps[i][1]) = ToSet(e.comps[i][2])
    /\ \A i \in 1..Len(e.exists) : EntityExists(e.exists[i][1]) = e.exists[i][2]
    /\ {x \in DOMAIN rows : x \notin dead} = ToSet(e.entities)
    /\ reg = ToSet(e.is_handler)
    /\ enabled = e.enabled
    /\ procs = e.processors
    /\ \A i \in 1..Len(e.pprio) : pprio[e.pprio[i][1]] = e.pprio[i][2]
    /\ (e.qlen >= 0 => Len(queue) = e.qlen)      \* -1: the recorder could not see the queue (private attribute)
    /\ SameBag(Lifecycle(log), Lifecycle(e.log)) /\ Frames(log) = Frames(e.log)
Track == ObsOK /\ TLCSet(tid, IF l > TLCGet(tid) THEN l ELSE TLCGet(tid))

Rejected == {t \in 1..Len(Traces) : TLCGet(t) # Len(Traces[t].events) + 1}
Accepted == \/ Rejected = {}
            \/ (\A t \in Rejected : PrintT(<<"REJECT", t, TLCGet(t)>>)) /\ FALSE
=============================================================================

------------------------------ MODULE VecMath ------------------------------
(***************************************************************************)
(* Exact integer / rational reference for desper.math (property C18).      *)
(*                                                                         *)
(* desper.math is a set of pure functions, so the "state machine" is a     *)
(* table generator: Init chooses an operation `op` and its operands `args` *)
(* from finite enumerated families, the single action Eval stores the      *)
(* reference result in `res`.  The dumped graph (every initial state and   *)
(* its successor) is the test table replayed into the real classes.        *)
(*                                                                         *)
(* Operational layer: Compute(op, args) — written the way the code is      *)
(* (entrywise tuples, rows times columns of the written grid, the 2x2      *)
(* sub-determinants a..r of Mat4.__invert__, the `limit` comparison).      *)
(* Declarative layer: the Law_* invariants at the end — the algebraic      *)
(* clauses of the property statement evaluated on the reference itself     *)
(* (Laplace cofactors, two-sided inverse, associativity, ...).             *)
(*                                                                         *)
(* Conventions read off desper/math.py and the statement:                  *)
(*  - a matrix is the flat tuple in the order the values are written,      *)
(*    grid row i = entries n(i-1)+1 .. n*i  (Mat4.row, __repr__);          *)
(*  - A @ B is rows of A times columns of B of those grids;                *)
(*  - M @ v treats v as a ROW: (M @ v)[j] = SUM_t v[t] * M[t][j]; this is  *)
(*    what makes (A @ B) @ v = B @ (A @ v) (and not A @ (B @ v)) hold.     *)
(*                                                                         *)
(* Numbers.  TLC has 32-bit integers only; operands are small.  A result   *)
(* is a record [cls, fmt, val, tol, warn]; every entry of val is           *)
(*    fmt "int"   an integer                                               *)
(*    fmt "rat"   <<num, den>>             the rational num/den            *)
(*    fmt "root"  <<sgn, num, den>>        sgn * sqrt(num/den)             *)
(*    fmt "turn8" k                        the angle k*pi/4                *)
(* tol = TRUE where the statement's rounding-tolerance clause applies      *)
(* (square roots, angles, the float literal 2.0 of orthogonal_projection). *)
(* Rational scalar operands (t of lerp, s of scale, m of limit) are        *)
(* <<p, q>> pairs with q > 0; angles are numbers k of quarter turns.       *)
(*                                                                         *)
(* Deviation switch (TRUE = intended, FALSE = as implemented at 05622c8):  *)
(*   Vec3LimitSquare   D19: Vec3.limit compares |v|^2 with max^2           *)
(***************************************************************************)
EXTENDS Integers, Sequences, FiniteSets, TLC

CONSTANTS Groups,          \* families of cases to enumerate: subset of AllGroups
          RU2, RU3, RU4,   \* one-vector operations run on the grid {-RU..RU}^n (plus Extra(n))
          RW2, RW3, RW4,   \* two-vector operations run on all ordered pairs of {-RW..RW}^n (plus Extra(n))
          K4,              \* ... for n = 4 restricted to vectors with at most K4 non-zero entries
          NP,              \* dense matrices D(1..NP): all ordered pairs are multiplied
          NT,              \* dense matrices D(1..NT): all triples (associativity, composition on vectors)
          BigLo, BigHi,    \* index range of the pseudo-random matrices (paired products, inverses)
          Seed,            \* seed of the pseudo-random generator
          Vec3LimitSquare

VARIABLES op, args, res
vars == <<op, args, res>>

AllGroups == {"vec2", "vec3", "vec4", "swz", "mat3", "mat4", "inv", "ctor", "big"}

(***************************************************************************)
(* Scalars                                                                 *)
(***************************************************************************)
Sq(x) == x * x
Sgn(x) == IF x > 0 THEN 1 ELSE IF x < 0 THEN -1 ELSE 0
SignPow(k) == IF k % 2 = 0 THEN 1 ELSE -1
Min(a, b) == IF a < b THEN a ELSE b
Max(a, b) == IF a > b THEN a ELSE b
RECURSIVE Sum(_, _)
Sum(f, n) == IF n = 0 THEN 0 ELSE f[n] + Sum(f, n - 1)
ClampNum(x, lo, hi) == Max(Min(x, hi), lo)                 \* desper.math.clamp

(***************************************************************************)
(* Vectors (sequences of integers)                                         *)
(***************************************************************************)
Add(a, b) == [i \in 1..Len(a) |-> a[i] + b[i]]
Sub(a, b) == [i \in 1..Len(a) |-> a[i] - b[i]]
Mul(a, b) == [i \in 1..Len(a) |-> a[i] * b[i]]
Neg(a)    == [i \in 1..Len(a) |-> -a[i]]
Dot(a, b) == Sum([i \in 1..Len(a) |-> a[i] * b[i]], Len(a))
Len2(a)   == Dot(a, a)                                      \* squared length
Cross(a, b) == <<a[2] * b[3] - a[3] * b[2], a[3] * b[1] - a[1] * b[3], a[1] * b[2] - a[2] * b[1]>>
Clamp(a, lo, hi) == [i \in 1..Len(a) |-> ClampNum(a[i], lo, hi)]
\* rational results
Div(a, b)     == [i \in 1..Len(a) |-> <<a[i], b[i]>>]
Lerp(a, b, t) == [i \in 1..Len(a) |-> <<a[i] * t[2] + t[1] * (b[i] - a[i]), t[2]>>]
Scale(a, s)   == [i \in 1..Len(a) |-> <<a[i] * s[1], s[2]>>]
\* results with square roots: <<sgn, num, den>> = sgn * sqrt(num / den)
Root0 == <<0, 0, 1>>
Abs(a)  == <<Sgn(Len2(a)), Len2(a), 1>>
Norm(a) == [i \in 1..Len(a) |-> IF Len2(a) = 0 THEN Root0 ELSE <<Sgn(a[i]), Sq(a[i]), Len2(a)>>]
FromMag(a, m) == [i \in 1..Len(a) |-> IF Len2(a) = 0 THEN Root0
                                      ELSE <<Sgn(a[i]) * Sgn(m[1]), Sq(a[i]) * Sq(m[1]), Len2(a) * Sq(m[2])>>]
\* the decision of limit(m), m = p/q >= 0:  |v|^2 > m^2  (as implemented for Vec3: |v|^2 > m^3)
TooLong(a, m) == IF Len(a) = 3 /\ ~Vec3LimitSquare THEN Len2(a) * m[2] * m[2] * m[2] > m[1] * m[1] * m[1]
                 ELSE Len2(a) * Sq(m[2]) > Sq(m[1])
\* quarter turns (Vec2)
Quarter(a, k) == CASE k % 4 = 0 -> a
                   [] k % 4 = 1 -> <<-a[2], a[1]>>
                   [] k % 4 = 2 -> <<-a[1], -a[2]>>
                   [] k % 4 = 3 -> <<a[2], -a[1]>>
UnitAt(k) == Quarter(<<1, 0>>, k)
FromHeading(a, k) == [i \in 1..2 |-> <<UnitAt(k)[i], Len2(a) * Sq(UnitAt(k)[i]), 1>>]
FromPolar(m, k) == [i \in 1..2 |-> m * UnitAt(k)[i]]
Dir8 == [k \in -3..4 |-> CASE k = 0 -> <<1, 0>> [] k = 1 -> <<1, 1>> [] k = 2 -> <<0, 1>> [] k = 3 -> <<-1, 1>>
                           [] k = 4 -> <<-1, 0>> [] k = -3 -> <<-1, -1>> [] k = -2 -> <<0, -1>> [] k = -1 -> <<1, -1>>]
OnOctant(a) == Len2(a) # 0 /\ (a[1] = 0 \/ a[2] = 0 \/ Sq(a[1]) = Sq(a[2]))
Heading8(a) == CHOOSE k \in -3..4 : Dir8[k] = <<Sgn(a[1]), Sgn(a[2])>>
\* swizzling: a sequence of letters selects entries
Letters == <<"x", "y", "z", "w">>
LetterIdx(c) == CHOOSE i \in 1..4 : Letters[i] = c
SwzValid(n, s) == Len(s) \in 1..4 /\ \A i \in 1..Len(s) : \E j \in 1..n : Letters[j] = s[i]
SwzIdx(s) == [i \in 1..Len(s) |-> LetterIdx(s[i])]
SwzVec(n) == [i \in 1..n |-> 10 + i]                        \* distinct entries: a wrong index shows

(***************************************************************************)
(* Matrices (flat tuples, written order)                                   *)
(***************************************************************************)
At(M, n, i, j) == M[n * (i - 1) + j]
Mat(n, F(_, _)) == [k \in 1..n * n |-> F((k - 1) \div n + 1, ((k - 1) % n) + 1)]
Side(M) == IF Len(M) = 9 THEN 3 ELSE 4
Ident(n) == Mat(n, LAMBDA i, j : IF i = j THEN 1 ELSE 0)
ZeroM(n) == Mat(n, LAMBDA i, j : 0)
MMul(n, A, B) == Mat(n, LAMBDA i, j : Sum([t \in 1..n |-> At(A, n, i, t) * At(B, n, t, j)], n))
VMul(n, A, v) == [j \in 1..n |-> Sum([t \in 1..n |-> v[t] * At(A, n, t, j)], n)]
Transpose(n, M) == Mat(n, LAMBDA i, j : At(M, n, j, i))
ScaleM(c, M) == [k \in 1..Len(M) |-> c * M[k]]
Row(M, n, i) == [j \in 1..n |-> At(M, n, i, j)]
Col(M, n, j) == [i \in 1..n |-> At(M, n, i, j)]
\* textbook determinant and adjugate (Laplace expansion) — the declarative side of the inverse
Minor(M, n, i, j) == Mat(n - 1, LAMBDA r, c : At(M, n, IF r < i THEN r ELSE r + 1, IF c < j THEN c ELSE c + 1))
RECURSIVE Det(_, _)
Det(M, n) == IF n = 1 THEN M[1]
             ELSE Sum([j \in 1..n |-> SignPow(1 + j) * At(M, n, 1, j) * Det(Minor(M, n, 1, j), n - 1)], n)
Adj(M, n) == Mat(n, LAMBDA i, j : SignPow(i + j) * Det(Minor(M, n, j, i), n - 1))

\* Mat4.__invert__ as written: 2x2 sub-determinants a..r, determinant, sixteen numerators (s(k) = self[k])
InvCode(M) ==
    LET s(z) == M[z + 1]
        a == s(10) * s(15) - s(11) * s(14)   b == s(9) * s(15) - s(11) * s(13)
        c == s(9) * s(14) - s(10) * s(13)    d == s(8) * s(15) - s(11) * s(12)
        e == s(8) * s(14) - s(10) * s(12)    f == s(8) * s(13) - s(9) * s(12)
        g == s(6) * s(15) - s(7) * s(14)     h == s(5) * s(15) - s(7) * s(13)
        i == s(5) * s(14) - s(6) * s(13)     j == s(6) * s(11) - s(7) * s(10)
        k == s(5) * s(11) - s(7) * s(9)      l == s(5) * s(10) - s(6) * s(9)
        m == s(4) * s(15) - s(7) * s(12)     n == s(4) * s(14) - s(6) * s(12)
        o == s(4) * s(11) - s(7) * s(8)      p == s(4) * s(10) - s(6) * s(8)
        q == s(4) * s(13) - s(5) * s(12)     r == s(4) * s(9) - s(5) * s(8)
    IN [det |-> s(0) * (s(5) * a - s(6) * b + s(7) * c) - s(1) * (s(4) * a - s(6) * d + s(7) * e)
                + s(2) * (s(4) * b - s(5) * d + s(7) * f) - s(3) * (s(4) * c - s(5) * e + s(6) * f),
        num |-> << (s(5) * a - s(6) * b + s(7) * c), -(s(1) * a - s(2) * b + s(3) * c),
                   (s(1) * g - s(2) * h + s(3) * i), -(s(1) * j - s(2) * k + s(3) * l),
                  -(s(4) * a - s(6) * d + s(7) * e),  (s(0) * a - s(2) * d + s(3) * e),
                  -(s(0) * g - s(2) * m + s(3) * n),  (s(0) * j - s(2) * o + s(3) * p),
                   (s(4) * b - s(5) * d + s(7) * f), -(s(0) * b - s(1) * d + s(3) * f),
                   (s(0) * h - s(1) * m + s(3) * q), -(s(0) * k - s(1) * o + s(3) * r),
                  -(s(4) * c - s(5) * e + s(6) * f),  (s(0) * c - s(1) * e + s(2) * f),
                  -(s(0) * i - s(1) * n + s(2) * q),  (s(0) * l - s(1) * p + s(2) * r) >>]

\* constructors (Mat4)
FromTrans(t) == Mat(4, LAMBDA i, j : IF i = j THEN 1 ELSE IF i = 4 THEN t[j] ELSE 0)
FromScale(s) == Mat(4, LAMBDA i, j : IF i # j THEN 0 ELSE IF i = 4 THEN 1 ELSE s[i])
Translate(M, t) == MMul(4, M, FromTrans(t))
\* orthogonal_projection(l, r, b, t, n, f): rational entries, box = <<l, r, b, t, n, f>>
Ortho(x) == LET w == x[2] - x[1]  hh == x[4] - x[3]  dd == x[6] - x[5]
                Z == <<0, 1>>
            IN << <<2, w>>, Z, Z, Z,   Z, <<2, hh>>, Z, Z,   Z, Z, <<-2, dd>>, Z,
                  <<-(x[2] + x[1]), w>>, <<-(x[4] + x[3]), hh>>, <<-(x[6] + x[5]), dd>>, <<1, 1>> >>

(***************************************************************************)
(* Result records                                                          *)
(***************************************************************************)
Out(c, f, v, t) == [cls |-> c, fmt |-> f, val |-> v, tol |-> t, warn |-> FALSE]
NoRes    == Out("none", "int", <<>>, FALSE)
Exc(e)   == Out("exc", e, <<>>, FALSE)
VecName(n) == CASE n = 2 -> "Vec2" [] n = 3 -> "Vec3" [] n = 4 -> "Vec4"
MatName(n) == IF n = 3 THEN "Mat3" ELSE "Mat4"
IVec(v)  == Out(VecName(Len(v)), "int", v, FALSE)
IMat(M)  == Out(MatName(Side(M)), "int", M, FALSE)
INum(x)  == Out("num", "int", <<x>>, FALSE)
Done == res.cls # "none"

Compute(o, a) ==
    CASE o = "add"   -> IVec(Add(a[1], a[2]))
      [] o = "sub"   -> IVec(Sub(a[1], a[2]))
      [] o = "mul"   -> IVec(Mul(a[1], a[2]))
      [] o = "div"   -> IF \E i \in 1..Len(a[2]) : a[2][i] = 0 THEN Exc("ZeroDivisionError")
                        ELSE Out(VecName(Len(a[1])), "rat", Div(a[1], a[2]), FALSE)
      [] o = "neg"   -> IVec(Neg(a[1]))
      [] o = "dot"   -> INum(Dot(a[1], a[2]))
      [] o = "cross" -> IVec(Cross(a[1], a[2]))
      [] o = "dist"  -> Out("num", "root", <<Abs(Sub(a[2], a[1]))>>, TRUE)
      [] o = "abs"   -> Out("num", "root", <<Abs(a[1])>>, TRUE)
      [] o = "mag"   -> Out("num", "root", <<Abs(a[1])>>, TRUE)
      [] o = "norm"  -> Out(VecName(Len(a[1])), "root", Norm(a[1]), TRUE)
      [] o = "lerp"  -> Out(VecName(Len(a[1])), "rat", Lerp(a[1], a[2], a[3]), FALSE)
      [] o = "scale" -> Out(VecName(Len(a[1])), "rat", Scale(a[1], a[2]), FALSE)
      [] o = "clamp" -> IVec(Clamp(a[1], a[2], a[3]))
      [] o = "clampnum" -> INum(ClampNum(a[1], a[2], a[3]))
      [] o = "frommag"  -> Out(VecName(Len(a[1])), "root", FromMag(a[1], a[2]), TRUE)
      [] o = "limit" -> IF TooLong(a[1], a[2]) THEN Out(VecName(Len(a[1])), "root", FromMag(a[1], a[2]), TRUE)
                        ELSE IVec(a[1])
      [] o = "rotate"      -> Out("Vec2", "int", Quarter(a[1], a[2]), TRUE)
      [] o = "fromheading" -> Out("Vec2", "root", FromHeading(a[1], a[2]), TRUE)
      [] o = "frompolar"   -> Out("Vec2", "int", FromPolar(a[1], a[2]), TRUE)
      [] o = "heading"     -> Out("num", "turn8", <<Heading8(a[1])>>, TRUE)
      [] o = "swz"   -> IF ~SwzValid(Len(a[1]), a[2]) THEN Exc("AttributeError")
                        ELSE IF Len(a[2]) = 1 THEN INum(a[1][LetterIdx(a[2][1])])
                        ELSE IVec([i \in 1..Len(a[2]) |-> a[1][SwzIdx(a[2])[i]]])
      \* matrices; the size is the length of the tuple
      [] o = "mmul"  -> IMat(MMul(Side(a[1]), a[1], a[2]))
      [] o = "mul3l" -> IMat(MMul(Side(a[1]), MMul(Side(a[1]), a[1], a[2]), a[3]))        \* (A @ B) @ C
      [] o = "mul3r" -> IMat(MMul(Side(a[1]), a[1], MMul(Side(a[1]), a[2], a[3])))        \* A @ (B @ C)
      [] o = "mulv"  -> IVec(VMul(Side(a[1]), a[1], a[2]))
      [] o = "mulvl" -> IVec(VMul(Side(a[1]), MMul(Side(a[1]), a[1], a[2]), a[3]))        \* (A @ B) @ v
      [] o = "mulvr" -> IVec(VMul(Side(a[1]), a[2], VMul(Side(a[1]), a[1], a[3])))        \* B @ (A @ v)
      [] o = "idl"   -> IMat(MMul(Side(a[1]), Ident(Side(a[1])), a[1]))                   \* Mat() @ A
      [] o = "idr"   -> IMat(MMul(Side(a[1]), a[1], Ident(Side(a[1]))))                   \* A @ Mat()
      [] o = "idv"   -> IVec(VMul(Len(a[1]), Ident(Len(a[1])), a[1]))                     \* Mat() @ v
      [] o = "madd"  -> IMat(Add(a[1], a[2]))
      [] o = "msub"  -> IMat(Sub(a[1], a[2]))
      [] o = "mneg"  -> IMat(Neg(a[1]))
      [] o = "row"   -> Out("tuple", "int", Row(a[1], 4, a[2] + 1), FALSE)                \* Mat4.row(index from 0)
      [] o = "col"   -> Out("tuple", "int", Col(a[1], 4, a[2] + 1), FALSE)
      [] o = "transpose" -> IMat(Transpose(4, a[1]))
      [] o = "inv"   -> LET c == InvCode(a[1]) IN
                        IF c.det = 0 THEN [IMat(a[1]) EXCEPT !.warn = TRUE]
                        ELSE Out("Mat4", "rat", [k \in 1..16 |-> <<c.num[k], c.det>>], FALSE)
      \* ~ of the rational matrix Dm / sc (integer matrix over a common denominator): the formula is homogeneous, so
      \* the inverse is sc * adj(Dm) / det(Dm); det(Dm / sc) = det(Dm) / sc^4 is tiny but zero only when det(Dm) is
      [] o = "invq"  -> LET Dm == a[1][1]  sc == a[1][2]  c == InvCode(Dm) IN
                        IF c.det = 0 THEN [Out("Mat4", "rat", [k \in 1..16 |-> <<Dm[k], sc>>], FALSE) EXCEPT !.warn = TRUE]
                        ELSE Out("Mat4", "rat", [k \in 1..16 |-> <<sc * c.num[k], c.det>>], FALSE)
      [] o = "fromtrans" -> IMat(FromTrans(a[1]))
      [] o = "fromscale" -> IMat(FromScale(a[1]))
      [] o = "translate" -> IMat(Translate(a[1], a[2]))
      [] o = "ortho" -> IF a[1][1] = a[1][2] \/ a[1][3] = a[1][4] \/ a[1][5] = a[1][6] THEN Exc("ZeroDivisionError")
                        ELSE Out("Mat4", "rat", Ortho(a[1]), TRUE)

(***************************************************************************)
(* Enumerated operand families                                             *)
(***************************************************************************)
Grid(n, r) == [1..n -> -r..r]
NonZeros(v) == Cardinality({i \in 1..Len(v) : v[i] # 0})
\* asymmetric and Pythagorean operands (|v| = 5, 5, 13, 10 / 3, 7, 9, 13 / 5, 9, 2)
Extra(n) == CASE n = 2 -> {<<3, 4>>, <<-4, 3>>, <<5, -12>>, <<-8, -6>>, <<1, -3>>}
              [] n = 3 -> {<<1, 2, 2>>, <<2, -3, 6>>, <<-4, 4, 7>>, <<3, 4, 12>>, <<1, -2, 3>>}
              [] n = 4 -> {<<1, 2, 2, 4>>, <<2, -4, 5, 6>>, <<-1, 1, 1, 1>>, <<1, -2, 3, -4>>}
RU(n) == CASE n = 2 -> RU2 [] n = 3 -> RU3 [] n = 4 -> RU4
RW(n) == CASE n = 2 -> RW2 [] n = 3 -> RW3 [] n = 4 -> RW4
U(n) == Grid(n, RU(n)) \cup Extra(n)
W(n) == {v \in Grid(n, RW(n)) : n < 4 \/ NonZeros(v) <= K4} \cup Extra(n)
Far(n) == Extra(n) \cup {[i \in 1..n |-> 0], [i \in 1..n |-> i]}       \* second endpoints for lerp
Ts == {<<0, 1>>, <<1, 1>>, <<1, 2>>, <<3, 4>>, <<-1, 2>>}               \* lerp parameters (-1/2 extrapolates)
Ss == {<<0, 1>>, <<-2, 1>>, <<1, 2>>, <<3, 1>>, <<-3, 4>>}              \* scale factors
Ms == {<<0, 1>>, <<1, 2>>, <<1, 1>>, <<3, 2>>, <<2, 1>>, <<3, 1>>, <<5, 1>>}   \* magnitudes, all >= 0
Bounds == {b \in (-2..2) \X (-2..2) : b[1] <= b[2]}                     \* clamp bounds lo <= hi
Turns == -1..4
VecGroup(n) == CASE n = 2 -> "vec2" [] n = 3 -> "vec3" [] n = 4 -> "vec4"

RECURSIVE Words(_, _)
Words(A, n) == IF n = 0 THEN {<<>>} ELSE {Append(w, c) : w \in Words(A, n - 1), c \in A}
SwzAlphabet == {"x", "y", "z", "w", "q"}
SwzWords == UNION {Words(SwzAlphabet, n) : n \in 1..4}
            \cup {<<"x", "y", "x", "y", "x">>, <<"x", "x", "x", "x", "x">>}     \* too long: no Vec5

\* pseudo-random small integers: full-period LCG modulo 2^20 (products stay below 2^31), high bits
LcgNext(x) == (x * 1597 + 51749) % 1048576
RECURSIVE LcgSeq(_, _)
LcgSeq(x, n) == IF n = 0 THEN <<>> ELSE <<x>> \o LcgSeq(LcgNext(x), n - 1)
Rand(stream, n) == LET xs == LcgSeq(LcgNext(((Seed % 4096) * 7919 + (stream % 1048576) * 1597) % 1048576), n)
                   IN [k \in 1..n |-> ((xs[k] \div 8192) % 7) - 3]          \* entries in -3..3
D(n, m) == Rand(2 * m + n, n * n)            \* m-th dense n x n matrix
DV(n, m) == Rand(2 * m + n + 500000, n)      \* m-th dense vector
MakeSingular(M) == [k \in 1..16 |-> IF k > 12 THEN M[k - 12] + M[k - 8] ELSE M[k]]    \* row 4 := row 1 + row 2

Elem(n, k, c) == [t \in 1..n * n |-> IF t = k THEN c ELSE 0]
Elems(n, c) == {Elem(n, k, c) : k \in 1..n * n}
Basis(n, c) == {[t \in 1..n |-> IF t = k THEN c ELSE 0] : k \in 1..n}
\* weighted permutation matrices: each one isolates four of the 96 monomials of the adjugate, all 24 together
\* hit every monomial of every cofactor exactly once
WPerm(p, w) == Mat(4, LAMBDA i, j : IF p[i] = j THEN w[i] ELSE 0)
WPerms == {WPerm(p, <<2, -3, 5, 7>>) : p \in Permutations(1..4)}
Shears == {Add(Ident(4), Elem(4, k, c)) : k \in {t \in 1..16 : (t - 1) \div 4 # (t - 1) % 4}, c \in {2, -3}}
SpecialM4 == {Ident(4), ZeroM(4), FromScale(<<2, -3, 4>>), FromTrans(<<1, -2, 3>>),
              Mat(4, LAMBDA i, j : IF i = 2 THEN 0 ELSE i + 2 * j - 4),         \* zero row
              Mat(4, LAMBDA i, j : i * j - 3),                                   \* rank 2
              Mat(4, LAMBDA i, j : IF j = 3 THEN 0 ELSE i - j + 1)}              \* zero column
InvSet == WPerms \cup Shears \cup SpecialM4 \cup {D(4, m) : m \in 1..NP}
          \cup {MakeSingular(D(4, m)) : m \in 1..NT}
Boxes == {<<-1, 1, -1, 1, 1, 3>>, <<0, 4, 0, 2, -1, 1>>, <<-3, 5, 1, 2, 2, 10>>, <<0, 3, -2, 5, 1, 7>>,
          <<2, 2, 0, 1, 0, 1>>, <<0, 1, 3, 3, 0, 1>>, <<0, 1, 0, 1, 4, 4>>, <<4, 0, 2, 0, 1, -1>>}

(***************************************************************************)
(* The table generator                                                     *)
(***************************************************************************)
Case(o, a) == op = o /\ args = a /\ res = NoRes

VecCases(n) ==
    \/ (\E o \in {"add", "sub", "mul", "div", "dot", "dist"}, a \in W(n), b \in W(n) : Case(o, <<a, b>>))
    \/ (\E o \in {"neg", "abs", "norm"}, a \in U(n) : Case(o, <<a>>))
    \/ (\E a \in W(n), b \in Far(n), t \in Ts : Case("lerp", <<a, b, t>>))
    \/ (\E a \in U(n), s \in Ss : Case("scale", <<a, s>>))
    \/ (\E a \in U(n), b \in Bounds : Case("clamp", <<a, b[1], b[2]>>))
    \/ (n = 3 /\ \E a \in W(3), b \in W(3) : Case("cross", <<a, b>>))
    \/ (n < 4 /\ \E o \in {"frommag", "limit"}, a \in U(n), m \in Ms : Case(o, <<a, m>>))
    \/ (n < 4 /\ \E a \in U(n) : Case("mag", <<a>>))
    \/ (n = 2 /\ \E o \in {"rotate", "fromheading"}, a \in U(2), k \in Turns : Case(o, <<a, k>>))
    \/ (n = 2 /\ \E m \in -2..3, k \in Turns : Case("frompolar", <<m, k>>))
    \/ (n = 2 /\ \E a \in {v \in U(2) : OnOctant(v)} : Case("heading", <<a>>))
    \/ (n = 2 /\ \E x \in -3..3, b \in Bounds : Case("clampnum", <<x, b[1], b[2]>>))

SwzCases == \E n \in 2..4, s \in SwzWords : Case("swz", <<SwzVec(n), s>>)

MatCases(n) ==
    \/ (\E A \in Elems(n, 2), B \in Elems(n, 3) : Case("mmul", <<A, B>>))
    \/ (\E i \in 1..NP, j \in 1..NP : Case("mmul", <<D(n, i), D(n, j)>>))
    \/ (\E A \in Elems(n, 2), v \in Basis(n, 3) : Case("mulv", <<A, v>>))
    \/ (\E i \in 1..NP, j \in 1..NP : Case("mulv", <<D(n, i), DV(n, j)>>))
    \/ (\E o \in {"mul3l", "mul3r"}, i \in 1..NT, j \in 1..NT, k \in 1..NT : Case(o, <<D(n, i), D(n, j), D(n, k)>>))
    \/ (\E o \in {"mulvl", "mulvr"}, i \in 1..NT, j \in 1..NT, k \in 1..NT : Case(o, <<D(n, i), D(n, j), DV(n, k)>>))
    \/ (\E o \in {"idl", "idr", "mneg"}, i \in 1..NP : Case(o, <<D(n, i)>>))
    \/ (\E i \in 1..NP : Case("idv", <<DV(n, i)>>))
    \/ (\E o \in {"madd", "msub"}, i \in 1..NP : Case(o, <<D(n, i), D(n, i + NP)>>))
    \/ (n = 4 /\ \E A \in Elems(4, 5) \cup WPerms \cup {D(4, i) : i \in 1..NP} : Case("transpose", <<A>>))
    \/ (n = 4 /\ \E o \in {"row", "col"}, i \in 1..NT, k \in 0..3 : Case(o, <<D(4, i), k>>))

Scales == {128, 1000}        \* common denominators: determinants down to 1e-12 (128 is exact in binary floating point)
InvCases == \/ (\E A \in InvSet : Case("inv", <<A>>))
            \/ (\E A \in InvSet, sc \in Scales : Case("invq", << <<A, sc>> >>))
\* projective-shaped matrices (fourth column is not (0,0,0,1)): translate must be the product, not an entry update
Projective == {<<2, 0, 0, 0,  0, 3, 0, 0,  0, 0, -2, -1,  0, 0, -5, 0>>,
               <<1, 0, 0, 2,  0, 1, 0, -1,  0, 0, 1, 3,  4, 5, 6, 0>>}

CtorCases ==
    \/ (\E o \in {"fromtrans", "fromscale"}, v \in W(3) : Case(o, <<v>>))
    \/ (\E A \in {Ident(4), FromScale(<<2, -3, 4>>)} \cup Projective \cup {D(4, i) : i \in 1..NT}, v \in Extra(3) \cup Basis(3, -2)
           : Case("translate", <<A, v>>))
    \/ (\E x \in Boxes : Case("ortho", <<x>>))

\* many pseudo-random matrices: products by consecutive pairs, inverses one by one
BigCases ==
    \/ (\E m \in BigLo..BigHi : Case("mmul", <<D(4, 2 * m), D(4, 2 * m + 1)>>))
    \/ (\E m \in BigLo..BigHi : Case("mmul", <<D(3, 2 * m), D(3, 2 * m + 1)>>))
    \/ (\E m \in BigLo..BigHi : Case("mulv", <<D(4, m), DV(4, m)>>))
    \/ (\E m \in BigLo..BigHi : Case("inv", <<D(4, m)>>))
    \/ (\E m \in BigLo..BigHi : Case("invq", << <<D(4, m), IF m % 2 = 0 THEN 128 ELSE 1000>> >>))

Init == \/ (\E n \in 2..4 : VecGroup(n) \in Groups /\ VecCases(n))
        \/ ("swz" \in Groups /\ SwzCases)
        \/ ("mat3" \in Groups /\ MatCases(3))
        \/ ("mat4" \in Groups /\ MatCases(4))
        \/ ("inv" \in Groups /\ InvCases)
        \/ ("ctor" \in Groups /\ CtorCases)
        \/ ("big" \in Groups /\ BigCases)

Eval == /\ ~Done
        /\ res' = Compute(op, args)
        /\ UNCHANGED <<op, args>>

Next == Eval
Spec == Init /\ [][Next]_vars

(***************************************************************************)
(* Declarative layer: the clauses of the statement, on the reference       *)
(***************************************************************************)
Is(o) == Done /\ op = o
A1 == args[1]
A2 == args[2]
A3 == args[3]
\* rationals <<n, d>> compared by cross-multiplication; sums of roots squared over a common denominator
REq(x, y) == x[1] * y[2] = y[1] * x[2]

TypeOK == /\ res.cls \in {"none", "exc", "num", "tuple", "Vec2", "Vec3", "Vec4", "Mat3", "Mat4"}
          /\ res.fmt \in {"int", "rat", "root", "turn8", "ZeroDivisionError", "AttributeError"}
          /\ (res.cls \in {"Vec2", "Vec3", "Vec4"} => VecName(Len(res.val)) = res.cls)
          /\ (res.cls \in {"Mat3", "Mat4"} => MatName(Side(res.val)) = res.cls /\ Len(res.val) \in {9, 16})
          /\ (res.fmt = "rat" => \A i \in 1..Len(res.val) : res.val[i][2] # 0)
          /\ (res.fmt = "root" => \A i \in 1..Len(res.val) : res.val[i][2] >= 0 /\ res.val[i][3] > 0)

\* entry by entry: the i-th entry of the result depends on the i-th entries only, and the usual identities hold
Law_Entrywise ==
    /\ (Is("add") => Sub(res.val, A2) = A1 /\ res.val = Add(A2, A1))
    /\ (Is("sub") => Add(res.val, A2) = A1 /\ res.val = Add(A1, Neg(A2)))
    /\ (Is("mul") => \A i \in 1..Len(A1) : res.val[i] = A1[i] * A2[i])
    /\ (Is("div") => (res.cls = "exc" <=> \E i \in 1..Len(A2) : A2[i] = 0)
                     /\ (res.cls # "exc" => \A i \in 1..Len(A1) : res.val[i][1] * A2[i] = A1[i] * res.val[i][2]))  \* q * b = a
    /\ (Is("neg") => Add(res.val, A1) = [i \in 1..Len(A1) |-> 0])
    /\ (Is("madd") => Sub(res.val, A2) = A1) /\ (Is("msub") => Add(res.val, A2) = A1)
    /\ (Is("mneg") => Add(res.val, A1) = ZeroM(Side(A1)))

Law_DotCross ==
    /\ (Is("dot") => res.val[1] = Dot(A2, A1) /\ (A1 = A2 => res.val[1] = Len2(A1))
                     /\ 2 * res.val[1] = Len2(Add(A1, A2)) - Len2(A1) - Len2(A2))          \* polarisation
    /\ (Is("cross") => /\ Dot(res.val, A1) = 0 /\ Dot(res.val, A2) = 0                       \* orthogonal to both
                       /\ res.val = Neg(Cross(A2, A1))                                       \* antisymmetric
                       /\ Len2(res.val) = Len2(A1) * Len2(A2) - Sq(Dot(A1, A2))              \* Lagrange: area
                       /\ Det(A1 \o A2 \o res.val, 3) >= 0)                                  \* right-handed

Law_Lerp == Is("lerp") => \A i \in 1..Len(A1) :
                /\ res.val[i][2] = A3[2]
                /\ res.val[i][1] = (A3[2] - A3[1]) * A1[i] + A3[1] * A2[i]                   \* (1-t) a + t b
                /\ (A3 = <<0, 1>> => res.val[i][1] = A1[i]) /\ (A3 = <<1, 1>> => res.val[i][1] = A2[i])

Law_ScaleClamp ==
    /\ (Is("scale") => \A i \in 1..Len(A1) : REq(res.val[i], <<A1[i] * A2[1], A2[2]>>))
    /\ (Is("clamp") => \A i \in 1..Len(A1) : /\ A2 <= res.val[i] /\ res.val[i] <= A3
                                             /\ res.val[i] \in {A1[i], A2, A3}
                                             /\ (A2 <= A1[i] /\ A1[i] <= A3 => res.val[i] = A1[i]))
    /\ (Is("clampnum") => A2 <= res.val[1] /\ res.val[1] <= A3 /\ (A2 <= A1 /\ A1 <= A3 => res.val[1] = A1))

\* squared length of a vector of roots over the common denominator of its entries (all entries share it here)
RootLen2(v) == <<Sum([i \in 1..Len(v) |-> v[i][2]], Len(v)), v[1][3]>>
SameDen(v) == \A i \in 1..Len(v) : v[i][3] = v[1][3]
\* same direction as the integer vector a: signs agree and squares are proportional
SameDir(v, a) == \A i, j \in 1..Len(a) : Sgn(a[i]) * Sgn(v[i][1]) >= 0 /\ v[i][2] * Sq(a[j]) = v[j][2] * Sq(a[i])

Law_Lengths ==
    /\ (Is("dist") => res.val[1][2] = Len2(Sub(A1, A2)) /\ res.val[1][2] = Len2(A1) + Len2(A2) - 2 * Dot(A1, A2))
    /\ (Is("abs") \/ Is("mag") => res.val[1][2] = Dot(A1, A1) /\ res.val[1][3] = 1)
    /\ (Is("norm") => /\ (Len2(A1) = 0 => \A i \in 1..Len(A1) : res.val[i][2] = 0)           \* zero stays zero
                      /\ (Len2(A1) # 0 => /\ SameDen(res.val) /\ REq(RootLen2(res.val), <<1, 1>>)   \* unit
                                          /\ SameDir(res.val, A1)
                                          /\ \A i \in 1..Len(A1) : Sgn(res.val[i][1]) = Sgn(A1[i])))
    /\ (Is("frommag") /\ Len2(A1) # 0 => /\ SameDen(res.val)
                                         /\ REq(RootLen2(res.val), <<Sq(A2[1]), Sq(A2[2])>>)  \* |r|^2 = m^2
                                         /\ SameDir(res.val, A1))

\* limit(m) never returns a vector longer than m and leaves short enough vectors unchanged (D19 switch)
Law_Limit == Is("limit") =>
    /\ (res.fmt = "int" => res.val = A1 /\ Len2(A1) * Sq(A2[2]) <= Sq(A2[1]))
    /\ (res.fmt = "root" => /\ Len2(A1) * Sq(A2[2]) > Sq(A2[1])
                            /\ REq(RootLen2(res.val), <<Sq(A2[1]), Sq(A2[2])>>) /\ SameDir(res.val, A1))

Law_Turns ==
    /\ (Is("rotate") => /\ Len2(res.val) = Len2(A1)                                           \* magnitude kept
                        /\ (A2 % 2 = 1 => Dot(res.val, A1) = 0)
                        /\ (A2 % 2 = 0 => Dot(res.val, A1) = SignPow(A2 \div 2) * Len2(A1))
                        /\ (A2 % 4 = 1 => Det(<<A1[1], A1[2], res.val[1], res.val[2]>>, 2) >= 0)   \* counter-clockwise
                        /\ Quarter(res.val, 4 - (A2 % 4)) = A1)
    /\ (Is("fromheading") => /\ res.val[1][2] + res.val[2][2] = Len2(A1)                      \* magnitude kept
                             /\ <<res.val[1][1], res.val[2][1]>> = UnitAt(A2))
    /\ (Is("frompolar") => Len2(res.val) = Sq(A1) /\ res.val = [i \in 1..2 |-> A1 * UnitAt(A2)[i]])
    /\ (Is("heading") => \E c \in 1..20 : A1 = [i \in 1..2 |-> c * Dir8[res.val[1]][i]])

Law_Swizzle == Is("swz") =>
    LET n == Len(A1)  s == A2 IN
    /\ (res.cls = "exc" <=> (Len(s) > 4 \/ \E i \in 1..Len(s) : s[i] \notin {Letters[j] : j \in 1..n}))
    /\ (res.cls # "exc" => /\ Len(res.val) = Len(s)
                           /\ \A i \in 1..Len(s) : \E j \in 1..n : Letters[j] = s[i] /\ res.val[i] = A1[j]
                           /\ (Len(s) > 1 => res.cls = VecName(Len(s))))

\* @ : associative, default matrix is the identity, (A @ B) @ v = B @ (A @ v), entry = row times column
Law_Product ==
    /\ (Is("mmul") => LET n == Side(A1) IN
                      /\ \A i, j \in 1..n : At(res.val, n, i, j) = Dot(Row(A1, n, i), Col(A2, n, j))
                      /\ Transpose(n, res.val) = MMul(n, Transpose(n, A2), Transpose(n, A1)))
    /\ (Is("mul3l") => res.val = MMul(Side(A1), A1, MMul(Side(A1), A2, A3)))
    /\ (Is("mul3r") => res.val = MMul(Side(A1), MMul(Side(A1), A1, A2), A3))
    /\ (Is("mulv") => \A j \in 1..Len(A2) : res.val[j] = Dot(A2, Col(A1, Len(A2), j)))
    /\ (Is("mulvl") => res.val = VMul(Side(A1), A2, VMul(Side(A1), A1, A3)))
    /\ (Is("mulvr") => res.val = VMul(Side(A1), MMul(Side(A1), A1, A2), A3))
    /\ (Is("idl") \/ Is("idr") \/ Is("idv") => res.val = A1)

Law_Transpose == Is("transpose") =>
    /\ \A i, j \in 1..4 : At(res.val, 4, i, j) = At(A1, 4, j, i)
    /\ Transpose(4, res.val) = A1
    /\ \A i \in 1..4 : Row(res.val, 4, i) = Col(A1, 4, i)

Law_RowCol == (Is("row") => \A j \in 1..4 : res.val[j] = At(A1, 4, A2 + 1, j))
              /\ (Is("col") => \A i \in 1..4 : res.val[i] = At(A1, 4, i, A2 + 1))

\* ~M: the formula of the code equals adjugate over determinant (Laplace cofactors), which is a two-sided inverse;
\* a singular matrix comes back unchanged with a warning
Law_Inverse == Is("inv") =>
    LET c == InvCode(A1)  d == Det(A1, 4) IN
    /\ c.det = d /\ c.num = Adj(A1, 4)
    /\ MMul(4, A1, c.num) = ScaleM(d, Ident(4)) /\ MMul(4, c.num, A1) = ScaleM(d, Ident(4))
    /\ (d = 0 <=> res.warn)
    /\ (d = 0 => res.val = A1 /\ res.fmt = "int")
    /\ (d # 0 => res.fmt = "rat" /\ \A k \in 1..16 : res.val[k] = <<Adj(A1, 4)[k], d>>)

\* the same on rational operands Dm / sc with a tiny determinant: still a two-sided inverse, and no singular warning
\* unless the determinant is exactly zero.  (Dm / sc) @ (num / d) = I  <=>  Dm @ num = sc * d * I
Law_InverseScaled == Is("invq") =>
    LET Dm == A1[1]  sc == A1[2]  d == Det(Dm, 4)  num == [k \in 1..16 |-> res.val[k][1]] IN
    /\ InvCode(Dm).det = d /\ InvCode(Dm).num = Adj(Dm, 4)
    /\ (d = 0 <=> res.warn)
    /\ (d = 0 => \A k \in 1..16 : res.val[k] = <<Dm[k], sc>>)
    /\ (d # 0 => /\ \A k \in 1..16 : res.val[k][2] = d
                 /\ MMul(4, Dm, num) = ScaleM(sc * d, Ident(4)) /\ MMul(4, num, Dm) = ScaleM(sc * d, Ident(4)))

\* the constructors build the stated transforms: a point p (row <<p, 1>>) is moved / scaled as said
Pt(p) == <<p[1], p[2], p[3], 1>>
Probe == {<<0, 0, 0>>, <<1, 2, 3>>, <<-2, 1, 5>>}
Law_Constructors ==
    /\ (Is("fromtrans") => \A p \in Probe : VMul(4, res.val, Pt(p)) = Pt(Add(p, A1)))
    /\ (Is("fromscale") => \A p \in Probe : VMul(4, res.val, Pt(p)) = Pt(Mul(p, A1)))
    /\ (Is("translate") => /\ res.val = MMul(4, A1, FromTrans(A2))
                           /\ \A p \in Probe : LET q == VMul(4, A1, Pt(p)) IN          \* first A1, then the shift
                                 VMul(4, res.val, Pt(p)) = Add(q, <<q[4] * A2[1], q[4] * A2[2], q[4] * A2[3], 0>>))
    \* the box [l,r] x [b,t] x [-n,-f] goes to the cube [-1,1]^3: numerators over the common denominators w, h, d
    /\ (Is("ortho") /\ res.cls # "exc" =>
            LET x == A1  M == res.val
                img(p, k) == <<p[k] * M[5 * k - 4][1] + M[12 + k][1], M[5 * k - 4][2]>>   \* k-th coordinate of p @ M
            IN /\ M[1][2] = M[13][2] /\ M[6][2] = M[14][2] /\ M[11][2] = M[15][2]
               /\ REq(img(<<x[1], x[3], -x[5]>>, 1), <<-1, 1>>) /\ REq(img(<<x[2], x[4], -x[6]>>, 1), <<1, 1>>)
               /\ REq(img(<<x[1], x[3], -x[5]>>, 2), <<-1, 1>>) /\ REq(img(<<x[2], x[4], -x[6]>>, 2), <<1, 1>>)
               /\ REq(img(<<x[1], x[3], -x[5]>>, 3), <<-1, 1>>) /\ REq(img(<<x[2], x[4], -x[6]>>, 3), <<1, 1>>)
               /\ \A k \in 1..16 : (k \notin {1, 6, 11, 13, 14, 15, 16} => M[k][1] = 0) /\ M[16] = <<1, 1>>)
=============================================================================

-------------------------- MODULE CoroutinesTrace --------------------------
(***************************************************************************)
(* Pipeline B for Coroutines.tla: executions of the real                   *)
(* CoroutineProcessor with more coroutines, longer scripts and longer      *)
(* schedules than TLC explores exhaustively, recorded call by call (start, *)
(* kill, process(dt)) with the observable state after each call, and       *)
(* checked against the specification.  The scripts are constants of the    *)
(* batch (one generated module per batch).  Wake-ups of equal deadlines    *)
(* are a choice of the specification: TLC follows the order the            *)
(* implementation took.  Every invariant of Coroutines.tla is evaluated in *)
(* every state of every trace.                                             *)
(***************************************************************************)
EXTENDS Coroutines, Json, IOUtils

Traces == JsonDeserialize(IOEnv.TRACE_FILE)

VARIABLES tid, l
tvars == <<vars, tid, l>>

Evs == Traces[tid].events
Cur2 == Evs[l]

TInit == /\ tid \in 1..Len(Traces) /\ TLCSet(tid, 0) /\ Init /\ l = 1
Consume(A) == /\ l <= Len(Evs) /\ A /\ l' = l + 1 /\ UNCHANGED tid

TNext == \/ Consume(Cur2.op = "Start" /\ Start(Cur2.arg))
         \/ Consume(Cur2.op = "Kill" /\ Kill(Cur2.arg))
         \/ Consume(Cur2.op = "Process" /\ Process(Cur2.arg))

TraceSpec == TInit /\ [][TNext]_tvars

RealLog == SelectSeq(log, LAMBDA x : x[3] # "exhausted")
ObsOK == (l > 1) =>
    LET e == Evs[l - 1] IN
    /\ ret = e.ret
    /\ RealLog = e.log
    /\ \A i \in 1..Len(e.state) : StateOf(Cur, e.state[i][1]) = e.state[i][2]
    /\ \A i \in 1..Len(e.pvalue) : pval[e.pvalue[i][1]] = e.pvalue[i][2]
    \* released in time: whatever the processor still references is known to the model as running / waiting
    /\ \A i \in 1..Len(e.held) : gens[e.held[i]] # "none"
Track == ObsOK /\ TLCSet(tid, IF l > TLCGet(tid) THEN l ELSE TLCGet(tid))

Rejected == {t \in 1..Len(Traces) : TLCGet(t) # Len(Traces[t].events) + 1}
Accepted == \/ Rejected = {}
            \/ (\A t \in Rejected : PrintT(<<"REJECT", t, TLCGet(t)>>)) /\ FALSE
=============================================================================

---------------------------- MODULE PopulatorMC ----------------------------
(* Enumerated scenario families for Populator (cfg: Scenarios <- Sc_...,     *)
(* a sequence of sets of scenarios).                                        *)
(* A scenario: [trees, cn, ct, calls, fresh (calls that start on a new map)] ; a tree: [files, dirs, specials];     *)
(* a call: [add, n, t, root] with the rules added before it, the per-call options ("T" / "F" / "N" = None) and the  *)
(* tree it reads (index into trees).                                        *)
EXTENDS Populator

\* names: 0, 1 and 2 dots; s.d and t.txt are *directories* with a dot in their name
D == <<"d">>    E == <<"e">>    S == <<"s">>    U == <<"u">>    T == <<"t">>
SD == <<"s", "d">>              TT == <<"t", "txt">>
X == <<"x">>    XT == <<"x", "txt">>    XP == <<"x", "png">>    YG == <<"y", "tar", "gz">>    ZT == <<"z", "txt">>

RD == <<D>>    RE == <<E>>    DS == <<D, S>>   \* rule directories (paths)
dx == <<D, X>>          dxt == <<D, XT>>        dxp == <<D, XP>>        dyg == <<D, YG>>
dsxt == <<D, S, XT>>    dszt == <<D, S, ZT>>    dsuxt == <<D, S, U, XT>>
dsdx == <<D, SD, X>>    ext == <<E, XT>>        esyg == <<E, S, YG>>
ff == <<<<"f">>>>                               \* a regular file where a rule expects a directory
pp == <<<<"p">>>>                               \* a FIFO where a rule expects a directory
\* entries INSIDE populated directories that are neither regular files nor directories (the adapter makes a FIFO of a
\* name beginning with q and a dangling symbolic link of a name beginning with l), without an extension and with
\* extensions the rules accept: d/q  d/q.txt  d/l.png  d/s/l  d/s/q.tar.gz  e/l.txt
dq == <<D, <<"q">>>>    dqt == <<D, <<"q", "txt">>>>    dlp == <<D, <<"l", "png">>>>
dsl == <<D, S, <<"l">>>>    dsqg == <<D, S, <<"q", "tar", "gz">>>>    elt == <<E, <<"l", "txt">>>>
dxzt == <<D, X, ZT>>    dxuxt == <<D, X, U, XT>>                \* below a DIRECTORY d/x (d/x is a file in other trees)
FileU == {dx, dxt, dxp, dyg, dsxt, dszt, dsuxt, dsdx, ext, esyg, ff}
DFiles == {dx, dxt, dxp, dyg, dsxt}            \* where keys clash under trim_extensions
\* empty directories: d/t, d/t.txt, d/s/t, e, d
dt == <<D, T>>    dtt == <<D, TT>>    dst == <<D, S, T>>

UpTo(Set, n) == {x \in SUBSET Set : Cardinality(x) <= n}
\* a tree from its regular files and its empty directories
TreeP(F, Em, Sp) == [files |-> F, dirs |-> (UNION {Prefixes(Front(p)) : p \in F} \cup UNION {Prefixes(p) : p \in Em}) \ {<<>>},
                     specials |-> Sp]
Tree(F, Em) == TreeP(F, Em, {})
RichTrees == {TreeP({dxt, ff}, {dt}, {pp}),
              TreeP({dxt, dsxt}, {dt}, {dq, dqt, dlp, dsl, dsqg}), TreeP({dxp, dyg, ext}, {}, {dqt, dlp, elt}),
              TreeP({}, {DS, RE}, {dq, dqt, dsl, elt}),          \* nothing but special entries below the rule directories
              Tree({dx, dxt, dxp}, {}), Tree({dxt, dxp, dyg, dsxt}, {dt}), Tree({dxt, dszt, dsuxt, ext}, {dtt}),
              Tree({dx, dsdx, dyg, ff}, {dst}), Tree({dxt, dxp, dsxt, dszt, esyg}, {dt, dtt}),
              Tree({}, {RD}), Tree({}, {dt, RE}), Tree({dsuxt}, {dst, dtt}), Tree({dx, dxt, dxp, dsxt, dsdx}, {})}

\* rules: a proto-rule is <<directory, extensions>>; factory and extra arguments go by position so that
\* neighbouring rules differ in both
P(dir, exts) == <<dir, exts>>
Fac == <<"F", "G", "F", "G">>
Arg == <<"0", "1", "2", "0", "1">>
Mk(ps, off) == [i \in 1..Len(ps) |-> [dir |-> ps[i][1], exts |-> ps[i][2],
                                       fac |-> Fac[((i + off) % 4) + 1], args |-> Arg[((i + off) % 5) + 1]]]
FF == <<<<"f">>>>
MM == <<<<"m">>>>                               \* never exists
PP == <<<<"p">>>>                               \* a FIFO in some trees, missing in the others
ExtSets == {{}, {"txt"}, {"txt", "png"}, {"gz"}}
Protos1 == {P(d, x) : d \in {RD, DS, RE}, x \in ExtSets} \cup {P(FF, {}), P(MM, {}), P(PP, {})}
PCR(add, n, t, root) == [add |-> add, n |-> n, t |-> t, root |-> root]
PC(add, n, t) == PCR(add, n, t, 1)
ScnT(trees, cn, ct, calls, fresh) == [trees |-> trees, cn |-> cn, ct |-> ct, calls |-> calls, fresh |-> fresh]
ScnF(tree, cn, ct, calls, fresh) == ScnT(<<tree>>, cn, ct, calls, fresh)
Scn(tree, cn, ct, calls) == ScnF(tree, cn, ct, calls, {})
BoolOpt == {"T", "F"}
Opt == {"T", "F", "N"}

\* 1. shape of the tree x one rule x trimming / nesting (clash groups inside one rule)
Fam1(Trees, Ns) == {Scn(tr, FALSE, FALSE, <<PC(Mk(<<p>>, 0), n, t)>>) : tr \in Trees, p \in Protos1, n \in Ns, t \in {"T", "N"}}

\* 2. conflicts: overlapping rules and repeated population with every mix of effective options
Lists2 == {<<P(RD, {})>>, <<P(RD, {}), P(RD, {"txt"})>>, <<P(RD, {"txt"}), P(RD, {})>>, <<P(RD, {}), P(DS, {})>>,
           <<P(RD, {"txt", "png"}), P(RD, {"gz"})>>}
Adds2 == {<<>>, <<P(RD, {"txt"})>>}
Fam2a(Trees, Lists) ==
    {Scn(tr, FALSE, TRUE, <<PC(Mk(l, 0), n1, t1)>>) : tr \in Trees, l \in Lists, n1 \in BoolOpt, t1 \in BoolOpt}
Fam2b(Trees, Lists, Adds) ==
    {Scn(tr, TRUE, FALSE, <<PC(Mk(l, 0), n1, t1), PC(Mk(a, 2), n2, t2)>>)
       : tr \in Trees, l \in Lists, a \in Adds, n1 \in BoolOpt, t1 \in BoolOpt, n2 \in BoolOpt, t2 \in BoolOpt}

\* 3. rejected and missing rule paths at every position of the rule list, partial population before the error
\* (the kinds of an existing non-directory: a regular file f, a special file p - a FIFO)
Protos3 == {P(RD, {}), P(FF, {}), P(MM, {}), P(RE, {"txt"}), P(PP, {})}
Lists3(n) == UNION {[1..m -> Protos3] : m \in 0..n}
Trees3 == {Tree({ff}, {}), Tree({ff, dxt}, {}), Tree({ff, dxt, ext}, {dt}), Tree({dxt}, {}),
           TreeP({dxt}, {}, {pp}), TreeP({ff, dxt, ext}, {}, {pp}), TreeP({ff, dxt, ext}, {}, {pp, dq, dqt, elt})}
Fam3a(n) == {Scn(tr, TRUE, FALSE, <<PC(Mk(l, 0), "N", "N")>>) : tr \in Trees3, l \in Lists3(n)}
Fam3b(n) == {Scn(tr, TRUE, FALSE, <<PC(Mk(l, 0), "N", "N"), PC(Mk(a, 1), "N", "T")>>)
               : tr \in Trees3, l \in Lists3(n), a \in {<<>>, <<P(FF, {})>>, <<P(PP, {})>>}}

\* 4. None falls back to the constructor: the whole constructor x per-call matrix
Trees4 == {Tree({dxt, dxp}, {}), Tree({dx, dxt, dsxt}, {}), Tree({dyg, dxt}, {dt})}
Lists4 == {<<P(RD, {})>>, <<P(RD, {}), P(RD, {"txt"})>>}
Fam4a == {Scn(tr, cn, ct, <<PC(Mk(l, 0), n, t)>>) : tr \in Trees4, l \in Lists4, cn \in BOOLEAN, ct \in BOOLEAN, n \in Opt, t \in Opt}
Fam4b == {Scn(tr, cn, ct, <<PC(Mk(l, 0), n, t), PC(<<>>, n, t)>>)
            : tr \in Trees4, l \in Lists4, cn \in BOOLEAN, ct \in BOOLEAN, n \in Opt, t \in Opt}

\* 5. one populator, several calls: a per-call option must not become the populator's default. Call 1 gives
\* anything, the last call leaves at least one option to the constructor; on the same map and on a new one
Last5 == {<<"N", "N">>, <<"N", "T">>, <<"N", "F">>, <<"T", "N">>, <<"F", "N">>}
Fam5a(Trees) == {ScnF(tr, cn, ct, <<PC(Mk(l, 0), n, t), PC(<<>>, o[1], o[2])>>, fr)
                   : tr \in Trees, l \in Lists4, cn \in BOOLEAN, ct \in BOOLEAN, n \in Opt, t \in Opt, o \in Last5, fr \in {{}, {2}}}
\* p(m); p(m, the opposite of the constructor); p(m)  and  p(m1, opposite); p(m2, opposite); p(m3)
Neg(b) == IF b THEN "F" ELSE "T"
S5b(tr, l, cn, ct, on, ot, same, fr) ==
    LET n == IF on THEN Neg(cn) ELSE "N"
        t == IF ot THEN Neg(ct) ELSE "N"
    IN ScnF(tr, cn, ct, <<PC(Mk(l, 0), IF same THEN n ELSE "N", IF same THEN t ELSE "N"), PC(<<>>, n, t), PC(<<>>, "N", "N")>>, fr)
Fam5b(Trees) == {S5b(tr, l, cn, ct, on, ot, same, fr) : tr \in Trees, l \in Lists4, cn \in BOOLEAN, ct \in BOOLEAN,
                   on \in BOOLEAN, ot \in BOOLEAN, same \in BOOLEAN, fr \in {{}, {3}, {2, 3}}}
Trees5 == {Tree({dxt, dxp}, {}), Tree({dx, dxt, dsxt}, {})}

\* 6. overlays: the populator reads a base tree (once or twice: the same keys are claimed again, nest_on_conflict
\* stacks them in layers) and then, through `root`, an overlay in which a name that was a file (d/x; d/x.txt or
\* d/x.png with trimming) is a directory with files below it. Every directory on the way to those files is a
\* sub-map, whatever held its key
\* (in the last overlay the special entries d/q.txt and d/s/l appear next to what the base tree had)
Bases6 == {Tree({dx}, {}), Tree({dx, dxt}, {}), Tree({dxt, dxp, dyg}, {}), Tree({dx, dsxt}, {dt})}
Overs6 == {Tree({dxzt}, {}), Tree({dxzt, dxuxt, dyg}, {}), Tree({dxuxt, dsxt}, {}), TreeP({dxzt, dsxt}, {}, {dqt, dsl})}
Fam6a == {ScnT(<<b, o>>, FALSE, FALSE, <<PC(Mk(l, 0), n1, t), PCR(Mk(a, 2), n2, t, 2)>>, {})
            : b \in Bases6, o \in Overs6, l \in Lists4, a \in Adds2, n1 \in BoolOpt, n2 \in BoolOpt, t \in BoolOpt}
Fam6b == {ScnT(<<b, o>>, TRUE, ct, <<PC(Mk(l, 0), n1, "N"), PC(<<>>, n2, "N"), PCR(<<>>, n3, "N", 2)>>, {})
            : b \in Bases6, o \in Overs6, l \in Lists4, ct \in BOOLEAN, n1 \in BoolOpt, n2 \in BoolOpt, n3 \in BoolOpt}

Empties == {{}, {dt}, {dtt}, {dst}}
TreesQ == {Tree(F, {}) : F \in UpTo(FileU, 2)} \cup RichTrees
TreesC == {Tree(F, {}) : F \in UpTo(DFiles, 3) \ {{}}}

\* Scenarios is a *sequence* of families: TLC's union of two enumerated sets is quadratic in their size
Sc_quick == <<Fam1(TreesQ, {"N"}), Fam1(TreesC \cup RichTrees, {"T"}), Fam2a(TreesC, Lists2), Fam2b(TreesC, Lists2, Adds2), Fam3a(2), Fam3b(2), Fam4a, Fam4b, Fam5a(Trees5), Fam5b(Trees5), Fam6a, Fam6b>>
TreesTiny == {Tree({dxt, dxp}, {}), Tree({dxt, dyg}, {})}
Sc_tiny == <<Fam2a(TreesTiny, Lists2), Fam2b(TreesTiny, Lists2, Adds2), Fam3a(1), Fam3b(1)>>     \* switch runs
=============================================================================

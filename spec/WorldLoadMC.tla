----------------------------- MODULE WorldLoadMC -----------------------------
(* Model-checking instances of WorldLoad: named description families, chosen by the constant Fam. *)
EXTENDS WorldLoad

Comp(t, a, kw) == [type |-> t, args |-> a, kwargs |-> kw]
Ent(id, cs)    == [id |-> id, comps |-> cs]
Desc(ps, es)   == [procs |-> ps, ents |-> es]
Kw1(v)         == << <<"val", v>> >>
Kw2(u, v)      == << <<"val", u>>, <<"other", v>> >>

(* --- family V: one component or processor, arguments over the alphabet --------------------- *)
\* <<args, kwargs>> patterns: every token alone (positional / keyword), pairs over a core set
ArgsOne    == {<< <<v>>, <<>> >> : v \in Toks} \cup {<< <<>>, Kw1(v) >> : v \in Toks}
ArgsTwo(C) == {<< <<u, v>>, <<>> >> : u \in C, v \in C} \cup {<< <<u>>, Kw1(v) >> : u \in C, v \in C}
              \cup {<< <<>>, Kw2(u, v) >> : u \in C, v \in C}
Core       == {"O1", "O2", "R1", "R2", "H2", "M1", "M2", "M4", "M6", "N1", "L1", "D1"}

InV(d, AS, CT, PT) == \/ \E t \in CT, a \in AS : d = Desc(<<>>, <<Ent(AutoMark, <<Comp(t, a[1], a[2])>>)>>)
                      \/ \E t \in PT, a \in AS : d = Desc(<<Comp(t, a[1], a[2])>>, <<>>)

(* --- family S: structure — processors x entities (ids, component lists) -------------------- *)
SH0 == <<>>
SH1 == <<Comp("CPlain", <<"N1">>, <<>>)>>
SH2 == <<Comp("CHandler", <<>>, Kw1("R2"))>>
SH3 == <<Comp("CPlain", <<"O1">>, <<>>), Comp("CHandler", <<"H2">>, <<>>)>>
SH4 == <<Comp("CAddOnly", <<>>, <<>>), Comp("CLoadOnly", <<"M1">>, <<>>)>>
SH5 == <<Comp("CHandler", <<"M7">>, Kw1("R1")), Comp("CPlain", <<>>, <<>>)>>

PS0 == <<>>
PS1 == <<Comp("PA", <<>>, <<>>)>>
PS2 == <<Comp("PA", <<"O1">>, <<>>), Comp("PB", <<>>, Kw1("R2"))>>
PS3 == <<Comp("PB", <<>>, <<>>), Comp("PA", <<"M4">>, <<>>)>>
PS4 == <<Comp("PHandler", <<"H2">>, <<>>)>>
PS5 == <<Comp("PLate", <<>>, <<>>), Comp("PA", <<>>, <<>>)>>          \* priority 5 listed first
PS6 == <<Comp("PA", <<>>, <<>>), Comp("PHandler", <<>>, Kw1("M2"))>>
PS7 == <<Comp("PHandler", <<>>, Kw1("O2")), Comp("PLate", <<"R1">>, <<>>)>>
PS8 == <<Comp("PB", <<"L1", "D1">>, Kw2("H1", "M8"))>>
\* processor types related by inheritance, in both orders and around an unrelated one; a subclass of a default
PS9  == <<Comp("PADerived", <<"O1">>, <<>>), Comp("PA", <<>>, Kw1("R2"))>>
PS10 == <<Comp("PA", <<"N1">>, <<>>), Comp("PADerived", <<>>, <<>>)>>
PS11 == <<Comp("PADerived", <<>>, <<>>), Comp("PB", <<>>, <<>>), Comp("PA", <<"H1">>, <<>>)>>
PS12 == <<Comp("PUpdSub", <<"N1">>, <<>>), Comp("PADerived", <<>>, <<>>)>>

\* entity lists of length n: explicit ids pairwise distinct and before the automatic ones
IdSeqs(n, IDs) == {g \in [1 .. n -> IDs \cup {AutoMark}] :
                      /\ \A i, j \in 1 .. n : (i < j /\ g[i] # AutoMark) => g[i] # g[j]
                      /\ \A i, j \in 1 .. n : (i < j /\ g[i] = AutoMark) => g[j] = AutoMark}
InS(d, PSs, N, IDs, SHs) == \E ps \in PSs, n \in 0 .. N : \E g \in IdSeqs(n, IDs), h \in [1 .. n -> SHs] :
                                d = Desc(ps, [i \in 1 .. n |-> Ent(g[i], h[i])])

\* falsy identifiers are identifiers: 0, "" (<<"s", 0>>), false (<<"b", 0>>; never together with 0: False == 0 in Python)
IdsQ == {<<"s", 1>>, <<"i", 1>>, <<"i", 0>>, <<"s", 0>>}
IdsT == {<<"s", 1>>, <<"s", 0>>, <<"i", 1>>, <<"i", 2>>, <<"i", 0>>}
IdsB == {<<"b", 0>>, <<"s", 2>>, <<"i", 1>>}      \* <<"s", 2>> is the string "1": not the integer 1

\* second round (clear the handle, load again) for descriptions with one processor or one entity: what a reload
\* can get wrong sits in the arguments, not in the number of entities
AgainSmall(d) == Len(d.procs) + Len(d.ents) <= 1
AgainNever(d) == FALSE

CONSTANT Fam       \* which family (cfg:  PickDesc <- InFam)
SHsT == {SH0, SH1, SH3, SH4, SH5}
PSOf(k) == CASE k = "TS0" -> PS0 [] k = "TS1" -> PS1 [] k = "TS2" -> PS2 [] k = "TS3" -> PS3
             [] k = "TS4" -> PS4 [] k = "TS5" -> PS5 [] k = "TS6" -> PS6 [] k = "TS7" -> PS7 [] k = "TS8" -> PS8 [] k = "TS9" -> PS9 [] k = "TS10" -> PS11
QuickV(d) == InV(d, ArgsOne \cup ArgsTwo(Core), {"CPlain", "CHandler"}, {"PA"})
QuickS(d) == \/ InS(d, {PS0}, 3, IdsQ, {SH0, SH1, SH3})
             \/ InS(d, {PS0, PS2, PS5, PS6, PS9, PS10, PS11, PS12}, 2, {<<"s", 1>>, <<"i", 1>>, <<"i", 0>>}, {SH0, SH1, SH3, SH4})
InFam(d) ==
    \/ Fam = "tiny"   /\ (InS(d, {PS0, PS2}, 2, {<<"i", 1>>}, {SH1, SH3}) \/ InV(d, {<< <<"R2">>, Kw1("H2") >>}, {"CHandler"}, {}))
    \/ Fam = "quickV" /\ QuickV(d)
    \/ Fam = "quickS" /\ QuickS(d)
    \/ Fam = "quick"  /\ (QuickV(d) \/ QuickS(d))
    \* thorough: shards (one TLC run + dump each)
    \/ Fam = "TV1"    /\ InV(d, ArgsOne \cup ArgsTwo(Toks), {"CPlain"}, {})
    \/ Fam = "TV2"    /\ InV(d, ArgsOne \cup ArgsTwo(Toks), {"CHandler"}, {})
    \/ Fam = "TV3"    /\ InV(d, ArgsOne \cup ArgsTwo(Toks), {}, {"PA", "PHandler"})
    \/ Fam = "TB"     /\ InS(d, {PS0, PS6}, 3, IdsB, {SH0, SH1, SH2, SH3})
    \/ Fam \in {"TS0", "TS1", "TS2", "TS3", "TS4", "TS5", "TS6", "TS7", "TS8", "TS9", "TS10"} /\ InS(d, {PSOf(Fam)}, 3, IdsT, SHsT)
=============================================================================

----------------------------- MODULE Shorthands -----------------------------
(***************************************************************************)
(* C19, pure-function part: desper.Prototype.__iter__ and                  *)
(* OnUpdateProcessor.process.                                              *)
(*                                                                         *)
(* Prototype: for every listed component type there are three possible     *)
(* construction sources - an entry in init_methods, a method named         *)
(* init_prefix + type name (possibly defined only in a base prototype, or  *)
(* overridden in the subclass), the type's default constructor.  Init      *)
(* chooses which of them exist for each listed type, whether a custom      *)
(* prefix is used (a method under the DEFAULT prefix then does not count), *)
(* and whether the prototype class is a subclass overriding the method.    *)
(* `Iterate` computes the component list the way __iter__ does.            *)
(***************************************************************************)
EXTENDS Naturals, Sequences, FiniteSets, TLC

CONSTANTS NTypes     \* number of listed component types (1..NTypes, in order)

VARIABLES inMethods,    \* set of listed types with an entry in init_methods
          hasPrefixed,  \* set of listed types with a method <prefix><TypeName> under the prefix in use
          hasDefaultPrefixed, \* set of listed types with a method init_<TypeName> (matters only if prefix is custom)
          customPrefix, \* BOOLEAN
          overridden,   \* set of listed types whose prefixed method is overridden in a subclass
          failing,      \* set of listed types whose prefixed method itself raises AttributeError (a bug in user code:
                        \* it is defined, so it is the source; its exception reaches the caller, nothing falls back)
          listed,       \* the component_types tuple (a sequence of type ids, possibly with repeats)
          produced      \* result of the last iteration: sequence of <<type, source>>

vars == <<inMethods, hasPrefixed, hasDefaultPrefixed, customPrefix, overridden, failing, listed, produced>>
T == 1..NTypes

Init == /\ inMethods \in SUBSET T /\ hasPrefixed \in SUBSET T
        /\ customPrefix \in BOOLEAN
        /\ hasDefaultPrefixed \in (IF customPrefix THEN SUBSET T ELSE {{}})
        /\ overridden \in SUBSET hasPrefixed
        /\ failing \in {{}} \cup {{t} : t \in hasPrefixed}
        /\ listed \in {[i \in 1..NTypes |-> i]} \cup {<<1, 1>>} \cup {<<>>}
        /\ produced = <<>>

\* what __iter__ does for one type: init_methods.get(t, getattr(self, prefix + name, default))(t)
Source(t) == IF t \in inMethods THEN "methods"
             ELSE IF t \in hasPrefixed THEN (IF t \in overridden THEN "override" ELSE "prefix")
             ELSE "default"

Raises == \E i \in 1..Len(listed) : listed[i] \in failing /\ listed[i] \notin inMethods
Iterate == /\ produced' = IF Raises THEN <<<<0, "AttributeError">>>>
                          ELSE [i \in 1..Len(listed) |-> <<listed[i], Source(listed[i])>>]
           /\ UNCHANGED <<inMethods, hasPrefixed, hasDefaultPrefixed, customPrefix, overridden, failing, listed>>
Next == Iterate
Spec == Init /\ [][Next]_vars

\* declarative: one component per listed type, in order, built by the highest-priority source that exists
Failed == produced # <<>> /\ produced[1][2] = "AttributeError"
OnePerListedInOrder == (produced # <<>> /\ ~Failed) => (Len(produced) = Len(listed) /\ \A i \in 1..Len(listed) : produced[i][1] = listed[i])
PrototypePriority == Failed \/ \A i \in 1..Len(produced) :
    LET t == produced[i][1] s == produced[i][2] IN
    /\ (t \in inMethods <=> s = "methods")
    /\ (t \notin inMethods /\ t \in hasPrefixed) <=> s \in {"prefix", "override"}
    /\ (t \notin inMethods /\ t \notin hasPrefixed) <=> s = "default"
=============================================================================

------------------------------ MODULE WorldLoad ------------------------------
(***************************************************************************)
(* desper.model.world — WorldHandle / WorldFromFileHandle / populate.      *)
(* Property C15: a loaded world contains exactly what its description says.*)
(*                                                                         *)
(* `Init` chooses a world description from the family `PickDesc` admits.    *)
(* Operational layer (shaped like desper/model/world.py): the pipeline of  *)
(* WorldHandle.load as stages                                              *)
(*   new (disabled world) -> defaults (file handles only) -> transformed   *)
(*   (per processor/component dict: type -> object -> resource) ->         *)
(*   populated (processors, then entities; on_add relays are queued since  *)
(*   the world is disabled) -> loaded (on_world_load queued last)          *)
(* then `Enable` (dispatch_enabled = True) releases the queue in order.    *)
(* `Access` reaches the cached world through its handle again (handle(),   *)
(* resource_map[...]): nothing happens.  For the descriptions `Again`      *)
(* admits, a second round on the same handle object follows: `ClearHandle`,*)
(* optionally `Disturb` (the first world's components mutate their         *)
(* list/dict arguments in place, the referenced resource handles are       *)
(* cleared: generation `gen` of the resources) and/or `Rewrite` (the file  *)
(* now holds AltDesc), then `Reload`, `Enable`.                            *)
(* With SmallStep the stages are separate steps (stage invariants); without*)
(* it `Load(md, b)` is the composition — one action per public call — and  *)
(* the dumped graph is the test table replayed on the real classes.        *)
(* Bystander.  `Load(md, TRUE)` (file modes) first loads a small fixed     *)
(* world ByDesc from a SECOND handle of the same resource map and leaves   *)
(* it disabled ("preloading"): `bw` is that world, with its own queue of   *)
(* postponed events.  `EnableBy` enables it, before or after the world     *)
(* under test.  Nothing that happens to one world may show in the other:   *)
(* BystanderUndisturbed below, and OnEnable for the world under test.      *)
(* Modes: file1 / file2 = WorldFromFileHandle stored at depth 1 / depth 2  *)
(* (below an implicitly created map) of a ResourceMap; dict = WorldHandle  *)
(* whose only transformer is populate_world_from_dict on a dict with types *)
(* and references already resolved; bare = populate_world_from_dict on a   *)
(* fresh (enabled) World.                                                  *)
(* Declarative layer: Exp* operators computed from the description the way *)
(* the property statement reads, and the invariants at the end.            *)
(*                                                                         *)
(* Deviation switches (TRUE = intended, FALSE = as implemented at 05622c8):*)
(*   AutoIdSkipsUsed     D2 : automatic ids skip ids that own components   *)
(*   ImplicitMapsLinked  D14: maps created by a composite key know their   *)
(*                            parent, so $res{}/$handle{} find the root    *)
(***************************************************************************)
EXTENDS Naturals, Sequences, FiniteSets, TLC

CONSTANTS PickDesc(_),        \* PickDesc(d): d is a description of the enumerated family (a predicate, so that
                              \* TLC enumerates the family by nested quantifiers instead of sorting one huge set)
          SmallStep,          \* BOOLEAN, see above
          Lean,               \* BOOLEAN: forget the description once loaded (the instance dumped for replay:
                              \* states stay small; the declarative properties are checked in the other instances,
                              \* BigStepAgrees ties the two together)
          Again(_),           \* Again(d): the second round is explored for description d
          AutoIdSkipsUsed, ImplicitMapsLinked

VARIABLES desc,   \* the description (changes only by Rewrite)
          pc,     \* "desc" | "new" | "defaults" | "transformed" | "populated" | "loaded" | "enabled" | "failed"
                  \* | "cleared" | "rewritten" (second round, before the reload)
          round,  \* 1 | 2
          gen,    \* generation of the resource objects: cleared resource handles load a fresh object
          mode,   \* "-" until a load starts; file1/file2 collapse to "file" once loaded
          dicts,  \* working copies of the processor/component dicts (local to the load)
          w,      \* the world: procs, rows, next, enabled, queue, reg, log
          err,    \* "none" or the exception class that left load()
          bw      \* the bystander world (same shape as w; Lean: enabled and log only), NoBy when there is none
vars == <<desc, pc, round, gen, mode, dicts, w, err, bw>>

-----------------------------------------------------------------------------
(* Argument alphabet.  A description names its argument values by token;   *)
(* Shape gives the JSON value behind each token.  A string is              *)
(* pre \o "$" \o tag \o "{" \o name \o "}"  (just `pre` when mk = "none"); *)
(* the harness prints this table (ASSUME below) and builds the JSON from   *)
(* it, so the table exists once.                                           *)
S(pre, mk, name) == [k |-> "str", pre |-> pre, mk |-> mk, name |-> name, items |-> <<>>]
J(text)          == [k |-> "json", pre |-> "", mk |-> "none", name |-> text, items |-> <<>>]
K(kind, items)   == [k |-> kind, pre |-> "", mk |-> "none", name |-> "", items |-> items]

Shape == [
  O1 |-> S("", "obj", "harness.adapters.wl_types.OBJ"),            \* "${dotted.name}"
  O2 |-> S("", "obj", "harness.adapters.wl_types.Holder.inner"),   \* attribute of an attribute
  O3 |-> S("", "obj", "collections.OrderedDict"),
  R1 |-> S("", "res", "r0"),                                       \* "$res{r0}"
  R2 |-> S("", "res", "a.b"),
  H1 |-> S("", "handle", "r0"),                                    \* "$handle{r0}"
  H2 |-> S("", "handle", "a.b"),
  \* near-misses: do not BEGIN with a marker, must pass through unchanged
  M1 |-> S(" ", "obj", "harness.adapters.wl_types.OBJ"),           \* " ${...}"
  M2 |-> S("x", "res", "a.b"),                                     \* "x$res{a.b}"
  M3 |-> S("$ {x}", "none", ""),
  M4 |-> S("", "RES", "a.b"),                                      \* "$RES{a.b}" (markers are case-sensitive)
  M5 |-> S("$", "none", ""),
  M6 |-> S("", "none", ""),
  M7 |-> S("plain", "none", ""),
  M8 |-> S("$", "handle", "r0"),                                   \* "$$handle{r0}"
  N1 |-> J("42"), N2 |-> J("0"), N3 |-> J("-1.5"), B1 |-> J("true"), NL |-> J("null"),
  \* containers: references nested inside pass through unchanged (as coded; the statement
  \* speaks of string *arguments*)
  L0 |-> K("list", <<>>),
  L1 |-> K("list", <<"N1", "O1", "R2">>),
  L2 |-> K("list", <<"L1", "H1">>),
  D1 |-> K("dict", <<"H2">>),                                      \* {"k1": "$handle{a.b}"}
  D2 |-> K("dict", <<"O1", "M7", "L0">>) ]

Toks == DOMAIN Shape
ASSUME PrintT(<<"WORLDLOAD-SHAPES", Shape>>)

\* Values inside dicts / instances: <<"raw", token>> (a JSON value as written), <<"obj", dotted name>>,
\* <<"res", path#generation>> (the loaded resource object), <<"hdl", path>> (its handle), <<"none", "">> (Python None
\* produced by a lookup that found nothing), <<"err", class>>.
Raw(t) == <<"raw", t>>

\* component / processor classes of the harness (harness/adapters/wl_types.py)
Decl(t) == CASE t \in {"CHandler", "PHandler"} -> {"on_add", "on_world_load"}
             [] t = "CAddOnly"  -> {"on_add"}
             [] t = "CLoadOnly" -> {"on_world_load"}
             [] OTHER           -> {}
Prio(t) == IF t = "PLate" THEN 5 ELSE 0
\* Inheritance among the processor classes: PADerived is a subclass of PA, PUpdSub of the default
\* OnUpdateProcessor.  It has no operational role: a world keeps one processor per EXACT type (AddProcessor below
\* compares type names), so a base and a derived processor coexist, whichever is listed first.
DefaultTypes == <<"OnUpdateProcessor", "CoroutineProcessor">>

AutoMark == <<"auto", 0>>       \* entity without "id"; explicit ids are <<"s", k>> (a string: 0 is "", 1 "hero", 2 "1"),
                                \* <<"i", n>> (integer n; 0 is a legitimate id) or <<"b", 0>> (false)
ResObj(path) == path \o "#" \o ToString(gen)      \* the object the resource's handle holds now
NoEnt    == <<"-", 0>>
NoWho    == <<"-", 0, 0>>
NoDicts  == [procs |-> <<>>, ents |-> <<>>]
NoBy     == [absent |-> TRUE]
NoDesc   == [procs |-> <<>>, ents |-> <<>>, forgotten |-> TRUE]     \* Lean: not a description (the empty one has no third field)
IsFile(md) == md \in {"file1", "file2", "file"}

-----------------------------------------------------------------------------
(* Operational layer 1: the three dict transformers                        *)

\* regex.match anchors at the start of the string and the marker is literal
Matches(t, m) == Shape[t].k = "str" /\ Shape[t].pre = "" /\ Shape[t].mk = m

MapDict(F(_), d) == [d EXCEPT !.args   = [i \in DOMAIN d.args |-> F(d.args[i])],
                              !.kwargs = [i \in DOMAIN d.kwargs |-> <<d.kwargs[i][1], F(d.kwargs[i][2])>>]]

TypeT(d) == [d EXCEPT !.type = <<"class", @[2]>>]                     \* dotted name -> the callable

ObjMap(v) == IF v[1] = "raw" /\ Matches(v[2], "obj") THEN <<"obj", Shape[v[2]].name>> ELSE v
ObjectT(d) == MapDict(ObjMap, d)

\* `sees`: the walk up the parent links from the world handle ends at the real root.  If it stops at
\* an unlinked intermediate map (D14), root_map[path] raises KeyError and root_map.get(path) is None.
ResMap(v, sees) ==
    IF v[1] = "raw" /\ Matches(v[2], "res")
    THEN IF sees THEN <<"res", ResObj(Shape[v[2]].name)>> ELSE <<"err", "KeyError">>
    ELSE IF v[1] = "raw" /\ Matches(v[2], "handle")
    THEN IF sees THEN <<"hdl", Shape[v[2]].name>> ELSE <<"none", "">>
    ELSE v
ResourceT(d, sees) == LET F(v) == ResMap(v, sees) IN MapDict(F, d)

TransformDict(d, sees) == ResourceT(ObjectT(TypeT(d)), sees)          \* type -> object -> resource

RawDict(c) == [type |-> <<"name", c.type>>,
               args |-> [i \in DOMAIN c.args |-> Raw(c.args[i])],
               kwargs |-> [i \in DOMAIN c.kwargs |-> <<c.kwargs[i][1], Raw(c.kwargs[i][2])>>]]
RawDicts(d) == [procs |-> [i \in DOMAIN d.procs |-> RawDict(d.procs[i])],
                ents  |-> [e \in DOMAIN d.ents |-> [id |-> d.ents[e].id,
                              comps |-> [j \in DOMAIN d.ents[e].comps |-> RawDict(d.ents[e].comps[j])]]]]
TransformAll(dd, sees) ==      \* processor dicts first, then the component dicts, each through all transformers
    [procs |-> [i \in DOMAIN dd.procs |-> TransformDict(dd.procs[i], sees)],
     ents  |-> [e \in DOMAIN dd.ents |-> [dd.ents[e] EXCEPT !.comps = [j \in DOMAIN @ |-> TransformDict(@[j], sees)]]]]

DictVals(d) == {d.args[i] : i \in DOMAIN d.args} \cup {d.kwargs[i][2] : i \in DOMAIN d.kwargs}
AllVals(dd) == UNION ({DictVals(dd.procs[i]) : i \in DOMAIN dd.procs}
                      \cup UNION {{DictVals(dd.ents[e].comps[j]) : j \in DOMAIN dd.ents[e].comps} : e \in DOMAIN dd.ents})
ErrOf(dd) == IF \E v \in AllVals(dd) : v[1] = "err" THEN "KeyError" ELSE "none"

-----------------------------------------------------------------------------
(* Operational layer 2: the World as far as loading touches it             *)
(* (desper/logic/world.py add_processor, create_entity; desper/events.py)  *)

NewWorld(isEnabled) == [procs |-> <<>>, rows |-> <<>>, next |-> 1, enabled |-> isEnabled,
                        queue |-> <<>>, reg |-> <<>>, log |-> <<>>]

Inst(who, d) == [who |-> who, type |-> d.type[2], args |-> d.args, kwargs |-> d.kwargs]
Call(who, cb, ent) == [who |-> who, cb |-> cb, ent |-> ent]
Relay(cb, who, ent) == [ev |-> "on_single_dispatch", cb |-> cb, who |-> who, ent |-> ent]
WorldLoadEv == [ev |-> "on_world_load", cb |-> "-", who |-> NoWho, ent |-> NoEnt]

\* event names with an entry in _events: the world listens to itself for the relay event
Known(x) == {"on_single_dispatch"} \cup UNION {Decl(x.reg[i].type) : i \in DOMAIN x.reg}

RECURSIVE CallAll(_, _, _)
CallAll(lg, rs, ev) == IF rs = <<>> THEN lg ELSE CallAll(Append(lg, Call(Head(rs).who, ev, NoEnt)), Tail(rs), ev)

\* the relay is received by the world, which calls the one handler; any other event goes to every
\* registered handler that maps it (listener order within one dispatch is unspecified: the model
\* uses registration order, the harness compares per handler)
Deliver(x, e) ==
    IF e.ev = "on_single_dispatch" THEN [x EXCEPT !.log = Append(@, Call(e.who, e.cb, e.ent))]
    ELSE LET E(r) == e.ev \in Decl(r.type) IN [x EXCEPT !.log = CallAll(@, SelectSeq(x.reg, E), e.ev)]

Dispatch(x, e) == IF e.ev \notin Known(x) THEN x                        \* unknown events are dropped
                  ELSE IF ~x.enabled THEN [x EXCEPT !.queue = Append(@, e)]
                  ELSE Deliver(x, e)

\* event-handling tail shared by add_processor / create_entity
Attach(x, inst, ent) ==
    IF Decl(inst.type) = {} THEN x
    ELSE LET x1 == [x EXCEPT !.reg = Append(@, [who |-> inst.who, type |-> inst.type])]
         IN IF "on_add" \notin Decl(inst.type) THEN x1
            ELSE IF x1.enabled THEN [x1 EXCEPT !.log = Append(@, Call(inst.who, "on_add", ent))]
            ELSE Dispatch(x1, Relay("on_add", inst.who, ent))

RECURSIVE AttachAll(_, _, _)
AttachAll(x, insts, ent) == IF insts = <<>> THEN x ELSE AttachAll(Attach(x, Head(insts), ent), Tail(insts), ent)

\* one processor per exact type; insort (right) on priority.  Replacing a same-type processor also
\* notifies the old one — not needed here, generated descriptions list distinct types.
AddProcessor(x, inst) ==
    LET Other(p) == p.type # inst.type
        kept == SelectSeq(x.procs, Other)
        k == Cardinality({i \in DOMAIN kept : Prio(kept[i].type) <= Prio(inst.type)})
    IN Attach([x EXCEPT !.procs = SubSeq(kept, 1, k) \o <<inst>> \o SubSeq(kept, k + 1, Len(kept))], inst, NoEnt)

Used(x, n) == \E i \in DOMAIN x.rows : x.rows[i].id = <<"i", n>>
AutoId(x) == IF AutoIdSkipsUsed
             THEN CHOOSE n \in x.next .. (x.next + Len(x.rows)) :
                      ~Used(x, n) /\ \A m \in x.next .. (n - 1) : Used(x, m)
             ELSE x.next

PutComp(rows, id, inst) ==     \* _entities[id][type(component)] = component
    IF \E i \in DOMAIN rows : rows[i].id = id
    THEN LET i == CHOOSE i \in DOMAIN rows : rows[i].id = id
             cs == rows[i].comps
         IN [rows EXCEPT ![i].comps = IF \E j \in DOMAIN cs : cs[j].type = inst.type
                                       THEN [j \in DOMAIN cs |-> IF cs[j].type = inst.type THEN inst ELSE cs[j]]
                                       ELSE Append(cs, inst)]
    ELSE Append(rows, [id |-> id, comps |-> <<inst>>])

RECURSIVE PutAll(_, _, _)
PutAll(rows, id, insts) == IF insts = <<>> THEN rows ELSE PutAll(PutComp(rows, id, Head(insts)), id, Tail(insts))

\* an entity without components consumes an automatic id but leaves no row
CreateEntity(x, id, insts) ==
    LET auto == id = AutoMark
        n == AutoId(x)
        eid == IF auto THEN <<"i", n>> ELSE id
        x1 == [x EXCEPT !.next = IF auto THEN n + 1 ELSE @, !.rows = PutAll(@, eid, insts)]
    IN AttachAll(x1, insts, eid)        \* handlers are registered after all components are in

RECURSIVE AddProcs(_, _, _)
AddProcs(x, ds, i) == IF i > Len(ds) THEN x ELSE AddProcs(AddProcessor(x, Inst(<<"p", i, 0>>, ds[i])), ds, i + 1)
RECURSIVE AddEnts(_, _, _)
AddEnts(x, es, e) ==
    IF e > Len(es) THEN x
    ELSE AddEnts(CreateEntity(x, es[e].id, [j \in 1 .. Len(es[e].comps) |-> Inst(<<"c", e, j>>, es[e].comps[j])]), es, e + 1)

Populate(x, dd) == AddEnts(AddProcs(x, dd.procs, 1), dd.ents, 1)        \* processors, then entities

AddDefaults(x) == AddProcessor(AddProcessor(x, [who |-> <<"d", 1, 0>>, type |-> DefaultTypes[1], args |-> <<>>, kwargs |-> <<>>]),
                               [who |-> <<"d", 2, 0>>, type |-> DefaultTypes[2], args |-> <<>>, kwargs |-> <<>>])

RECURSIVE Release(_)
Release(x) == IF x.queue = <<>> \/ ~x.enabled THEN x
              ELSE Release(Dispatch([x EXCEPT !.queue = Tail(@)], Head(x.queue)))     \* pop, then deliver
SetEnabled(x) == Release([x EXCEPT !.enabled = TRUE])

-----------------------------------------------------------------------------
(* Declarative layer, part 1: what the statement says about one argument   *)
(* and one listed class (also used to build the already-resolved dict of   *)
(* the dict / bare modes, where the caller passes types and objects)       *)

Form(t) == IF Shape[t].k = "str" /\ Shape[t].pre = "" /\ Shape[t].mk \in {"obj", "res", "handle"}
           THEN Shape[t].mk ELSE "none"              \* "none": does not begin with a marker
ExpArg(t) == CASE Form(t) = "obj"    -> <<"obj", Shape[t].name>>
               [] Form(t) = "res"    -> <<"res", ResObj(Shape[t].name)>>
               [] Form(t) = "handle" -> <<"hdl", Shape[t].name>>
               [] OTHER              -> Raw(t)
ExpInst(who, c) == [who |-> who, type |-> c.type,
                    args |-> [i \in DOMAIN c.args |-> ExpArg(c.args[i])],
                    kwargs |-> [i \in DOMAIN c.kwargs |-> <<c.kwargs[i][1], ExpArg(c.kwargs[i][2])>>]]
ResolvedDict(c) == LET x == ExpInst(NoWho, c) IN [type |-> <<"class", c.type>>, args |-> x.args, kwargs |-> x.kwargs]
ResolvedDicts(d) == [procs |-> [i \in DOMAIN d.procs |-> ResolvedDict(d.procs[i])],
                     ents  |-> [e \in DOMAIN d.ents |-> [id |-> d.ents[e].id,
                                   comps |-> [j \in DOMAIN d.ents[e].comps |-> ResolvedDict(d.ents[e].comps[j])]]]]

-----------------------------------------------------------------------------
(* The pipeline                                                            *)

\* what Rewrite puts into the file: one entity "hero" whose handler component takes a resource, a list and a handle
AltDesc == [procs |-> << [type |-> "PB", args |-> <<"M7">>, kwargs |-> <<>>] >>,
            ents  |-> << [id |-> <<"s", 1>>,
                          comps |-> << [type |-> "CHandler", args |-> <<"R1", "L1">>, kwargs |-> << <<"val", "H2">> >>] >>] >>]
ASSUME PrintT(<<"WORLDLOAD-ALTDESC", AltDesc>>)

Stages == <<"new", "defaults", "transformed", "populated", "loaded">>
StageNo(p) == CHOOSE i \in DOMAIN Stages : Stages[i] = p
Sees(md) == ImplicitMapsLinked \/ md # "file2"

Apply(stage, st, d, md) ==
    IF st.err # "none" THEN st                        \* the exception already left load()
    ELSE CASE stage = "new"         -> [st EXCEPT !.w = NewWorld(md = "bare")]
           [] stage = "defaults"    -> IF IsFile(md) THEN [st EXCEPT !.w = AddDefaults(@)] ELSE st
           [] stage = "transformed" -> IF IsFile(md)
                                       THEN LET dd == TransformAll(RawDicts(d), Sees(md))
                                            IN [st EXCEPT !.dicts = dd, !.err = ErrOf(dd)]
                                       ELSE [st EXCEPT !.dicts = ResolvedDicts(d)]
           [] stage = "populated"   -> [st EXCEPT !.w = Populate(@, st.dicts)]
           [] stage = "loaded"      -> [st EXCEPT !.w = IF md = "bare" THEN @ ELSE Dispatch(@, WorldLoadEv),
                                                  !.dicts = NoDicts]

RECURSIVE Run(_, _, _, _)
Run(st, k, d, md) == IF k > Len(Stages) THEN st ELSE Run(Apply(Stages[k], st, d, md), k + 1, d, md)

St0 == [dicts |-> NoDicts, w |-> NewWorld(TRUE), err |-> "none"]
Collapse(md) == IF IsFile(md) THEN "file" ELSE md
Modes == {"file1", "file2", "dict", "bare"}

\* the bystander: a handler processor, an entity "hero" (the same identifier may be in use in the world under test:
\* identifiers are per world) with two handler components, an anonymous entity that listens to on_world_load only
ByDesc == [procs |-> << [type |-> "PHandler", args |-> <<>>, kwargs |-> << <<"val", "M7">> >>] >>,
           ents  |-> << [id |-> <<"s", 1>>,
                         comps |-> << [type |-> "CHandler", args |-> <<"H2">>, kwargs |-> <<>>],
                                      [type |-> "CAddOnly", args |-> <<>>, kwargs |-> <<>>] >>],
                        [id |-> AutoMark,
                         comps |-> << [type |-> "CLoadOnly", args |-> <<"N1">>, kwargs |-> <<>>] >>] >>]
ASSUME PrintT(<<"WORLDLOAD-BYDESC", ByDesc>>)
ByLoaded == Run(St0, 1, ByDesc, "file1").w        \* loaded through its own file handle at depth 1, still disabled
\* Lean (the dumped instance) keeps of the bystander what the replay compares; a disabled bystander is ByLoaded
\* (BystanderUndisturbed, checked in the other instances), so nothing is lost
Slim(x) == IF Lean THEN [enabled |-> x.enabled, log |-> x.log] ELSE x
Preload(b) == IF b THEN Slim(ByLoaded) ELSE NoBy

Init == /\ PickDesc(desc)
        /\ pc = "desc" /\ round = 1 /\ gen = 1 /\ mode = "-" /\ dicts = NoDicts /\ w = NewWorld(TRUE) /\ err = "none"
        /\ bw = NoBy

Land(st, p, md) ==   \* common tail: publish a stage result
    /\ dicts' = st.dicts /\ w' = st.w /\ err' = st.err
    /\ pc' = IF st.err # "none" THEN "failed" ELSE p
    /\ mode' = IF p = "loaded" \/ st.err # "none" THEN Collapse(md) ELSE md
    /\ desc' = IF Lean /\ ~Again(desc) /\ (p = "loaded" \/ st.err # "none") THEN NoDesc ELSE desc
    /\ UNCHANGED <<round, gen>>

\* b: the bystander is loaded first (explored next to file handles)
Load(md, b) == /\ ~SmallStep /\ pc = "desc" /\ (b => IsFile(md))
               /\ bw' = Preload(b)
               /\ Land(Run(St0, 1, desc, md), "loaded", md)

\* second access of a cleared handle: the same handle object (hence the same mode) loads again
Reload == /\ ~SmallStep /\ pc \in {"cleared", "rewritten"}
          /\ Land(Run(St0, 1, desc, mode), "loaded", mode)
          /\ UNCHANGED bw

Begin(md, b) == /\ SmallStep
                /\ \/ pc = "desc" /\ md \in Modes /\ (b => IsFile(md)) /\ bw' = Preload(b)
                   \/ pc \in {"cleared", "rewritten"} /\ md = mode /\ b = (bw # NoBy) /\ bw' = bw
                /\ Land(Apply("new", St0, desc, md), "new", md)

Step == /\ SmallStep /\ pc \in {"new", "defaults", "transformed", "populated"}
        /\ LET nxt == Stages[StageNo(pc) + 1]
           IN Land(Apply(nxt, [dicts |-> dicts, w |-> w, err |-> err], desc, mode), nxt, mode)
        /\ UNCHANGED bw

Enable == /\ pc = "loaded"
          /\ w' = SetEnabled(w) /\ pc' = "enabled"
          /\ UNCHANGED <<desc, round, gen, mode, dicts, err, bw>>

\* the bystander's dispatch_enabled = True: its own queue is released to its own listeners
EnableBy == /\ pc \in {"loaded", "enabled"} /\ bw # NoBy
            /\ ~bw.enabled
            /\ bw' = Slim(SetEnabled(IF Lean THEN ByLoaded ELSE bw))
            /\ UNCHANGED <<desc, pc, round, gen, mode, dicts, w, err>>

\* Handle.__call__ on a cached handle (handle() again, resource_map[key] again): the cached world, nothing else
Access == /\ pc \in {"loaded", "enabled"} /\ mode # "bare"
          /\ UNCHANGED vars

\* (bounding: next to a bystander the second round starts once the bystander is enabled, and is the plain reload)
SecondRound == round = 1 /\ mode = "file" /\ desc # NoDesc /\ Again(desc)
ByQuiet == IF bw = NoBy THEN TRUE ELSE bw.enabled
ClearHandle == /\ pc = "enabled" /\ SecondRound /\ ByQuiet
               /\ pc' = "cleared" /\ round' = 2 /\ w' = NewWorld(TRUE)
               /\ UNCHANGED <<desc, gen, mode, dicts, err, bw>>
\* the components of the first world mutate their list/dict arguments in place (no trace in the model: the next
\* world is built from the file, not from them) and the resource handles are cleared
Disturb == /\ pc = "cleared" /\ gen = 1 /\ bw = NoBy
           /\ gen' = 2
           /\ UNCHANGED <<desc, pc, round, mode, dicts, w, err, bw>>
Rewrite == /\ pc = "cleared" /\ bw = NoBy
           /\ desc' = AltDesc /\ pc' = "rewritten"
           /\ UNCHANGED <<round, gen, mode, dicts, w, err, bw>>

Next == (\E md \in Modes, b \in BOOLEAN : Load(md, b)) \/ (\E md \in Modes \cup {"file"}, b \in BOOLEAN : Begin(md, b))
        \/ Reload \/ Step \/ Enable \/ EnableBy \/ Access \/ ClearHandle \/ Disturb \/ Rewrite
Spec == Init /\ [][Next]_vars

-----------------------------------------------------------------------------
(* Declarative layer, part 2: Expected(desc) and the properties            *)

RECURSIVE ByPrio(_, _)
ByPrio(ps, prios) ==     \* C07: ascending priority, equal priorities in order of addition
    IF prios = {} THEN <<>>
    ELSE LET m == CHOOSE p \in prios : \A q \in prios : p <= q
             Has(x) == Prio(x.type) = m
         IN SelectSeq(ps, Has) \o ByPrio(ps, prios \ {m})

DefaultInsts == [i \in 1 .. 2 |-> [who |-> <<"d", i, 0>>, type |-> DefaultTypes[i], args |-> <<>>, kwargs |-> <<>>]]
ExpProcs(d, md) ==
    LET listed == [i \in 1 .. Len(d.procs) |-> ExpInst(<<"p", i, 0>>, d.procs[i])]
        all == IF md = "file" THEN DefaultInsts \o listed ELSE listed     \* after the default ones, for file handles
    IN ByPrio(all, {Prio(all[i].type) : i \in DOMAIN all})

ExpComps(d, e) == [j \in 1 .. Len(d.ents[e].comps) |-> ExpInst(<<"c", e, j>>, d.ents[e].comps[j])]
NonEmpty(d) == {e \in DOMAIN d.ents : d.ents[e].comps # <<>>}   \* an entity is its components: none listed, no entity
ExplicitIds(d) == {d.ents[e].id : e \in NonEmpty(d)} \ {AutoMark}      \* ids in use: an explicit id without components owns nothing
RowIds(x) == {x.rows[i].id : i \in DOMAIN x.rows}
RowOf(x, id) == x.rows[CHOOSE i \in DOMAIN x.rows : x.rows[i].id = id]

RECURSIVE AutoListed(_, _)
AutoListed(d, e) == IF e > Len(d.ents) THEN <<>>
                    ELSE (IF d.ents[e].id = AutoMark /\ e \in NonEmpty(d) THEN <<ExpComps(d, e)>> ELSE <<>>)
                         \o AutoListed(d, e + 1)
AutoRows(x, d) == LET A(r) == r.id \notin ExplicitIds(d)
                      rs == SelectSeq(x.rows, A)
                  IN [i \in 1 .. Len(rs) |-> rs[i].comps]

Loaded == pc \in {"loaded", "enabled"}

LoadedEqualsDescribed == Loaded =>
    /\ w.procs = ExpProcs(desc, mode)                                        \* exactly the listed processors, after the defaults
    /\ \A e \in NonEmpty(desc) : desc.ents[e].id # AutoMark =>               \* under the given identifier
           /\ desc.ents[e].id \in RowIds(w)
           /\ RowOf(w, desc.ents[e].id).comps = ExpComps(desc, e)            \* exactly the listed components, arguments substituted
    /\ AutoRows(w, desc) = AutoListed(desc, 1)                               \* the others under fresh identifiers
    /\ Len(w.rows) = Cardinality(NonEmpty(desc))                             \* nothing extra
    /\ Cardinality(RowIds(w)) = Len(w.rows)

ReturnedDisabled == (pc = "loaded" /\ mode # "bare") => (~w.enabled /\ w.log = <<>>)

\* stage invariants of the small-step instance: nothing is delivered while loading, on_world_load is queued last
QuietWhileLoading == (pc \in {"new", "defaults", "transformed", "populated"} /\ mode # "bare") =>
                         (~w.enabled /\ w.log = <<>> /\ \A i \in DOMAIN w.queue : w.queue[i].ev # "on_world_load")
WorldLoadQueuedLast == (pc = "loaded" /\ mode # "bare") =>
                         \A i \in DOMAIN w.queue : (w.queue[i].ev = "on_world_load") <=> (i = Len(w.queue) /\ "on_world_load" \in Known(w))

Owner(x, who) == IF \E i \in DOMAIN x.rows : \E j \in DOMAIN x.rows[i].comps : x.rows[i].comps[j].who = who
                 THEN x.rows[CHOOSE i \in DOMAIN x.rows : \E j \in DOMAIN x.rows[i].comps : x.rows[i].comps[j].who = who].id
                 ELSE NoEnt
ExpCalls(x, who, type, md) ==      \* what handler `who` of world x hears once x is enabled
    (IF "on_add" \in Decl(type) THEN <<Call(who, "on_add", Owner(x, who))>> ELSE <<>>)
    \o (IF "on_world_load" \in Decl(type) /\ md # "bare" THEN <<Call(who, "on_world_load", NoEnt)>> ELSE <<>>)
Handlers(d) == {[who |-> <<"p", i, 0>>, type |-> d.procs[i].type] : i \in DOMAIN d.procs}
               \cup UNION {{[who |-> <<"c", e, j>>, type |-> d.ents[e].comps[j].type] : j \in DOMAIN d.ents[e].comps} : e \in DOMAIN d.ents}
CallsOf(lg, who) == LET M(c) == c.who = who IN SelectSeq(lg, M)

\* once enabled: every handler component gets on_add once and then on_world_load(handle, world) once
OnEnable == (pc = "enabled") =>
    /\ w.enabled /\ w.queue = <<>>
    /\ \A h \in Handlers(desc) : CallsOf(w.log, h.who) = ExpCalls(w, h.who, h.type, mode)
    /\ \A i \in DOMAIN w.log : \E h \in Handlers(desc) : h.who = w.log[i].who

\* a second world of the same map: as long as it is disabled it is exactly as its handle returned it (silent, its own
\* postponed events waiting), whatever is done to the world under test; once enabled it has heard its own on_add /
\* on_world_load, once each per handler, and nothing else
BystanderUndisturbed == (bw # NoBy /\ ~Lean) =>
    IF ~bw.enabled THEN bw = ByLoaded
    ELSE /\ bw.queue = <<>> /\ bw.procs = ByLoaded.procs /\ bw.rows = ByLoaded.rows
         /\ \A h \in Handlers(ByDesc) : CallsOf(bw.log, h.who) = ExpCalls(bw, h.who, h.type, "file")
         /\ \A i \in DOMAIN bw.log : \E h \in Handlers(ByDesc) : h.who = bw.log[i].who

\* the one-step Load of the dumped instance is the composition of the stages checked here
BigStepAgrees == (SmallStep /\ pc \in {"loaded", "failed"}) =>
                     \E md \in Modes \cup {"file"} : /\ Collapse(md) = mode
                                       /\ [dicts |-> dicts, w |-> w, err |-> err] = Run(St0, 1, desc, md)

NoFailure == pc # "failed"      \* well-formed descriptions load

TypeOK == /\ pc \in {"desc", "new", "defaults", "transformed", "populated", "loaded", "enabled", "failed", "cleared", "rewritten"}
          /\ round \in {1, 2} /\ gen \in {1, 2} /\ (round = 1 => gen = 1)
          /\ mode \in Modes \cup {"-", "file"}
          /\ err \in {"none", "KeyError"}
          /\ (pc = "failed") <=> (err # "none")
          /\ (IF bw = NoBy THEN TRUE ELSE bw.enabled \in BOOLEAN /\ mode \in {"file", "file1", "file2"})
=============================================================================

---------------------------- MODULE Dispatcher ----------------------------
(***************************************************************************)
(* desper.events.EventDispatcher — registration tables, weakly held        *)
(* handlers, enabled/disabled gate, postponed-event queue and its release. *)
(*                                                                         *)
(* Operational layer (shaped like desper/events.py): a top-level call      *)
(* pushes frames on `stack`; user callbacks run in the middle of a call    *)
(* and may re-enter the dispatcher, so a call is several steps:            *)
(*   Dispatch / SetEnabled / ... (top-level, only when Idle)               *)
(*   Deliver(h)   one callback of the dispatch frame on top                *)
(*   RelStep      one iteration of the release loop                        *)
(*   DispDone     return of dispatch()                                     *)
(* Declarative layer: ghosts `delivered`, `log`, `evOf`, `snapOf`, `bad`   *)
(* and the properties at the end (C03, C04, C10).                          *)
(*                                                                         *)
(* Deviation switches (TRUE = intended, FALSE = as implemented at 05622c8):*)
(*   ReleasePopsBeforeDeliver   D7/D8: release loop pops then delivers     *)
(*   DispatchSkipsDead          D13: dead weak references are skipped      *)
(***************************************************************************)
EXTENDS Naturals, Sequences, FiniteSets, TLC

CONSTANTS H,            \* handler ids (strings)
          Ev,           \* event names (strings); "a" is the trigger event of callback behaviours
          SubsChoices,  \* set of functions [H -> SUBSET Ev] to pick `subs` from
          BehChoices,   \* set of functions [H -> Beh] to pick `beh` from
          MaxQ, MaxEid,
          WithClear,    \* BOOLEAN: include the top-level Clear action
          Ghosts,       \* BOOLEAN: maintain the history ghosts (off in the lean instance dumped for replay)
          ReleasePopsBeforeDeliver, DispatchSkipsDead

VARIABLES subs,      \* handler -> events its class maps (fixed after Init)
          beh,       \* handler -> <<kind, target>> : what its callback for event "a" does
          held,      \* handlers the program still references strongly
          alive,     \* handlers not yet collected
          reg,       \* registered handlers (the two tables _handlers/_events, kept inverse)
          known,     \* event names with an entry in _events (never shrinks except by Clear)
          enabled, queue, stack, eid,
          log,       \* ghost: deliveries <<id, h, e>> made by the current top-level call, in order
          ret,       \* "ok" | "raised" : outcome of the last top-level call
          call,      \* ghost: kind of the current / last top-level call
          delivered, \* ghost: set of <<id, h>> ever delivered
          evOf,      \* ghost: id -> event name
          snapOf,    \* ghost: id -> handlers registered for the event when delivery started
          bad        \* ghost: first protocol violation seen ("none" if none)

vars == <<subs, beh, held, alive, reg, known, enabled, queue, stack, eid, log, ret, call, delivered, evOf, snapOf, bad>>
cfgv == <<subs, beh>>

Kinds == {"nop", "raise", "disable", "enable", "add", "remove", "drop", "disp"}
Trigger == "a"

Idle == stack = <<>>
Top == stack[Len(stack)]
Pop == SubSeq(stack, 1, Len(stack) - 1)
ReplaceTop(f) == [stack EXCEPT ![Len(stack)] = f]
Push(f) == Append(stack, f)
PushOn(st, f) == Append(st, f)

Targets(e) == {h \in reg : e \in subs[h]}
DispFrame(e, id) == [k |-> "disp", e |-> e, id |-> id, todo |-> Targets(e)]
RelFrame == [k |-> "rel", i |-> 1]
Ev2Id(f) == f.id

Init == /\ subs \in SubsChoices
        /\ beh \in BehChoices
        /\ held = H /\ alive = H /\ reg = {} /\ known = {}
        /\ enabled = TRUE /\ queue = <<>> /\ stack = <<>> /\ eid = 0
        /\ log = <<>> /\ ret = "ok" /\ call = "none" /\ delivered = {} /\ bad = "none"
        /\ evOf = <<>> /\ snapOf = <<>>

(***************************************************************************)
(* What dispatch(e) does when called with the stack `st` (top-level: <<>>, *)
(* nested: the current stack).  Returns the new <<queue, stack, snapOf>>.  *)
(***************************************************************************)
DoDispatch(e, id, st, q, sn) ==
    IF e \notin known THEN <<q, st, sn>>
    ELSE IF ~enabled THEN <<Append(q, [e |-> e, id |-> id]), st, sn>>
    ELSE <<q, PushOn(st, DispFrame(e, id)), IF Ghosts THEN sn @@ (id :> Targets(e)) ELSE sn>>

TopCommon(c) == /\ Idle /\ log' = <<>> /\ ret' = "ok" /\ call' = c

AddHandler(h) ==
    /\ TopCommon("add") /\ h \in held
    /\ reg' = reg \cup {h} /\ known' = known \cup subs[h]
    /\ UNCHANGED <<subs, beh, held, alive, enabled, queue, stack, eid, delivered, evOf, snapOf, bad>>

RemoveHandler(h) ==
    /\ TopCommon("remove") /\ h \in held
    /\ reg' = reg \ {h}
    /\ UNCHANGED <<subs, beh, held, alive, known, enabled, queue, stack, eid, delivered, evOf, snapOf, bad>>

\* the program drops its last strong reference: the weak-reference callback unregisters h
DropRef(h) ==
    /\ TopCommon("drop") /\ h \in held
    /\ held' = held \ {h} /\ alive' = alive \ {h} /\ reg' = reg \ {h}
    /\ UNCHANGED <<subs, beh, known, enabled, queue, stack, eid, delivered, evOf, snapOf, bad>>

Dispatch(e) ==
    /\ TopCommon("dispatch") /\ eid < MaxEid
    /\ (~enabled /\ e \in known => Len(queue) < MaxQ)
    /\ eid' = eid + 1 /\ evOf' = (IF Ghosts THEN evOf @@ ((eid + 1) :> e) ELSE evOf)
    /\ LET r == DoDispatch(e, eid + 1, <<>>, queue, snapOf) IN
         queue' = r[1] /\ stack' = r[2] /\ snapOf' = r[3]
    /\ UNCHANGED <<subs, beh, held, alive, reg, known, enabled, delivered, bad>>

SetEnabled(b) ==
    /\ TopCommon(IF b THEN "enable" ELSE "disable")
    /\ enabled' = b
    /\ stack' = IF b THEN <<RelFrame>> ELSE <<>>
    /\ UNCHANGED <<subs, beh, held, alive, reg, known, queue, eid, delivered, evOf, snapOf, bad>>

Clear ==
    /\ WithClear /\ TopCommon("clear")
    /\ reg' = {} /\ known' = {} /\ queue' = <<>> /\ enabled' = TRUE
    /\ UNCHANGED <<subs, beh, held, alive, stack, eid, delivered, evOf, snapOf, bad>>

(***************************************************************************)
(* One iteration of the release loop of the dispatch_enabled setter.       *)
(* Intended:   while queue and enabled: ev = queue.pop(0); dispatch(ev)    *)
(* As coded:   for ev in queue: dispatch(ev)  (re-appends when disabled);  *)
(*             queue.clear() afterwards                                    *)
(***************************************************************************)
RelStep ==
    /\ ~Idle /\ Top.k = "rel"
    /\ IF ReleasePopsBeforeDeliver
       THEN IF queue # <<>> /\ enabled
            THEN LET it == Head(queue) IN
                 /\ queue' = Tail(queue)
                 /\ stack' = Push(DispFrame(it.e, it.id))
                 /\ snapOf' = (IF Ghosts THEN snapOf @@ (it.id :> Targets(it.e)) ELSE snapOf)
            ELSE /\ stack' = Pop /\ UNCHANGED <<queue, snapOf>>
       ELSE IF Top.i <= Len(queue)
            THEN LET it == queue[Top.i]
                     adv == ReplaceTop([Top EXCEPT !.i = @ + 1]) IN
                 IF enabled
                 THEN /\ stack' = PushOn(adv, DispFrame(it.e, it.id))
                      /\ snapOf' = (IF Ghosts THEN snapOf @@ (it.id :> Targets(it.e)) ELSE snapOf)
                      /\ UNCHANGED queue
                 ELSE /\ Len(queue) < MaxQ + 2       \* the real list grows without bound
                      /\ queue' = Append(queue, it) /\ stack' = adv /\ UNCHANGED snapOf
            ELSE /\ queue' = <<>> /\ stack' = Pop /\ UNCHANGED snapOf
    /\ UNCHANGED <<subs, beh, held, alive, reg, known, enabled, eid, log, ret, call, delivered, evOf, bad>>

(***************************************************************************)
(* One callback of the dispatch frame on top.  The iteration order over    *)
(* the snapshot is a choice of the specification (set iteration order).    *)
(***************************************************************************)
Effect(h, f, rest) ==
    \* callback of handler h for frame f; `rest` = stack with h removed from the frame's todo
    LET kind == IF f.e = Trigger THEN beh[h][1] ELSE "nop"
        tgt  == beh[h][2] IN
    CASE kind = "nop" ->
           /\ stack' = rest
           /\ UNCHANGED <<held, alive, reg, known, enabled, queue, eid, ret, evOf, snapOf>>
      [] kind = "raise" ->
           /\ stack' = <<>> /\ ret' = "raised"
           /\ UNCHANGED <<held, alive, reg, known, enabled, queue, eid, evOf, snapOf>>
      [] kind = "disable" ->
           /\ stack' = rest /\ enabled' = FALSE
           /\ UNCHANGED <<held, alive, reg, known, queue, eid, ret, evOf, snapOf>>
      [] kind = "enable" ->
           /\ enabled' = TRUE /\ stack' = PushOn(rest, RelFrame)
           /\ UNCHANGED <<held, alive, reg, known, queue, eid, ret, evOf, snapOf>>
      [] kind = "add" ->
           /\ stack' = rest
           /\ IF tgt \in held THEN reg' = reg \cup {tgt} /\ known' = known \cup subs[tgt]
                              ELSE UNCHANGED <<reg, known>>
           /\ UNCHANGED <<held, alive, enabled, queue, eid, ret, evOf, snapOf>>
      [] kind = "remove" ->
           /\ stack' = rest
           /\ reg' = IF tgt \in held THEN reg \ {tgt} ELSE reg
           /\ UNCHANGED <<held, alive, known, enabled, queue, eid, ret, evOf, snapOf>>
      [] kind = "drop" ->
           /\ stack' = rest
           /\ held' = held \ {tgt} /\ alive' = alive \ {tgt} /\ reg' = reg \ {tgt}
           /\ UNCHANGED <<known, enabled, queue, eid, ret, evOf, snapOf>>
      [] kind = "disp" ->
           /\ eid < MaxEid + 2
           /\ eid' = eid + 1 /\ evOf' = (IF Ghosts THEN evOf @@ ((eid + 1) :> tgt) ELSE evOf)
           /\ LET r == DoDispatch(tgt, eid + 1, rest, queue, snapOf) IN
                queue' = r[1] /\ stack' = r[2] /\ snapOf' = r[3]
           /\ UNCHANGED <<held, alive, reg, known, enabled, ret>>

Deliver(h) ==
    /\ ~Idle /\ Top.k = "disp" /\ h \in Top.todo
    /\ LET f == Top
           rest == ReplaceTop([Top EXCEPT !.todo = @ \ {h}]) IN
       IF h \notin alive
       THEN /\ stack' = rest
            /\ bad' = IF DispatchSkipsDead \/ bad # "none" THEN bad ELSE "dead_receiver"
            /\ log' = IF DispatchSkipsDead THEN log ELSE Append(log, <<f.id, "None", f.e>>)
            /\ UNCHANGED <<held, alive, reg, known, enabled, queue, eid, ret, delivered, evOf, snapOf>>
       ELSE /\ log' = Append(log, <<f.id, h, f.e>>)
            /\ delivered' = (IF Ghosts THEN delivered \cup {<<f.id, h>>} ELSE delivered)
            /\ bad' = IF bad # "none" THEN bad
                      ELSE IF <<f.id, h>> \in delivered THEN "redelivery" ELSE "none"
            /\ Effect(h, f, rest)
    /\ UNCHANGED <<subs, beh, call>>

\* leniency (DESIGN C03): a handler removed but still alive in the middle of a dispatch may be skipped
SkipRemoved(h) ==
    /\ ~Idle /\ Top.k = "disp" /\ h \in Top.todo /\ h \in alive /\ h \notin reg
    /\ stack' = ReplaceTop([Top EXCEPT !.todo = @ \ {h}])
    /\ UNCHANGED <<subs, beh, held, alive, reg, known, enabled, queue, eid, log, ret, call, delivered, evOf, snapOf, bad>>

DispDone ==
    /\ ~Idle /\ Top.k = "disp" /\ Top.todo = {}
    /\ stack' = Pop
    /\ UNCHANGED <<subs, beh, held, alive, reg, known, enabled, queue, eid, log, ret, call, delivered, evOf, snapOf, bad>>

Internal == RelStep \/ DispDone \/ (\E h \in H : Deliver(h) \/ SkipRemoved(h))

Next == \/ (\E h \in H : AddHandler(h) \/ RemoveHandler(h) \/ DropRef(h))
        \/ (\E e \in Ev : Dispatch(e))
        \/ (\E b \in BOOLEAN : SetEnabled(b))
        \/ Clear
        \/ Internal

Spec == Init /\ [][Next]_vars
FairSpec == Spec /\ WF_vars(Internal)

----------------------------------------------------------------------------
(* Declarative layer                                                       *)

TypeOK == /\ reg \subseteq held /\ held \subseteq alive /\ alive \subseteq H
          /\ known \subseteq Ev /\ enabled \in BOOLEAN /\ eid \in Nat

\* C10: the dispatcher never keeps a handler registered after it is gone, never calls a dead receiver
RegisteredAreAlive == reg \subseteq alive
NoDeadReceiver == bad # "dead_receiver"

\* C04 / C03: an event (id) reaches a handler at most once, ever
AtMostOncePerHandler == bad # "redelivery"
NoBad == bad = "none"

\* C03: only handlers whose class maps the event are called, and only handlers registered at delivery start
OnlySubscribersCalled == \A p \in delivered : evOf[p[1]] \in subs[p[2]] /\ p[2] \in snapOf[p[1]]

\* C03: when an (enabled) delivery completes, every listener that stayed registered got it
DeliveredToAllWhoStayed ==
    [][DispDone => \A h \in snapOf[Top.id] : (h \in reg /\ h \in alive) => <<Top.id, h>> \in delivered]_vars

\* C04: no delivery starts while disabled  (a delivery already in progress finishes: same as an
\* ordinary dispatch whose callback disables)
StartsOnlyWhenEnabled ==
    [][\A i \in DOMAIN snapOf' \ DOMAIN snapOf : enabled]_vars

\* C04: what is still queued is in dispatch (id) order, and nothing queued was already delivered
QueueInOrder == \A i, j \in 1..Len(queue) : i < j => queue[i].id < queue[j].id
QueuedNotDelivered == ReleasePopsBeforeDeliver => \A i \in 1..Len(queue) : \A h \in H : <<queue[i].id, h>> \notin delivered

\* C04: released in dispatch order — within one top-level call, ids released from the queue increase per handler
Plain == \A h \in H : beh[h][1] \notin {"disp", "enable"}
ReleaseInOrder ==
    (Plain /\ call = "enable") =>
        \A i, j \in 1..Len(log) : (i < j /\ log[i][2] = log[j][2]) => log[i][1] < log[j][1]

\* C04: when an enabling assignment returns normally and dispatching is still enabled, nothing is pending
DrainedOnReturn == (Idle /\ enabled /\ ret = "ok" /\ call = "enable") => queue = <<>>

\* C04 termination, safety form: every iteration of the release loop consumes a queued event or ends the loop
ReleaseProgress == [][RelStep => (Len(queue') < Len(queue) \/ Len(stack') < Len(stack))]_vars

\* C04 termination, liveness form (FairSpec, no state constraint)
EnableTerminates == [](~Idle => <>Idle)

\* C03: unknown events are ignored: no state change besides the id counter
UnknownEventIgnored ==
    [][\A e \in Ev : (Dispatch(e) /\ e \notin known) => UNCHANGED <<reg, known, enabled, queue, stack, delivered>>]_vars

StateBound == Len(queue) <= MaxQ + 2 /\ eid <= MaxEid + 2
=============================================================================

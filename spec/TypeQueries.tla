---------------------------- MODULE TypeQueries ----------------------------
(***************************************************************************)
(* C06: queries by type over EVERY class hierarchy.  The hierarchy is an   *)
(* input: Init chooses any DAG over the ordered classes T1 < T2 < ... (the *)
(* bases of a class are among the earlier classes, as in Python source),   *)
(* which classes have an instance attached to the entity (components) and  *)
(* which are registered as processors.  The operational layer is the       *)
(* work-list walk over __subclasses__() of desper/logic/world.py (with or  *)
(* without a visited set); the declarative layer is the reflexive          *)
(* transitive subclass relation.                                           *)
(***************************************************************************)
EXTENDS Naturals, Sequences, FiniteSets, TLC

CONSTANTS Deep,            \* BOOLEAN: removal sequences of any length (FALSE: one removal per behaviour; keeps the dumped graph small)
          N,               \* number of classes (names are 1..N; class i may have bases among 1..i-1)
          WalkVisitsOnce   \* TRUE = intended (visited set), FALSE = as implemented at 05622c8 (D11)

VARIABLES bases,      \* [1..N -> SUBSET 1..N]
          comps,      \* set of classes with a component attached to the entity (one instance per exact class)
          procs,      \* set of classes with a processor in the world
          last        \* result of the last removal: <<kind, query type, removed class or 0>>

vars == <<bases, comps, procs, last>>
Cls == 1..N

Init == /\ bases \in {b \in [Cls -> SUBSET Cls] : \A i \in Cls : b[i] \subseteq 1..(i - 1)}
        /\ comps \in SUBSET Cls
        /\ procs = comps         \* same assignment for processors (removals then diverge); keeps Init at 64 x 16 states
        /\ last = <<"init", 0, 0>>

Direct(T) == {S \in Cls : T \in bases[S]}

\* declarative: T and its direct and indirect subclasses (classes are numbered in creation order, so S > T)
RECURSIVE Sub(_)
Sub(T) == {T} \cup UNION {Sub(S) : S \in Direct(T)}

\* operational: the number of times the work-list walk starting at T visits class t when nothing is remembered
RECURSIVE Visits(_, _)
Visits(T, t) == (IF T = t THEN 1 ELSE 0) +
                LET RECURSIVE Sm(_)
                    Sm(R) == IF R = {} THEN 0 ELSE LET x == CHOOSE y \in R : TRUE IN Visits(x, t) + Sm(R \ {x})
                IN Sm(Direct(T))

\* get(T): how many times the component of exact class t is reported
GetCount(T, t) == IF t \notin comps THEN 0
                  ELSE IF WalkVisitsOnce THEN (IF Visits(T, t) > 0 THEN 1 ELSE 0) ELSE Visits(T, t)
\* single-result queries: exact class first, otherwise any attached subclass instance (walk order is a choice)
Cands(S, T) == IF T \in S THEN {T} ELSE {t \in S : Visits(T, t) > 0}
Has(T) == Cands(comps, T) # {}

RemoveComponent(T) ==
    /\ (Deep \/ last[1] \in {"init", "obs"})
    /\ IF Cands(comps, T) = {} THEN comps' = comps /\ last' = <<"comp", T, 0>>
       ELSE \E t \in Cands(comps, T) : comps' = comps \ {t} /\ last' = <<"comp", T, t>>
    /\ UNCHANGED <<bases, procs>>
RemoveProcessor(T) ==
    /\ (Deep \/ last[1] \in {"init", "obs"})
    /\ IF Cands(procs, T) = {} THEN procs' = procs /\ last' = <<"proc", T, 0>>
       ELSE \E t \in Cands(procs, T) : procs' = procs \ {t} /\ last' = <<"proc", T, t>>
    /\ UNCHANGED <<bases, comps>>

\* attaching an instance of a class that has none yet (queries made before - the replay makes all of them at every
\* step - must not fix the answer of later ones: an exact-type instance that arrives later is the preferred one)
AddComponent(T) ==
    /\ (Deep \/ last[1] \in {"init", "obs"}) /\ T \notin comps
    /\ comps' = comps \cup {T} /\ last' = <<"addc", T, T>> /\ UNCHANGED <<bases, procs>>
AddProcessor(T) ==
    /\ (Deep \/ last[1] \in {"init", "obs"}) /\ T \notin procs
    /\ procs' = procs \cup {T} /\ last' = <<"addp", T, T>> /\ UNCHANGED <<bases, comps>>

\* no call: gives the replay a step at which every query is compared on the freshly built world
Observe == last[1] = "init" /\ last' = <<"obs", 0, 0>> /\ UNCHANGED <<bases, comps, procs>>

Next == Observe \/ (\E T \in Cls : RemoveComponent(T) \/ RemoveProcessor(T) \/ AddComponent(T) \/ AddProcessor(T))
Spec == Init /\ [][Next]_vars

----------------------------------------------------------------------------
GetOnce == \A T, t \in Cls : GetCount(T, t) <= 1
MatchesExactlySub == \A T, t \in Cls : (GetCount(T, t) > 0) <=> (t \in comps /\ t \in Sub(T))
CandsAreSubclasses == \A T \in Cls : Cands(comps, T) \subseteq Sub(T) /\ Cands(procs, T) \subseteq Sub(T)
                                     /\ (Cands(comps, T) = {} <=> Sub(T) \cap comps = {})
ExactPreferred == \A T \in Cls : (T \in comps => Cands(comps, T) = {T}) /\ (T \in procs => Cands(procs, T) = {T})
RemovesOne == [][(\E T \in Cls : RemoveComponent(T) \/ RemoveProcessor(T)) =>
                 /\ Cardinality(comps) - Cardinality(comps') \in {0, 1}
                 /\ Cardinality(procs) - Cardinality(procs') \in {0, 1}
                 /\ (last'[3] # 0 <=> (Cardinality(comps') + Cardinality(procs') < Cardinality(comps) + Cardinality(procs)))]_vars
=============================================================================

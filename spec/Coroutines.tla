----------------------------- MODULE Coroutines -----------------------------
(***************************************************************************)
(* desper.logic.coroutines.CoroutineProcessor / CoroutinePromise.          *)
(*                                                                         *)
(* Operational layer = the data structures of the code:                    *)
(*   aq    round-robin deque of generators with the frame sentinel "S"     *)
(*   wh    wait "heap": set of <<deadline, g>> on the shared time base     *)
(*   gens  g -> "none" | "active" | "waiting"   (CoroutineProcessor._generators)*)
(*   kq    kills requested but not yet applied                             *)
(*   timer shared time base, advanced only while somebody waits, reset to  *)
(*         0 when the heap empties                                         *)
(*   prom  g -> "none" | "live"  (entry in _promises) ; pval g -> value    *)
(* A coroutine body is a script (constant): a sequence of steps            *)
(*   <<"y", w>>      yield w   (w > 0 wait; 0 = yield None/0; negative)    *)
(*   <<"kill", k>>   call kill(G[k]) from inside the body, then yield None *)
(*   <<"start", k>>  call start(G[k]) from inside the body, then yield None*)
(*   <<"state", k>>  query state(G[k]) from inside the body, then yield None*)
(*   <<"kill!", k>> <<"start!", k>> <<"state!", k>>  the same calls WITHOUT yielding: the *)
(*                   body goes on with its next step in the same frame     *)
(*   <<"raise", 0>>  the body raises an exception (Quit and SwitchWorld are  *)
(*                   raised from coroutines by design): process() lets it  *)
(*                   propagate; the coroutine is finished and forgotten,   *)
(*                   the rest of the frame is abandoned, and the queue is  *)
(*                   left at a frame boundary so the next frame is normal  *)
(* (k may be the coroutine itself: kill(self) marks it, start(self) is     *)
(* refused with ValueError because the generator is executing)             *)
(* falling off the end returns RetVal(g).  pc[g] is the generator's own    *)
(* position, which is why a restarted coroutine carries on where it was.   *)
(* One public call = one action; process(dt) is computed by the recursive  *)
(* operator Run that iterates the deque exactly like the code.             *)
(*                                                                         *)
(* Declarative layer: st[g] (status by the property's definition),         *)
(* elapsed[g] / need[g] (per-coroutine time, independent of the shared     *)
(* timer), per-frame execution log, `bad`.                                 *)
(*                                                                         *)
(* Switch (TRUE = intended, FALSE = as implemented at 05622c8):            *)
(*   StartCancelsPendingKill  (D12)                                        *)
(***************************************************************************)
EXTENDS Naturals, Integers, Sequences, FiniteSets, TLC

CONSTANTS G,          \* sequence of coroutine ids (strings), e.g. <<"g1","g2","g3">>
          Script,     \* [id -> sequence of steps <<op, n>>]
          Dts,        \* dt values offered to Process (quarter units)
          WithKill,   \* BOOLEAN: include the top-level Kill action (C08 instances explore timing only)
          MaxTimer,   \* guard: frames are not generated once the shared timer would pass this
          StartCancelsPendingKill,
          BodyExceptionCleansUp, \* (D23) an exception escaping a body leaves the queue at a frame boundary
          FinishDropsKillMark   \* (D25) a coroutine that kills itself and returns in the same step leaves no pending mark

VARIABLES aq, wh, gens, kq, timer, prom, pval, pc,
          st, elapsed, need, log, ret, bad, lastDt,
          touched     \* ghost: coroutines started or killed by the current call (in-body commands included)

vars == <<aq, wh, gens, kq, timer, prom, pval, pc, st, elapsed, need, log, ret, bad, lastDt, touched>>
Ids == {G[i] : i \in 1..Len(G)}
Sent == "S"
RetVal(g) == 100 + (CHOOSE i \in 1..Len(G) : G[i] = g)

Init == /\ aq = <<Sent>> /\ wh = {} /\ gens = [g \in Ids |-> "none"] /\ kq = {} /\ timer = 0
        /\ prom = [g \in Ids |-> "none"] /\ pval = [g \in Ids |-> 0] /\ pc = [g \in Ids |-> 1]
        /\ st = [g \in Ids |-> "TERMINATED"] /\ elapsed = [g \in Ids |-> 0] /\ need = [g \in Ids |-> 0]
        /\ log = <<>> /\ ret = "ok" /\ bad = "none" /\ lastDt = 0 /\ touched = {}

Cur == [aq |-> aq, wh |-> wh, gens |-> gens, kq |-> kq, timer |-> timer, prom |-> prom, pval |-> pval, pc |-> pc,
        st |-> st, elapsed |-> elapsed, need |-> need, log |-> <<>>, bad |-> bad, touched |-> {}, abort |-> FALSE,
        fresh |-> {}]        \* coroutines that joined the runnable line during the current call (started / started again)
Commit(s) == /\ aq' = s.aq /\ wh' = s.wh /\ gens' = s.gens /\ kq' = s.kq /\ timer' = s.timer /\ prom' = s.prom
             /\ pval' = s.pval /\ pc' = s.pc /\ st' = s.st /\ elapsed' = s.elapsed /\ need' = s.need
             /\ log' = s.log /\ bad' = s.bad /\ touched' = s.touched

\* CoroutineProcessor.state(g) as coded
StateOf(s, g) == IF s.gens[g] = "none" \/ g \in s.kq THEN "TERMINATED"
                 ELSE IF s.gens[g] = "active" THEN "ACTIVE" ELSE "PAUSED"

Without(q, g) == SelectSeq(q, LAMBDA x : x # g)

(* Where a coroutine that JOINS the runnable line - just started, started again, or woken - is put relative to the ones   *)
(* already in line is not specified by anything (the property fixes the relative order of those that STAY runnable): the  *)
(* code appends (deque end, which for a start issued from inside a body is a position in the middle of the ring), the     *)
(* specification allows every position behind the frame sentinel.  Lenient(q, F): every such arrangement of queue q       *)
(* (sentinel first) for the set F of joiners; the code's own choice q is one of them.                                      *)
InsertAt(q, i, g) == SubSeq(q, 1, i - 1) \o <<g>> \o SubSeq(q, i, Len(q))
RECURSIVE Place(_, _)
Place(base, F) == IF F = {} THEN {base}
                  ELSE LET g == CHOOSE x \in F : TRUE IN
                       UNION {{InsertAt(b, i, g) : i \in 2..Len(b) + 1} : b \in Place(base, F \ {g})}
Lenient(q, F) == LET Fq == {x \in F : \E i \in 1..Len(q) : q[i] = x} IN
                 IF Fq = {} \/ Head(q) # Sent THEN {q} ELSE Place(SelectSeq(q, LAMBDA x : x \notin Fq), Fq)
Flag(s, b) == IF s.bad = "none" THEN [s EXCEPT !.bad = b] ELSE s

\* start(g): <<state', result>> ; runner = the coroutine whose body is executing the call ("none" from outside)
StartOp(s, g, runner) ==
    IF StateOf(s, g) # "TERMINATED" \/ g = runner THEN <<s, "ValueError">>
    ELSE LET s1 == IF g \in s.kq /\ StartCancelsPendingKill
                   THEN \* the pending kill is applied now: g leaves the queue it sits in, its old wait is forgotten
                        [s EXCEPT !.kq = @ \ {g}, !.aq = Without(@, g), !.wh = {p \in @ : p[2] # g}]
                   ELSE s
             s2 == [s1 EXCEPT !.aq = Append(@, g), !.gens[g] = "active", !.prom[g] = "live", !.pval[g] = 0,
                              !.st[g] = "ACTIVE", !.elapsed[g] = 0, !.need[g] = 0]
         IN <<[s2 EXCEPT !.touched = @ \cup {g}, !.fresh = @ \cup {g}], "ok">>

\* kill(g): only marks
KillOp(s, g) ==
    IF s.gens[g] = "none" \/ g \in s.kq THEN <<s, "ValueError">>
    ELSE <<[s EXCEPT !.kq = @ \cup {g}, !.st[g] = "TERMINATED", !.touched = @ \cup {g}], "ok">>

\* a pending kill met by the frame (in either queue): forget the generator
DropKilled(s, g) ==
    IF s.gens[g] = "none" THEN Flag(s, "bookkeeping_KeyError")      \* del self._generators[gen] on a missing key
    ELSE [s EXCEPT !.gens[g] = "none", !.kq = @ \ {g}, !.prom[g] = "none"]

\* wake-ups at the beginning of process(dt).  Entries with the same deadline leave the heap in no particular order.
RECURSIVE Wake(_, _)
Wake(s, due) ==      \* due: sequence of heap entries to pop, in order
    IF due = <<>> THEN s
    ELSE LET g == Head(due)[2]
             s1 == [s EXCEPT !.wh = @ \ {Head(due)}] IN
         Wake(IF g \in s1.kq THEN DropKilled(s1, g)
              ELSE [s1 EXCEPT !.aq = Append(@, g), !.gens[g] = "active", !.st[g] = "ACTIVE"], Tail(due))

\* one next() on generator g (head of the deque): the body runs from pc[g] to its next yield or to its end
RECURSIVE StepGen(_, _)
StepGen(s, g) ==
    LET sc == Script[g] IN
    IF s.pc[g] > Len(sc)
    THEN \* StopIteration: the promise gets the value (None, here 0, for an already exhausted generator)
         LET v == IF s.pc[g] = Len(sc) + 1 THEN RetVal(g) ELSE 0 IN
         [s EXCEPT !.aq = Tail(@), !.gens[g] = "none", !.pval[g] = v, !.prom[g] = "none", !.st[g] = "TERMINATED",
                   !.kq = IF FinishDropsKillMark THEN @ \ {g} ELSE @,
                   !.pc[g] = Len(sc) + 2,
                   \* an exhausted generator raises StopIteration at once: no body code runs ("exhausted" is a ghost entry)
                   !.log = Append(@, <<g, s.pc[g], IF s.pc[g] = Len(sc) + 1 THEN "return" ELSE "exhausted">>)]
    ELSE LET step == sc[s.pc[g]]
             op == step[1]
             r == IF op \in {"kill", "kill!"} THEN KillOp(s, G[step[2]])
                  ELSE IF op \in {"start", "start!"} THEN StartOp(s, G[step[2]], g)
                  ELSE IF op \in {"state", "state!"} THEN <<s, StateOf(s, G[step[2]])>>
                  ELSE <<s, "-">>
             s1 == [r[1] EXCEPT !.pc[g] = @ + 1, !.log = Append(@, <<g, s.pc[g], r[2]>>)]
             w == IF op = "y" THEN step[2] ELSE 0 IN
         IF op = "raise"
         THEN IF BodyExceptionCleansUp
              THEN [s1 EXCEPT !.aq = Tail(@), !.gens[g] = "none", !.prom[g] = "none", !.st[g] = "TERMINATED",
                              !.kq = @ \ {g}, !.pc[g] = Len(sc) + 2, !.abort = TRUE]
              ELSE \* as coded: nothing is cleaned up; the finished generator stays at the head of the deque
                   [s1 EXCEPT !.pc[g] = Len(sc) + 2, !.st[g] = "TERMINATED", !.abort = TRUE]
         ELSE IF op \in {"kill!", "start!", "state!"} THEN StepGen(s1, g)
         ELSE IF w > 0
         THEN [s1 EXCEPT !.aq = Tail(@), !.wh = @ \cup {<<w + s1.timer, g>>}, !.gens[g] = "waiting",
                         !.st[g] = IF g \in s1.kq THEN "TERMINATED" ELSE "PAUSED", !.elapsed[g] = 0, !.need[g] = w]
         ELSE [s1 EXCEPT !.aq = Append(Tail(@), g)]           \* rotate(-1)

\* rotate the deque so that the frame sentinel is first again (relative order is preserved: the deque is a ring)
ToBoundary(q) == LET i == CHOOSE j \in 1..Len(q) : q[j] = Sent IN SubSeq(q, i, Len(q)) \o SubSeq(q, 1, i - 1)
RECURSIVE Run(_, _)
Run(s, fuel) ==
    IF s.abort THEN (IF BodyExceptionCleansUp THEN [s EXCEPT !.aq = ToBoundary(@)] ELSE s)
    ELSE IF fuel = 0 THEN Flag(s, "frame_does_not_end")
    ELSE LET g == Head(s.aq) IN
         IF g = Sent THEN s
         ELSE IF g \in s.kq THEN Run([DropKilled(s, g) EXCEPT !.aq = Tail(@)], fuel - 1)
         ELSE Run(StepGen(IF s.st[g] = "TERMINATED" THEN Flag(s, "killed_coroutine_ran") ELSE s, g), fuel - 1)

Perms(S) == {f \in [1..Cardinality(S) -> S] : \A i, j \in 1..Cardinality(S) : i # j => f[i] # f[j]}
Sorted(f) == \A i, j \in 1..Len(f) : i < j => f[i][1] <= f[j][1]

Start(g) == /\ LET r == StartOp(Cur, g, "none") IN
                 \E q \in Lenient(r[1].aq, r[1].fresh) : Commit([r[1] EXCEPT !.aq = q]) /\ ret' = r[2]
            /\ UNCHANGED lastDt
Kill(g) ==  /\ WithKill
            /\ LET r == KillOp(Cur, g) IN Commit(r[1]) /\ ret' = r[2]
            /\ UNCHANGED lastDt

Process(dt) ==
    /\ timer + dt <= MaxTimer
    /\ lastDt' = dt
    /\ LET s0 == [Cur EXCEPT !.elapsed = [g \in Ids |-> IF st[g] = "PAUSED" \/ gens[g] = "waiting" THEN @[g] + dt ELSE @[g]]]
       IN IF wh = {} THEN LET r == Run([s0 EXCEPT !.aq = Append(Tail(@), Head(@))], 40) IN
                          \E q \in Lenient(r.aq, r.fresh) :
                              /\ Commit([r EXCEPT !.aq = q]) /\ ret' = IF r.abort THEN "raised" ELSE "ok"
          ELSE LET t1 == timer + dt
                   dueSet == {p \in wh : t1 >= p[1]} IN
               \E due \in {f \in Perms(dueSet) : Sorted(f)} :
                   LET s1 == Wake([s0 EXCEPT !.timer = t1], due)
                       s2 == IF s1.wh = {} THEN [s1 EXCEPT !.timer = 0] ELSE s1
                       woken == {p[2] : p \in dueSet}
                   IN \E qw \in Lenient(s2.aq, woken) :                          \* the woken ones join the line
                       LET s3 == [s2 EXCEPT !.aq = Append(Tail(qw), Head(qw))]     \* rotate(-1): the sentinel goes last
                           r == Run(s3, 40)
                       IN \E q \in Lenient(r.aq, r.fresh) :
                              /\ Commit([r EXCEPT !.aq = q])
                              /\ ret' = IF r.abort THEN "raised" ELSE "ok"

Next == \/ (\E g \in Ids : Start(g) \/ Kill(g))
        \/ (\E dt \in Dts : Process(dt))
Spec == Init /\ [][Next]_vars

----------------------------------------------------------------------------
(* Declarative layer                                                       *)
Ran(lg) == {lg[i][1] : i \in 1..Len(lg)}
\* number of times g was advanced (one next() each): log entries of g that end a step - a yield or the return
EndsStep(g, k) == k > Len(Script[g]) \/ Script[g][k][1] \notin {"kill!", "start!", "state!"}
Times(lg, g) == Cardinality({i \in 1..Len(lg) : lg[i][1] = g /\ EndsStep(g, lg[i][2])})
InFrame == \E dt \in Dts : Process(dt)
Pos(q, g) == CHOOSE i \in 1..Len(q) : q[i] = g
InQ(q, g) == \E i \in 1..Len(q) : q[i] = g

NoBad == bad = "none"
SentinelFirst == Head(aq) = Sent /\ Cardinality({i \in 1..Len(aq) : aq[i] = Sent}) = 1

\* C09
StateCoherent == \A g \in Ids : StateOf(Cur, g) = st[g]
NoDuplicates == \A g \in Ids : Cardinality({i \in 1..Len(aq) : aq[i] = g}) + Cardinality({p \in wh : p[2] = g}) <= 1
StructuresAgree == \A g \in Ids : /\ (gens[g] = "active" <=> InQ(aq, g))
                                  /\ (gens[g] = "waiting" <=> \E p \in wh : p[2] = g)
                                  /\ (prom[g] = "live" <=> gens[g] # "none")
                                  /\ (g \in kq => gens[g] # "none")
ErrorsChangeNothing == [][ret' = "ValueError" /\ ~InFrame => UNCHANGED <<aq, wh, gens, kq, timer, prom, pval, pc, st>>]_vars
PromiseHoldsReturn == \A g \in Ids : (pc[g] = Len(Script[g]) + 2 /\ gens[g] = "none" /\ pval[g] # 0) => pval[g] = RetVal(g)
\* released in time: after a frame nothing runnable is still marked for killing, and whatever the processor
\* still holds is running, waiting, or a killed waiter whose wake-up frame has not come yet
\* (a frame abandoned by an exception escaping a body did not reach the coroutines behind the culprit: they are
\* met - and released - by the next frame, the first one in which they would have run)
ReleasedInTime == [][(InFrame /\ ret' = "ok") => \A g \in (kq' \cap kq) \ touched' : gens'[g] = "waiting"]_vars

\* C08
\* waiters (not killed) wake exactly in the first frame by which the dt accumulated since their yield reaches the wait
WakeExactlyOnTime ==
    [][InFrame => \A g \in Ids : (st[g] = "PAUSED" /\ g \notin kq /\ g \notin touched') =>
            ((g \in Ran(log') \/ gens'[g] # "waiting") <=> (elapsed[g] + lastDt' >= need[g]))]_vars
\* everybody runnable at the start of the frame is advanced exactly once; nobody is advanced twice
OneStepPerFrame ==
    [][(InFrame /\ ret' = "ok") =>
          /\ \A g \in Ids : Times(log', g) <= 1
          /\ \A g \in Ids : (st[g] = "ACTIVE" /\ g \notin kq /\ g \notin touched') => g \in Ran(log')
          \* a waiter woken by this frame runs in this frame
          /\ \A g \in Ids : (st[g] = "PAUSED" /\ g \notin kq /\ g \notin touched' /\ elapsed[g] + lastDt' >= need[g])
                                => g \in Ran(log')]_vars
RelativeOrderKept ==
    [][InFrame => \A g, h \in Ids : (g # h /\ st[g] = "ACTIVE" /\ st[h] = "ACTIVE" /\ InQ(aq, g) /\ InQ(aq, h)
                                     /\ InQ(aq', g) /\ InQ(aq', h) /\ g \notin kq /\ h \notin kq /\ g \notin touched' /\ h \notin touched') =>
                     ((Pos(aq, g) < Pos(aq, h)) <=> (Pos(aq', g) < Pos(aq', h)))]_vars
\* the per-coroutine clock and the shared time base agree:  deadline - timer = need - elapsed
TimerInvariant == \A p \in wh : p[1] - timer = need[p[2]] - elapsed[p[2]]
=============================================================================

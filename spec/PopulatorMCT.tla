---------------------------- MODULE PopulatorMCT ----------------------------
(* Thorough-tier scenario families (kept apart: TLC evaluates every constant definition of the  *)
(* modules it loads, so the quick tier must not see these).                                    *)
EXTENDS PopulatorMC

\* thorough: shards small enough to dump (<= ~2*10^4 scenarios each)
TreesT(n) == {Tree(F, Em) : F \in {x \in SUBSET FileU : Cardinality(x) = n}, Em \in Empties} \cup RichTrees
Sc_t1 == <<Fam1(TreesT(1), {"T", "N"}), Fam1(TreesT(2), {"T", "N"})>>
Sc_t2 == <<Fam1({tr \in TreesT(3) : dx \in tr.files \/ dxt \in tr.files}, {"T", "N"})>>
Sc_t3 == <<Fam1({tr \in TreesT(3) : dx \notin tr.files /\ dxt \notin tr.files}, {"T", "N"})>>
Lists2T == Lists2 \cup {<<P(RD, {"txt"}), P(RD, {"txt"}), P(RD, {})>>, <<P(DS, {}), P(RD, {"gz"})>>, <<P(RE, {}), P(RD, {"png"})>>}
TreesCT == {Tree(F, Em) : F \in UpTo(DFiles \cup {dszt}, 4) \ {{}}, Em \in {{}}}
Adds2T == Adds2 \cup {<<P(RD, {}), P(DS, {"txt"})>>}
Sc_t4 == <<Fam2a(TreesCT, Lists2T), Fam2b(TreesCT, Lists2T, Adds2T)>>
TreesDeep == {Tree(F, {}) : F \in UpTo({dxt, dsxt, dszt, dsuxt, dsdx, dyg}, 3) \ {{}}}
Sc_t6 == <<Fam2b(TreesDeep, Lists2T, Adds2T)>>
Sc_t5 == <<Fam3a(3), Fam3b(3), Fam4a, Fam4b, Fam5a(Trees4 \cup Trees5 \cup {Tree({dxt, dxp, dyg, dsxt}, {dt})}), Fam5b(Trees4 \cup Trees5), Fam6a, Fam6b>>
=============================================================================

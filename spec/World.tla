------------------------------- MODULE World -------------------------------
(***************************************************************************)
(* desper.logic.world.World — entity/component tables, lifecycle           *)
(* callbacks (direct when dispatching is enabled, postponed through the    *)
(* world's own event queue when disabled), deferred deletion, processors.  *)
(*                                                                         *)
(* Big-step: the callbacks used here only log (re-entrant callbacks are    *)
(* explored in Dispatcher.tla), so every public call is one action.  The   *)
(* operational layer keeps BOTH tables of the implementation               *)
(*   rows  : entity -> (exact type -> component)     (World._entities)     *)
(*   index : exact type -> set of entities           (World._components)   *)
(* and updates them in the order the code does; the declarative layer is   *)
(* the ghost `owns` relation and the invariants at the end.                *)
(*                                                                         *)
(* Deviation switches, TRUE = intended, FALSE = as implemented at 05622c8: *)
(*  ReplaceBeforeIndex (D1) AutoIdSkipsUsed (D2) ImmediateDeleteNotifies   *)
(*  (D3) ClearKeepsSelf (D4) RelayOnlyDeclared (D5) CreateNotifiesReplaced *)
(*  (D6) ClearDeadGuards (D9/D10) WalkVisitsOnce (D11)                     *)
(***************************************************************************)
EXTENDS Naturals, Integers, Sequences, FiniteSets, TLC

CONSTANTS Ids,        \* identifiers usable as explicit entity ids (integers; the adapter maps some to strings/tuples)
          MaxAuto,    \* automatic ids are 1..MaxAuto (guard; Clear restarts the generator)
          Types, Bases,           \* component class hierarchy: Bases \in [Types -> SUBSET Types]
          Comps, TypeOf, Decl,    \* component instances, exact type, declared callbacks \subseteq {"on_add","on_remove","probe"}
          Procs, PTypes, PBases, PTypeOf, PDefault, PDecl,   \* processors: instances, class hierarchy, class default priority
          Prios,      \* explicit priorities offered to AddProcessor (integers); NoPrio ("not given") is always offered
          Dts,        \* dt values offered to Process
          MaxQ,       \* bound on postponed callbacks (guard)
          Acts,       \* enabled action families: subset of {"create","create2","add","remove","delete","process","clear","toggle","probe","proc","fault","ghost","inframe","probekill"}
          ReplaceBeforeIndex, AutoIdSkipsUsed, ImmediateDeleteNotifies, ClearKeepsSelf,
          RelayOnlyDeclared, CreateNotifiesReplaced, ClearDeadGuards, WalkVisitsOnce,
          SharedStaysRegistered, \* (D30) an instance attached to several entities is unregistered when it leaves the LAST one
                                 \* FALSE = as implemented at 05622c8: unregistered at the first removal
          CreateAttachesInTurn   \* (D29) create_entity(x, y) with x and y of one type: x is attached (on_add) and then
                                 \* replaced by y (on_remove, unregistered), as two add_component calls would do.
                                 \* FALSE = as implemented at 05622c8: x hears on_remove BEFORE on_add and stays registered

VARIABLES rows, index, dead, nextAuto,
          enabled, queue,      \* queue: postponed callbacks <<cb, who, ent, first>> ; first = starts a new operation batch
          reg, selfReg, probeKnown,
          procs, pprio, pworld,
          log, ret, bad

vars == <<rows, index, dead, nextAuto, enabled, queue, reg, selfReg, probeKnown, procs, pprio, pworld, log, ret, bad>>

NoEnt == 0 - 1
NoPrio == 999      \* add_processor(p) without an explicit priority
EmptyF == <<>>

----------------------------------------------------------------------------
(* class hierarchies *)
RECURSIVE SubOf(_), PSubOf(_)
Direct(T) == {S \in Types : T \in Bases[S]}
SubOf(T) == {T} \cup UNION {SubOf(S) : S \in Direct(T)}
PDirect(T) == {S \in PTypes : T \in PBases[S]}
PSubOf(T) == {T} \cup UNION {PSubOf(S) : S \in PDirect(T)}

\* number of times the subclass walk of the code (no visited set) reaches t from T
RECURSIVE WalkCount(_, _)
SumOver(S, F(_)) == LET RECURSIVE Sm(_)
                        Sm(R) == IF R = {} THEN 0 ELSE LET x == CHOOSE y \in R : TRUE IN F(x) + Sm(R \ {x})
                    IN Sm(S)
WalkCount(T, t) == (IF T = t THEN 1 ELSE 0) + LET G(x) == WalkCount(x, t) IN SumOver(Direct(T), G)

----------------------------------------------------------------------------
(* partial functions *)
Put(f, k, v) == [x \in DOMAIN f \cup {k} |-> IF x = k THEN v ELSE f[x]]
Drop(f, k) == [x \in DOMAIN f \ {k} |-> f[x]]
Row(rs, e) == IF e \in DOMAIN rs THEN rs[e] ELSE EmptyF
IdxAdd(ix, t, e) == Put(ix, t, (IF t \in DOMAIN ix THEN ix[t] ELSE {}) \cup {e})
IdxDel(ix, t, e) == IF t \notin DOMAIN ix THEN ix
                    ELSE IF ix[t] \ {e} = {} THEN Drop(ix, t) ELSE Put(ix, t, ix[t] \ {e})
RowsDel(rs, e, t) == IF e \notin DOMAIN rs THEN rs
                     ELSE IF DOMAIN rs[e] \ {t} = {} THEN Drop(rs, e) ELSE Put(rs, e, Drop(rs[e], t))
RowsPut(rs, e, t, c) == Put(rs, e, Put(Row(rs, e), t, c))

Attached(rs) == {rs[e][t] : <<e, t>> \in {p \in (DOMAIN rs) \X Types : p[2] \in DOMAIN rs[p[1]]}}
\* one instance is attached to one entity at a time, unless the "shared" family lifts the restriction (the same instance
\* given to several entities, or to the entity that already holds it)
Free(c) == "shared" \in Acts \/ c \notin Attached(rows)
IsHandler(c) == Decl[c] # {}

----------------------------------------------------------------------------
(* The mutable part threaded through one call:                             *)
(*   w = [rows, index, dead, queue, reg, log, first]                       *)
W0 == [rows |-> rows, index |-> index, dead |-> dead, queue |-> queue, reg |-> reg, log |-> <<>>, first |-> TRUE]

\* a lifecycle callback: called directly when enabled, relayed through on_single_dispatch when not
Notify(w, cb, who, e) ==
    IF cb \notin (IF who \in Comps THEN Decl[who] ELSE PDecl[who]) THEN w
    ELSE IF enabled THEN [w EXCEPT !.log = Append(@, <<cb, who, e>>)]
    ELSE IF ~selfReg THEN w                      \* D4: nobody listens to the relay event any more
    ELSE [w EXCEPT !.queue = Append(@, <<cb, who, e, w.first>>), !.first = FALSE]

\* D5: the removal paths relay on_remove for every handler while disabled, declared or not
NotifyRemove(w, who, e) ==
    LET decl == IF who \in Comps THEN Decl[who] ELSE PDecl[who] IN
    IF RelayOnlyDeclared \/ enabled \/ decl = {} \/ "on_remove" \in decl THEN Notify(w, "on_remove", who, e)
    ELSE IF ~selfReg THEN w
    ELSE [w EXCEPT !.queue = Append(@, <<"badrelay", who, e, w.first>>), !.first = FALSE]

\* remove_component for an exact type present in the row: tables, callback, unregister
Detach(w, e, t) ==
    LET c == w.rows[e][t]
        \* when the row is freed the entity is gone: a pending deletion mark has nothing left to do
        w1 == [w EXCEPT !.index = IdxDel(@, t, e), !.rows = RowsDel(@, e, t),
                        !.dead = IF ClearDeadGuards /\ e \notin DOMAIN RowsDel(w.rows, e, t) THEN @ \ {e} ELSE @]
        w2 == IF IsHandler(c) THEN NotifyRemove(w1, c, e) ELSE w1
    \* a shared instance stays a listener until it leaves the last entity that holds it (D30)
    IN IF SharedStaysRegistered /\ c \in Attached(w2.rows) THEN w2 ELSE [w2 EXCEPT !.reg = @ \ {c}]

\* tables only
Tables(w, e, c) == [w EXCEPT !.index = IdxAdd(@, TypeOf[c], e), !.rows = RowsPut(@, e, TypeOf[c], c)]
\* add_handler + on_add
Announce(w, e, c) == IF IsHandler(c) THEN Notify([w EXCEPT !.reg = @ \cup {c}], "on_add", c, e) ELSE w

RECURSIVE DetachAll(_, _, _)
DetachAll(w, e, ts) == IF ts = {} \/ e \notin DOMAIN w.rows THEN w
                       ELSE LET t == CHOOSE x \in ts : TRUE IN
                            DetachAll(IF t \in DOMAIN Row(w.rows, e) THEN Detach(w, e, t) ELSE w, e, ts \ {t})
\* immediate deletion as coded at 05622c8: tables only, no callback, stays registered
RECURSIVE PurgeSilently(_, _, _)
PurgeSilently(w, e, ts) == IF ts = {} THEN [w EXCEPT !.rows = Drop(@, e)]
                           ELSE LET t == CHOOSE x \in ts : TRUE IN
                                PurgeSilently([w EXCEPT !.index = IdxDel(@, t, e)], e, ts \ {t})
DeleteNow(w, e) == IF e \notin DOMAIN w.rows THEN w
                   ELSE IF ImmediateDeleteNotifies THEN DetachAll(w, e, DOMAIN w.rows[e])
                   ELSE PurgeSilently(w, e, DOMAIN w.rows[e])
RECURSIVE DeleteMany(_, _), ApplyDeferred(_, _)
DeleteMany(w, es) == IF es = {} THEN w ELSE LET e == CHOOSE x \in es : TRUE IN DeleteMany(DeleteNow(w, e), es \ {e})
\* the deferred path notifies on_remove at 05622c8 too (its defects are the missing guard, D9/D10, and
\* that it unregisters only components declaring on_remove, folded into ClearDeadGuards = FALSE)
DetachDeferred(w, e, t) ==
    IF ClearDeadGuards \/ "on_remove" \in Decl[w.rows[e][t]] \/ ~IsHandler(w.rows[e][t]) THEN Detach(w, e, t)
    ELSE [w EXCEPT !.index = IdxDel(@, t, e), !.rows = RowsDel(@, e, t)]
RECURSIVE DetachAllDeferred(_, _, _)
DetachAllDeferred(w, e, ts) == IF ts = {} \/ e \notin DOMAIN w.rows THEN w
                               ELSE LET t == CHOOSE x \in ts : TRUE IN
                                    DetachAllDeferred(IF t \in DOMAIN Row(w.rows, e) THEN DetachDeferred(w, e, t) ELSE w, e, ts \ {t})
ApplyDeferred(w, es) == IF es = {} THEN w
                        ELSE LET e == CHOOSE x \in es : TRUE IN
                             ApplyDeferred(IF e \in DOMAIN w.rows THEN DetachAllDeferred(w, e, DOMAIN w.rows[e]) ELSE w, es \ {e})

Commit(w) == /\ rows' = w.rows /\ index' = w.index /\ dead' = w.dead /\ queue' = w.queue /\ reg' = w.reg /\ log' = w.log

----------------------------------------------------------------------------
Init == /\ rows = EmptyF /\ index = EmptyF /\ dead = {} /\ nextAuto = 1
        /\ enabled = TRUE /\ queue = <<>> /\ reg = {} /\ selfReg = TRUE /\ probeKnown = FALSE
        /\ procs = <<>> /\ pprio = [p \in Procs |-> PDefault[PTypeOf[p]]] /\ pworld = [p \in Procs |-> FALSE]
        /\ log = <<>> /\ ret = <<"ok", 0, "-">> /\ bad = "none"

QRoom(n) == enabled \/ Len(queue) + n <= MaxQ
ProbeTargets(rg) == {x \in rg : "probe" \in (IF x \in Comps THEN Decl[x] ELSE PDecl[x])}
\* an event name is known to the dispatcher once a handler mapping it was registered (until clear)
PK == probeKnown' = (probeKnown \/ ProbeTargets(reg') # {})
\* ... also when the listeners S were registered only in passing (attached and detached again within the call): an event
\* name stays known to the dispatcher once it has had a listener
PKWith(S) == probeKnown' = (probeKnown \/ ProbeTargets(reg' \cup S) # {})
Same == PK /\ UNCHANGED <<nextAuto, enabled, selfReg, procs, pprio, pworld, bad>>

\* --- create_entity(*cs, entity_id=id) ; id = NoEnt means automatic ------------------------------
RECURSIVE PickAuto(_)
PickAuto(n) == IF AutoIdSkipsUsed /\ n \in DOMAIN rows /\ n <= MaxAuto THEN PickAuto(n + 1) ELSE n

RECURSIVE CreateTables(_, _, _), AnnounceAll(_, _, _)
CreateTables(w, e, cs) ==
    IF cs = <<>> THEN w
    ELSE LET c == Head(cs)  t == TypeOf[c]
             w1 == IF CreateNotifiesReplaced /\ t \in DOMAIN Row(w.rows, e) THEN Detach(w, e, t) ELSE w
         IN CreateTables(Tables(w1, e, c), e, Tail(cs))
AnnounceAll(w, e, cs) == IF cs = <<>> THEN w ELSE AnnounceAll(Announce(w, e, Head(cs)), e, Tail(cs))
\* several components of one type in one call ("createdup" family): all but the last of each type are attached and
\* replaced in turn, the last ones go through the batch path above
Dup(cs) == \E i, j \in 1..Len(cs) : i # j /\ TypeOf[cs[i]] = TypeOf[cs[j]]
Later(cs, i) == \E j \in (i + 1)..Len(cs) : TypeOf[cs[j]] = TypeOf[cs[i]]
RECURSIVE KeptFrom(_, _), AttachReplaced(_, _, _, _)
KeptFrom(cs, i) == IF i > Len(cs) THEN <<>> ELSE (IF Later(cs, i) THEN <<>> ELSE <<cs[i]>>) \o KeptFrom(cs, i + 1)
AttachReplaced(w, e, cs, i) ==
    IF i > Len(cs) THEN w
    ELSE IF ~Later(cs, i) THEN AttachReplaced(w, e, cs, i + 1)
    ELSE LET c == cs[i]  t == TypeOf[c]
             w1 == IF t \in DOMAIN Row(w.rows, e) THEN Detach(w, e, t) ELSE w
         IN AttachReplaced(Announce(Tables(w1, e, c), e, c), e, cs, i + 1)

CreateEntity(id, cs) ==
    /\ "create" \in Acts /\ (Len(cs) = 2 => "create2" \in Acts)
    /\ \A i \in 1..Len(cs) : Free(cs[i])
    /\ \A i, j \in 1..Len(cs) : i # j => cs[i] # cs[j]
    /\ (Dup(cs) => "createdup" \in Acts)
    /\ QRoom(IF Dup(cs) THEN 4 ELSE 3)
    /\ LET e == IF id = NoEnt THEN PickAuto(nextAuto) ELSE id
           turn == Dup(cs) /\ CreateAttachesInTurn
           ks == IF turn THEN KeptFrom(cs, 1) ELSE cs
           wa == IF turn THEN AttachReplaced(W0, e, cs, 1) ELSE W0 IN
       /\ (id = NoEnt => e <= MaxAuto)
       /\ nextAuto' = IF id = NoEnt THEN e + 1 ELSE nextAuto
       /\ Commit(AnnounceAll(CreateTables(wa, e, ks), e, ks))
       /\ ret' = <<"id", e, "-">>
       /\ bad' = IF bad = "none" /\ id = NoEnt /\ e \in DOMAIN rows THEN "auto_id_in_use" ELSE bad
    /\ PKWith({cs[i] : i \in 1..Len(cs)}) /\ UNCHANGED <<enabled, selfReg, procs, pprio, pworld>>

\* --- add_component(e, c) -------------------------------------------------------------------------
AddComponent(e, c) ==
    /\ "add" \in Acts /\ Free(c) /\ QRoom(2)
    /\ LET t == TypeOf[c]
           replacing == t \in DOMAIN Row(rows, e) IN
       IF ReplaceBeforeIndex
       THEN LET w1 == IF replacing THEN Detach(W0, e, t) ELSE W0 IN
            Commit(Announce(Tables(w1, e, c), e, c))
       ELSE \* as coded: index insert, then replacement through remove_component (which frees the index entry), then row insert
            LET w0 == [W0 EXCEPT !.index = IdxAdd(@, t, e)]
                w1 == IF replacing THEN Detach(w0, e, t) ELSE w0
                w2 == [w1 EXCEPT !.rows = RowsPut(@, e, t, c)] IN
            Commit(Announce(w2, e, c))
    /\ ret' = <<"ok", 0, "-">> /\ Same

\* Re-entrant lifecycle callbacks ("reentrant" family; dispatching enabled):
\* (a) a component that detaches itself from inside its own on_add (a one-shot initialiser): when add_component
\*     returns it is neither attached nor registered, and it heard on_add and on_remove once each
AddSelfRemoving(e, c) ==
    /\ "reentrant" \in Acts /\ "add" \in Acts /\ enabled /\ Free(c) /\ "on_add" \in Decl[c]
    /\ LET t == TypeOf[c]
           w1 == IF t \in DOMAIN Row(rows, e) THEN Detach(W0, e, t) ELSE W0
           w2 == Announce(Tables(w1, e, c), e, c) IN
       Commit(Detach(w2, e, t))
    /\ ret' = <<"ok", 0, "-">> /\ PKWith({c}) /\ UNCHANGED <<nextAuto, enabled, selfReg, procs, pprio, pworld, bad>>
\* (b) create_entity(c, d) where the on_add of c disables dispatching (a pause / loading-screen component): the
\*     callbacks of the components that follow in the same call are postponed, not called
CreateDisabling(id, c, d) ==
    /\ "reentrant" \in Acts /\ "create" \in Acts /\ enabled /\ selfReg /\ Free(c) /\ Free(d) /\ c # d
    /\ TypeOf[c] # TypeOf[d] /\ "on_add" \in Decl[c] /\ Len(queue) + 1 <= MaxQ
    /\ LET cs == <<c, d>>
           w1 == CreateTables(W0, id, cs)
           w2 == Announce(w1, id, c)
           w3 == IF IsHandler(d) THEN [w2 EXCEPT !.reg = @ \cup {d}] ELSE w2
           w4 == IF "on_add" \in Decl[d] THEN [w3 EXCEPT !.queue = Append(@, <<"on_add", d, id, TRUE>>)] ELSE w3 IN
       Commit(w4)
    /\ enabled' = FALSE /\ ret' = <<"id", id, "-">>
    /\ PK /\ UNCHANGED <<nextAuto, selfReg, procs, pprio, pworld, bad>>

\* (c) the on_remove callback of the component being removed disables dispatching (e.g. pauses the game): it was
\*     notified directly, exactly once; nothing is postponed, the world keeps no reference to it
RemoveDisabling(e, c) ==
    /\ "reentrant" \in Acts /\ "remove" \in Acts /\ enabled /\ "on_remove" \in Decl[c]
    /\ e \in DOMAIN rows /\ TypeOf[c] \in DOMAIN rows[e] /\ rows[e][TypeOf[c]] = c
    /\ Commit(Detach(W0, e, TypeOf[c]))
    /\ enabled' = FALSE /\ ret' = <<"comp", 0, c>>
    /\ PK /\ UNCHANGED <<nextAuto, selfReg, procs, pprio, pworld, bad>>

\* --- remove_component(e, T): exact type first, else one of the subclass components --------------
RemoveComponent(e, T) ==
    /\ "remove" \in Acts /\ QRoom(1)
    /\ LET cand == IF T \in DOMAIN Row(rows, e) THEN {T} ELSE SubOf(T) \cap DOMAIN Row(rows, e) IN
       IF cand = {} THEN /\ Commit(W0) /\ ret' = <<"none", 0, "-">>
       ELSE \E t \in cand : /\ Commit(Detach(W0, e, t)) /\ ret' = <<"comp", 0, rows[e][t]>>
    /\ Same

\* --- delete_entity ---------------------------------------------------------------------------------
\* With "ghost" in Acts the call is also made for identifiers that own nothing (outside C05's precondition, but
\* the world must not be left failing forever): the mark is kept until the next frame reports it once.
DeleteDeferred(e) ==
    /\ "delete" \in Acts /\ (e \in DOMAIN rows \/ "ghost" \in Acts)
    /\ Commit([W0 EXCEPT !.dead = @ \cup {e}]) /\ ret' = <<"ok", 0, "-">>
    /\ PK /\ UNCHANGED <<nextAuto, enabled, selfReg, procs, pprio, pworld, bad>>

DeleteImmediate(e) ==
    /\ "delete" \in Acts /\ QRoom(3)
    /\ IF e \in DOMAIN rows THEN Commit(DeleteNow(W0, e)) /\ ret' = <<"ok", 0, "-">>
                             ELSE Commit(W0) /\ ret' = <<"KeyError", 0, "-">>
    /\ Same

\* --- processors --------------------------------------------------------------------------------------
SeqWithout(s, p) == SelectSeq(s, LAMBDA x : x # p)
InsertAt(s, i, x) == SubSeq(s, 1, i - 1) \o <<x>> \o SubSeq(s, i, Len(s))
\* bisect_right on priorities: index after the last element with priority <= pr
RightIdx(s, pp, pr) == 1 + Cardinality({i \in 1..Len(s) : pp[s[i]] <= pr})
OfPType(s, T) == {i \in 1..Len(s) : PTypeOf[s[i]] = T}

RemoveProcInst(w, s, p) ==      \* returns <<w', s'>>
    LET w1 == IF PDecl[p] # {} THEN NotifyRemove(w, p, NoEnt) ELSE w IN
    <<[w1 EXCEPT !.reg = @ \ {p}], SeqWithout(s, p)>>

\* the tables after add_processor(p, pr): <<world record, processor list, priorities>>
\* (adding an instance that is already present replaces it by itself: on_remove, new priority, new place, on_add)
AddProcNew(p, pr) ==
    LET old == OfPType(procs, PTypeOf[p])
        r1 == IF old = {} THEN <<W0, procs>> ELSE RemoveProcInst(W0, procs, procs[CHOOSE i \in old : TRUE])
        newpr == IF pr = NoPrio THEN pprio[p] ELSE pr
        pp == [pprio EXCEPT ![p] = newpr]
        s2 == InsertAt(r1[2], RightIdx(r1[2], pp, newpr), p)
        w2 == IF PDecl[p] # {} THEN Notify([r1[1] EXCEPT !.reg = @ \cup {p}], "on_add", p, NoEnt) ELSE r1[1]
    IN <<w2, s2, pp>>
AddProcessor(p, pr) ==
    /\ "proc" \in Acts /\ QRoom(2)
    /\ LET r == AddProcNew(p, pr) IN procs' = r[2] /\ pprio' = r[3] /\ Commit(r[1])
    /\ pworld' = [pworld EXCEPT ![p] = TRUE]
    /\ ret' = <<"ok", 0, "-">>
    /\ PK /\ UNCHANGED <<nextAuto, enabled, selfReg, bad>>
\* the on_add callback of the processor raises (called directly: dispatching enabled): the exception reaches the caller,
\* the processor is in the world like after any add_processor - listed, found by type, registered - so that adding
\* another one of its type replaces it
AddProcessorFault(p, pr) ==
    /\ "proc" \in Acts /\ "fault" \in Acts /\ enabled /\ "on_add" \in PDecl[p]
    /\ LET r == AddProcNew(p, pr) IN procs' = r[2] /\ pprio' = r[3] /\ Commit(r[1])
    /\ pworld' = [pworld EXCEPT ![p] = TRUE]
    /\ ret' = <<"raised", 0, "-">>
    /\ PK /\ UNCHANGED <<nextAuto, enabled, selfReg, bad>>

RemoveProcessor(T) ==
    /\ "proc" \in Acts /\ QRoom(1)
    /\ LET present == {PTypeOf[procs[i]] : i \in 1..Len(procs)}
           cand == IF T \in present THEN {T} ELSE PSubOf(T) \cap present IN
       IF cand = {} THEN /\ Commit(W0) /\ ret' = <<"none", 0, "-">> /\ UNCHANGED procs
       ELSE \E t \in cand :
              LET p == procs[CHOOSE i \in OfPType(procs, t) : TRUE]
                  r == RemoveProcInst(W0, procs, p) IN
              /\ Commit(r[1]) /\ procs' = r[2] /\ ret' = <<"proc", 0, p>>
    /\ PK /\ UNCHANGED <<nextAuto, enabled, selfReg, pprio, pworld, bad>>

\* --- process(dt) -------------------------------------------------------------------------------------
RECURSIVE RunProcs(_, _, _, _)
RunProcs(w, s, dt, stopAt) ==        \* stopAt: processor that raises (or "none")
    IF s = <<>> THEN w
    ELSE LET w1 == [w EXCEPT !.log = Append(@, <<"process", Head(s), dt>>)] IN
         IF Head(s) = stopAt THEN w1 ELSE RunProcs(w1, Tail(s), dt, stopAt)

DeadRows == dead \cap DOMAIN rows
GhostMarks == dead \ DOMAIN rows
Process(dt) ==
    /\ "process" \in Acts /\ QRoom(3)
    /\ IF ClearDeadGuards
       THEN IF GhostMarks = {}
            THEN /\ Commit(RunProcs(ApplyDeferred(W0, dead), procs, dt, "none")) /\ ret' = <<"ok", 0, "-">>
            ELSE \* a mark on an identifier that never existed: KeyError, once; the mark is gone afterwards.  Which
                 \* real deletions were applied before it was met is the iteration order: a choice.
                 \E g \in GhostMarks : \E done \in SUBSET DeadRows :
                     LET w == ApplyDeferred(W0, done) IN
                     /\ Commit([w EXCEPT !.dead = @ \ {g}]) /\ ret' = <<"KeyError", 0, "-">>
       ELSE IF dead \subseteq DOMAIN rows
            THEN /\ Commit([RunProcs(ApplyDeferred(W0, dead), procs, dt, "none") EXCEPT !.dead = {}])
                 /\ ret' = <<"ok", 0, "-">>
            ELSE \* as coded: self._entities[entity] raises KeyError; the pending set is never emptied
                 /\ \E done \in SUBSET DeadRows : Commit(ApplyDeferred(W0, done))
                 /\ ret' = <<"KeyError", 0, "-">>
    /\ PK /\ UNCHANGED <<nextAuto, enabled, selfReg, procs, pprio, pworld, bad>>

\* a processor raises in the middle of the frame: deletions were applied, later processors do not run
ProcessProcFault(dt, p) ==
    /\ "fault" \in Acts /\ "process" \in Acts /\ QRoom(3) /\ ClearDeadGuards /\ GhostMarks = {}
    /\ \E i \in 1..Len(procs) : procs[i] = p
    /\ Commit(RunProcs(ApplyDeferred(W0, dead), procs, dt, p))
    /\ ret' = <<"raised", 0, "-">>
    /\ PK /\ UNCHANGED <<nextAuto, enabled, selfReg, procs, pprio, pworld, bad>>

\* on_remove of component c raises while the deferred deletion of its entity is being applied
\* (only when enabled: a postponed callback cannot raise here).  Which other dead entities / components
\* were handled before it is the iteration order: a choice.  The tables were already updated when the
\* callback runs, the handler registration of c was not yet dropped.
ProcessRemoveFault(dt, c) ==
    /\ "fault" \in Acts /\ "process" \in Acts /\ enabled /\ "on_remove" \in Decl[c] /\ ClearDeadGuards /\ GhostMarks = {}
    /\ \E e \in DeadRows : \E t \in DOMAIN rows[e] :
         /\ rows[e][t] = c
         /\ \E doneE \in SUBSET (DeadRows \ {e}) : \E doneT \in SUBSET (DOMAIN rows[e] \ {t}) :
              LET w1 == DetachAll(ApplyDeferred(W0, doneE), e, doneT)
                  w2 == [w1 EXCEPT !.index = IdxDel(@, t, e), !.rows = RowsDel(@, e, t),
                                   !.dead = IF e \notin DOMAIN RowsDel(w1.rows, e, t) THEN @ \ {e} ELSE @,
                                   !.log = Append(@, <<"on_remove", c, e>>)] IN
              Commit(w2)
    /\ ret' = <<"raised", 0, "-">>
    /\ PK /\ UNCHANGED <<nextAuto, enabled, selfReg, procs, pprio, pworld, bad>>

\* a processor removes a processor (of type T or a subtype; possibly itself) while the frame is running.  As
\* coded the frame iterates the list it started with, so everybody registered at the start of the frame still
\* runs exactly once in this frame; the removal shows from the next frame on.
ProcessRemover(dt, p, T) ==
    /\ "inframe" \in Acts /\ "process" \in Acts /\ QRoom(3) /\ ClearDeadGuards /\ GhostMarks = {}
    /\ \E i \in 1..Len(procs) : procs[i] = p
    /\ LET i == CHOOSE j \in 1..Len(procs) : procs[j] = p
           w1 == RunProcs(ApplyDeferred(W0, dead), SubSeq(procs, 1, i), dt, "none")
           rest == SubSeq(procs, i + 1, Len(procs))
           present == {PTypeOf[procs[j]] : j \in 1..Len(procs)}
           cand == IF T \in present THEN {T} ELSE PSubOf(T) \cap present IN
       IF cand = {} THEN /\ Commit(RunProcs(w1, rest, dt, "none")) /\ procs' = procs
       ELSE \E t \in cand :
              LET victim == procs[CHOOSE j \in OfPType(procs, t) : TRUE]
                  r == RemoveProcInst(w1, procs, victim) IN
              /\ Commit(RunProcs(r[1], rest, dt, "none")) /\ procs' = r[2]
    /\ ret' = <<"ok", 0, "-">>
    /\ PK /\ UNCHANGED <<nextAuto, enabled, selfReg, pprio, pworld, bad>>

\* the on_remove callback of component c (being removed by the deferred deletion of its entity) deletes another
\* entity e2 immediately - everyday game code.  Whatever the iteration order, every pending deletion is applied,
\* e2 is gone, every component concerned hears on_remove once, and the frame completes.
ProcessKiller(dt, c, e2) ==
    /\ "fault" \in Acts /\ "process" \in Acts /\ enabled /\ "on_remove" \in Decl[c] /\ ClearDeadGuards /\ GhostMarks = {}
    /\ e2 \in DOMAIN rows
    /\ \E e \in DeadRows \ {e2} : \E t \in DOMAIN rows[e] : rows[e][t] = c
    /\ LET w1 == ApplyDeferred(W0, dead)
           w2 == DeleteNow(w1, e2) IN
       Commit(RunProcs(w2, procs, dt, "none"))
    /\ ret' = <<"ok", 0, "-">>
    /\ PK /\ UNCHANGED <<nextAuto, enabled, selfReg, procs, pprio, pworld, bad>>

\* like ProcessKiller, but the callback only *schedules* the other entity (deferred delete_entity from inside the
\* sweep): the sweep re-reads the pending marks, so the scheduled entity goes in the same frame
ProcessScheduler(dt, c, e2) ==
    /\ "fault" \in Acts /\ "process" \in Acts /\ enabled /\ "on_remove" \in Decl[c] /\ ClearDeadGuards /\ GhostMarks = {}
    /\ e2 \in DOMAIN rows
    /\ \E e \in DeadRows \ {e2} : \E t \in DOMAIN rows[e] : rows[e][t] = c
    /\ Commit(RunProcs(ApplyDeferred(W0, dead \cup {e2}), procs, dt, "none"))
    /\ ret' = <<"ok", 0, "-">>
    /\ PK /\ UNCHANGED <<nextAuto, enabled, selfReg, procs, pprio, pworld, bad>>

\* --- clear() -------------------------------------------------------------------------------------------
RECURSIVE RemoveAllProcs(_, _)
RemoveAllProcs(w, s) == IF s = <<>> THEN w ELSE RemoveAllProcs(RemoveProcInst(w, s, Head(s))[1], Tail(s))
Clear ==
    /\ "clear" \in Acts
    /\ LET w1 == DeleteMany(W0, DOMAIN rows)
           w2 == RemoveAllProcs(w1, procs) IN
       /\ rows' = w2.rows /\ index' = w2.index /\ log' = w2.log
       /\ queue' = <<>> /\ reg' = {}            \* EventDispatcher.clear(): pending events are lost, every handler forgotten
    /\ dead' = {} /\ nextAuto' = 1 /\ procs' = <<>> /\ enabled' = TRUE /\ probeKnown' = FALSE
    /\ selfReg' = ClearKeepsSelf
    /\ ret' = <<"ok", 0, "-">> /\ UNCHANGED <<pprio, pworld, bad>>

\* clear() during which the on_remove callback of component c schedules (deferred delete_entity) entity e2 - a parent
\* scheduling its children, which clear() may already have torn down: a cleared world has no pending deletion,
\* whatever the callbacks asked for meanwhile; the identifiers handed out afterwards name living entities
ClearScheduler(c, e2) ==
    /\ "clear" \in Acts /\ "fault" \in Acts /\ enabled /\ "on_remove" \in Decl[c] /\ c \in Attached(rows)
    /\ LET w1 == DeleteMany(W0, DOMAIN rows)
           w2 == RemoveAllProcs(w1, procs) IN
       /\ rows' = w2.rows /\ index' = w2.index /\ log' = w2.log
       /\ queue' = <<>> /\ reg' = {}
    /\ dead' = {} /\ nextAuto' = 1 /\ procs' = <<>> /\ enabled' = TRUE /\ probeKnown' = FALSE
    /\ selfReg' = ClearKeepsSelf
    /\ ret' = <<"ok", 0, "-">> /\ UNCHANGED <<pprio, pworld, bad>>

\* --- dispatch_enabled = b ------------------------------------------------------------------------------
\* queue entries: lifecycle relays <<cb, who, ent, first>>, probes <<"probe", "-", tok, TRUE>>
RECURSIVE Release(_, _, _)
Release(q, rg, lg) ==      \* returns <<log, raisedAt>> ; listeners of a probe are those registered at release time
    IF q = <<>> THEN <<lg, 0>>
    ELSE LET it == Head(q) IN
         IF it[1] = "badrelay" THEN <<lg, Len(q)>>
         ELSE IF it[1] = "probe"
              THEN Release(Tail(q), rg, Append(lg, <<"probe*", "-", it[3]>>))
              ELSE Release(Tail(q), rg, Append(lg, <<it[1], it[2], it[3]>>))
SetEnabled(b) ==
    /\ "toggle" \in Acts
    /\ enabled' = b
    /\ IF b THEN LET r == Release(queue, reg, <<>>) IN
                 /\ log' = r[1]
                 /\ queue' = IF r[2] = 0 THEN <<>> ELSE SubSeq(queue, Len(queue) - r[2] + 2, Len(queue))
                 /\ ret' = IF r[2] = 0 THEN <<"ok", 0, "-">> ELSE <<"KeyError", 0, "-">>
            ELSE /\ log' = <<>> /\ queue' = queue /\ ret' = <<"ok", 0, "-">>
    /\ UNCHANGED <<rows, index, dead, nextAuto, reg, selfReg, probeKnown, procs, pprio, pworld, bad>>

\* a postponed callback raises while the queue is being released: what was delivered is not delivered again,
\* what was not yet delivered stays pending, in order (the faulting relay is alone in its operation batch)
SetEnabledFault(i) ==
    /\ "toggle" \in Acts /\ "fault" \in Acts /\ ~enabled
    /\ i \in 1..Len(queue) /\ queue[i][1] \in {"on_add", "on_remove"} /\ queue[i][2] \in Comps
    /\ queue[i][4] /\ (IF i = Len(queue) THEN TRUE ELSE queue[i + 1][4])
    /\ \A j \in 1..(i - 1) : ~(queue[j][1] = queue[i][1] /\ queue[j][2] = queue[i][2])
    /\ enabled' = TRUE
    /\ log' = Release(SubSeq(queue, 1, i), reg, <<>>)[1]
    /\ queue' = SubSeq(queue, i + 1, Len(queue))
    /\ ret' = <<"raised", 0, "-">>
    /\ UNCHANGED <<rows, index, dead, nextAuto, reg, selfReg, probeKnown, procs, pprio, pworld, bad>>

\* --- world.dispatch("probe", tok): an ordinary event of the world --------------------------------------
Probe(tok) ==
    /\ "probe" \in Acts /\ QRoom(1)
    /\ LET known == probeKnown IN
       /\ probeKnown' = known
       /\ IF ~known THEN log' = <<>> /\ queue' = queue
          ELSE IF enabled THEN log' = <<<<"probe*", "-", tok>>>> /\ queue' = queue
          ELSE log' = <<>> /\ queue' = Append(queue, <<"probe", "-", tok, TRUE>>)
    /\ ret' = <<"ok", 0, "-">>
    /\ UNCHANGED <<rows, index, dead, nextAuto, enabled, reg, selfReg, procs, pprio, pworld, bad>>

\* C10 through a World: a listener of an ordinary event deletes, from inside its callback, another entity whose
\* components listen to the same event.  The world held the only strong reference to them, so they are gone:
\* each of them either received the event before the killer ran (iteration order: a choice) or never receives it.
RECURSIVE AppendProbes(_, _, _)
AppendProbes(lg, S, tok) == IF S = {} THEN lg ELSE LET x == CHOOSE y \in S : TRUE IN AppendProbes(Append(lg, <<"probe", x, tok>>), S \ {x}, tok)
ProbeKiller(tok, c, e2) ==
    /\ "probe" \in Acts /\ "probekill" \in Acts /\ enabled
    /\ c \in reg /\ c \in Comps /\ "probe" \in Decl[c]
    /\ e2 \in DOMAIN rows /\ \A t \in DOMAIN rows[e2] : rows[e2][t] # c
    /\ LET victims == {rows[e2][t] : t \in DOMAIN rows[e2]} \cap ProbeTargets(reg)
           others == ProbeTargets(reg) \ victims
           w == DeleteNow(W0, e2) IN
       \E S \in SUBSET victims :
           Commit([w EXCEPT !.log = AppendProbes(@, others \cup S, tok)])
    /\ ret' = <<"ok", 0, "-">>
    /\ PK /\ UNCHANGED <<nextAuto, enabled, selfReg, procs, pprio, pworld, bad>>

CompSeqs == {<<c>> : c \in Comps} \cup {<<c, d>> : <<c, d>> \in {p \in Comps \X Comps : p[1] # p[2]}}

Next == \/ (\E id \in Ids \cup {NoEnt}, cs \in CompSeqs : CreateEntity(id, cs))
        \/ (\E e \in Ids, c \in Comps : AddComponent(e, c))
        \/ (\E e \in Ids, T \in Types : RemoveComponent(e, T))
        \/ (\E e \in Ids : DeleteDeferred(e) \/ DeleteImmediate(e))
        \/ (\E p \in Procs, pr \in Prios \cup {NoPrio} : AddProcessor(p, pr) \/ AddProcessorFault(p, pr))
        \/ (\E T \in PTypes : RemoveProcessor(T))
        \/ (\E dt \in Dts : Process(dt))
        \/ (\E dt \in Dts, p \in Procs : ProcessProcFault(dt, p))
        \/ (\E dt \in Dts, c \in Comps : ProcessRemoveFault(dt, c))
        \/ (\E dt \in Dts, c \in Comps, e2 \in Ids : ProcessKiller(dt, c, e2))
        \/ (\E dt \in Dts, p \in Procs, T \in PTypes : ProcessRemover(dt, p, T))
        \/ (\E dt \in Dts, c \in Comps, e2 \in Ids : ProcessScheduler(dt, c, e2))
        \/ (\E e \in Ids, c \in Comps : AddSelfRemoving(e, c) \/ RemoveDisabling(e, c))
        \/ (\E id \in Ids, c \in Comps, d \in Comps : CreateDisabling(id, c, d))
        \/ (\E i \in 1..MaxQ : SetEnabledFault(i))
        \/ Clear
        \/ (\E c \in Comps, e2 \in Ids \cup (1..MaxAuto) : ClearScheduler(c, e2))
        \/ (\E b \in BOOLEAN : SetEnabled(b))
        \/ (\E tok \in {7} : Probe(tok))
        \/ (\E tok \in {7}, c \in Comps, e2 \in Ids : ProbeKiller(tok, c, e2))

Spec == Init /\ [][Next]_vars

----------------------------------------------------------------------------
(* Queries, computed the way the code computes them                        *)
GetCount(T, e, t) ==      \* how many times get(T) lists entity e's component of exact type t
    IF t \in DOMAIN index /\ e \in index[t]
    THEN (IF WalkVisitsOnce THEN (IF t \in SubOf(T) THEN 1 ELSE 0) ELSE WalkCount(T, t))
    ELSE 0
HasComponent(e, T) == SubOf(T) \cap DOMAIN Row(rows, e) # {}
Entities == DOMAIN rows \ dead
EntityExists(e) == e \in DOMAIN rows /\ e \notin dead

(* Declarative layer                                                       *)
Owns == {<<e, rows[e][t]>> : <<e, t>> \in {p \in (DOMAIN rows) \X Types : p[2] \in DOMAIN rows[p[1]]}}

\* C01
IndexIsTranspose ==
    /\ \A t \in DOMAIN index : index[t] # {} /\ \A e \in index[t] : e \in DOMAIN rows /\ t \in DOMAIN rows[e]
    /\ \A e \in DOMAIN rows : DOMAIN rows[e] # {} /\ \A t \in DOMAIN rows[e] : t \in DOMAIN index /\ e \in index[t]
RowsWellTyped == \A e \in DOMAIN rows : \A t \in DOMAIN rows[e] : TypeOf[rows[e][t]] = t
OneOwner == ("shared" \in Acts) \/ \A p, q \in Owns : p[2] = q[2] => p[1] = q[1]
QueriesAgree == \A T \in Types, e \in Ids \cup (1..MaxAuto), t \in Types :
    GetCount(T, e, t) = IF e \in DOMAIN rows /\ t \in DOMAIN rows[e] /\ t \in SubOf(T) THEN 1 ELSE 0
AutoIdFresh == bad # "auto_id_in_use"

\* C02 (states are between calls; callbacks here do not raise)
RegisteredIffAttached == ("fault" \notin Acts) =>
    reg = {c \in Attached(rows) : IsHandler(c)} \cup {procs[i] : i \in {j \in 1..Len(procs) : PDecl[procs[j]] # {}}}
WorldListensToItself == selfReg
NoBadRelay == \A i \in 1..Len(queue) : queue[i][1] # "badrelay"
DrainedWhenEnabled == (enabled /\ ret[1] \notin {"KeyError", "raised"} /\ "fault" \notin Acts) => queue = <<>>
\* every postponed on_add is for a component that is attached to that entity now or has a later on_remove queued
\* (after a callback raised during a release the dispatcher is enabled with events still pending - C04 - and
\* later direct callbacks overtake them: instances with the "fault" family are exempt)
PendingConsistent ==
    ("fault" \in Acts) \/ \A i \in 1..Len(queue) :
        (queue[i][1] = "on_add" /\ queue[i][2] \in Comps) =>
            \/ <<queue[i][3], queue[i][2]>> \in Owns
            \/ \E j \in (i + 1)..Len(queue) : queue[j][1] = "on_remove" /\ queue[j][2] = queue[i][2] /\ queue[j][3] = queue[i][3]
            \/ "on_remove" \notin Decl[queue[i][2]]

\* C05
ProcessNeverFails == [][(\E dt \in Dts : Process(dt)) =>
                            IF GhostMarks = {} THEN ret'[1] = "ok"
                            ELSE Cardinality(GhostMarks') < Cardinality(GhostMarks)]_vars
FreedAfterProcess == [][(\E dt \in Dts : Process(dt)) /\ ret'[1] = "ok" => dead' = {} /\ dead \cap DOMAIN rows' = {}]_vars
MarkHidesAtOnce == [][\A e \in Ids : DeleteDeferred(e) => (~EntityExists(e))' /\ rows' = rows]_vars
\* after a faulted frame the next unfaulted frame completes and frees everything that was pending
NoPermanentFailure == [][(ret[1] = "raised" /\ GhostMarks = {} /\ \E dt \in Dts : Process(dt)) => (ret'[1] = "ok" /\ dead' = {})]_vars
MarksHaveRows == (ClearDeadGuards /\ "ghost" \notin Acts) => dead \subseteq DOMAIN rows

\* C07
SortedStable == \A i, j \in 1..Len(procs) : i < j => pprio[procs[i]] <= pprio[procs[j]]
OnePerType == \A i, j \in 1..Len(procs) : i # j => PTypeOf[procs[i]] # PTypeOf[procs[j]]
AddedKnowsWorld == \A i \in 1..Len(procs) : pworld[procs[i]]
\* insertion is stable: a newly added processor goes after every present processor of the same priority
InsertAfterEquals ==
    [][\A p \in Procs, pr \in Prios \cup {NoPrio} : AddProcessor(p, pr) =>
          \A i, j \in 1..Len(procs') : (procs'[i] = p /\ pprio'[procs'[j]] = pprio'[p] /\ j # i) => j < i]_vars
KeepsRelativeOrder ==
    [][\A p \in Procs, pr \in Prios \cup {NoPrio} : AddProcessor(p, pr) =>
          \A a, b \in 1..Len(procs) : (a < b /\ procs[a] # p /\ procs[b] # p
                                       /\ PTypeOf[procs[a]] # PTypeOf[p] /\ PTypeOf[procs[b]] # PTypeOf[p]) =>
              \E x, y \in 1..Len(procs') : x < y /\ procs'[x] = procs[a] /\ procs'[y] = procs[b]]_vars
=============================================================================

--------------------------- MODULE ResourcesTrace ---------------------------
(***************************************************************************)
(* Pipeline B for Resources.tla: executions of the real desper.model.tree  *)
(* classes (Handle, ResourceMap, StaticResourceMap) over a universe larger *)
(* than TLC explores exhaustively (more maps, handles, names, layers,      *)
(* deeper keys, longer histories), recorded call by call with everything   *)
(* the public API shows after each call, and checked against the           *)
(* specification.  Resources.tla is big-step and, once the arguments of a  *)
(* call are bound, deterministic (the id of a map made for an intermediate *)
(* key part is the least free pool id, the recorder binds the real object  *)
(* to the same id): every recorded call is exactly one action and a trace  *)
(* is one path, so validation is linear in the length of the trace.  What  *)
(* load() returns and the lexical class of each name are per-trace choices *)
(* out of the batch's pools (KindSeq, ClsSeq), fixed by the trace header.  *)
(* A trace may start from a tree that already exists (header `init`: the   *)
(* repository's own tests build their fixtures by writing the tables).     *)
(* Every invariant of Resources.tla is evaluated in every recorded state.  *)
(***************************************************************************)
EXTENDS Resources, Json, IOUtils

CONSTANTS KindSeq,      \* sequence of functions [Hd -> Kinds]; a trace names one by index (ki)
          ClsSeq        \* sequence of functions [Names -> NameClasses]; a trace names one by index (ci)

Traces == JsonDeserialize(IOEnv.TRACE_FILE)

VARIABLES tid, l
tvars == <<vars, tid, l>>

ToSet(s) == {s[i] : i \in 1..Len(s)}
\* a JSON list of [key, value] pairs as a function
Fn(s) == [x \in {s[i][1] : i \in 1..Len(s)} |-> s[CHOOSE i \in 1..Len(s) : s[i][1] = x][2]]
Hdr == Traces[tid]
Evs == Hdr.events
Cur == Evs[l]

\* Header `fresh`: the execution starts from the initial state of Resources.tla.  Otherwise `init` is the tree as
\* the recorder found it: per map its sub-maps and handle layers, per node its back-links, the cached handles.
I == Hdr.init
IMaps == [m \in M |-> IF m \in DOMAIN Fn(I.maps) THEN Fn(Fn(I.maps)[m]) ELSE Empty]
ILayers == [m \in M |-> IF m \in DOMAIN Fn(I.layers)
                        THEN [i \in 1..Len(Fn(I.layers)[m]) |-> Fn(Fn(I.layers)[m][i])] ELSE <<Empty>>]
ILink(f) == [n \in Nodes |-> IF n \in DOMAIN Fn(f) /\ HeldIn(IMaps, ILayers, n) THEN Fn(f)[n] ELSE None]
\* the abstract tree of a tree that exists already is what it denotes name by name
IAbs == [m \in M |-> [n \in DOMAIN IMaps[m] \cup LayerNames(ILayers[m]) |->
                        IF n \in LayerNames(ILayers[m]) THEN <<"h", VisOf(ILayers[m])[n]>> ELSE <<"m", IMaps[m][n]>>]]

InitFrom == /\ kind = KindSeq[Hdr.ki] /\ cls = ClsSeq[Hdr.ci]
            /\ maps = IMaps /\ layers = ILayers /\ parent = ILink(I.parent) /\ key = ILink(I.key)
            /\ cached = [h \in Hd |-> h \in ToSet(I.cached)]
            /\ value = [h \in Hd |-> IF h \in ToSet(I.cached) THEN 1 ELSE 0]
            /\ gen = value /\ loads = value /\ armed = {}
            /\ sealed = FALSE /\ snapRoot = None
            /\ sslot = [m \in M |-> Empty] /\ sdict = [m \in M |-> Empty] /\ shn = [m \in M |-> {}]
            /\ sage = 0 /\ smir = [m \in M |-> [n \in Names |-> Absent]]
            /\ ret = NoRet /\ loadedNow = {} /\ abs = IAbs /\ stale = {}

TInit == /\ tid \in 1..Len(Traces) /\ TLCSet(tid, 0) /\ l = 1
         /\ IF Hdr.fresh THEN Init /\ kind = KindSeq[Hdr.ki] /\ cls = ClsSeq[Hdr.ci] ELSE InitFrom

\* what needs the state before the call as well: during a load (successful or failing) the handle says it is not
\* cached yet
SeenOK == ToSet(Cur.seen) = {<<h, FALSE>> : h \in loadedNow' \cup (armed \ armed')}

\* PathEquivalence, DefaultIffKeyError and LatestWins quantify over M \X Paths (930 pairs here) and read maps, layers
\* and abs only.  Calls that are not tree operations leave these three unchanged (demanded of every such step), so
\* the value of these invariants cannot differ from the state before: they are evaluated after tree operations only
\* (T_... below; half the cost of a run).
TreeOps == {"SetItem", "PushLayer", "Clear"}
TreeFresh == l = 1 \/ Evs[l - 1].op \in TreeOps
T_PathEquivalence == TreeFresh => PathEquivalence
T_DefaultIffKeyError == TreeFresh => DefaultIffKeyError
T_LatestWins == TreeFresh => LatestWins

Consume(A) == /\ l <= Len(Evs) /\ A /\ SeenOK /\ l' = l + 1 /\ UNCHANGED tid
              /\ (Cur.op \notin TreeOps => UNCHANGED <<maps, layers, abs>>)

\* clear(): nothing left in the map; its former direct children are detached - except a child that was moved
\* elsewhere meanwhile: it keeps recording its new place (and if no map holds it any more its links are free)
ClearOK ==
    LET m == Cur.a1
        d == Cur.detached
    IN /\ Cur.empty
       /\ {d[i][1] : i \in 1..Len(d)} = Range(maps[m]) \cup Range(Vis(m))
       /\ \A i \in 1..Len(d) : LET c == d[i][1] IN
             (parent[c] = m \/ HeldIn(maps', layers', c)) => (parent'[c] = d[i][2] /\ key'[c] = d[i][3])

TNext == \/ Consume(Cur.op = "SetItem" /\ SetItem(Cur.a1, Cur.a2, Cur.a3))
         \/ Consume(Cur.op = "PushLayer" /\ PushLayer(Cur.a1))
         \/ Consume(Cur.op = "Clear" /\ Clear(Cur.a1) /\ ClearOK)
         \/ Consume(Cur.op = "Call" /\ Call(Cur.a1))
         \/ Consume(Cur.op = "ClearHandle" /\ ClearHandle(Cur.a1))
         \/ Consume(Cur.op = "ArmFault" /\ ArmFault(Cur.a1))
         \/ Consume(Cur.op = "Get" /\ Get(Cur.a1, Cur.a2))
         \/ Consume(Cur.op = "GetItem" /\ GetItem(Cur.a1, Cur.a2))
         \/ Consume(Cur.op = "Snapshot" /\ Snapshot(Cur.a1))
         \/ Consume(Cur.op = "SAttr" /\ SAttr(Cur.a1, Cur.a2))
         \/ Consume(Cur.op = "SItem" /\ SItem(Cur.a1, Cur.a2))
         \/ Consume(Cur.op = "SGet" /\ SGet(Cur.a1, Cur.a2))
         \/ Consume(Cur.op = "SSetAttr" /\ SSetAttr(Cur.a1, Cur.a2))
         \/ Consume(Cur.op = "SDelAttr" /\ SDelAttr(Cur.a1, Cur.a2))

TraceSpec == TInit /\ [][TNext]_tvars

----------------------------------------------------------------------------
(* The observation recorded after call l-1 (the facets of the pipeline-A   *)
(* adapter, harness/adapters/resources.py, probe=False).                   *)

\* return value: the object (map / handle / snapshot node by pool id; a loaded value by the set of (handle, load
\* serial) products it is identical to - None, 0 and '' are shared between loads); exception class compared for
\* KeyError and the harness's LoadFault only, otherwise "raises"
RetOK(e) ==
    CASE e.rk = "ok" -> ret = NoRet
      [] e.rk = "val" -> ret[1] = "val" /\ \E i \in 1..Len(e.rv) : e.rv[i][1] = ret[2] /\ e.rv[i][2] = ret[3]
      [] e.rk = "exc" -> ret[1] = "exc" /\ (ret[2] \in {"KeyError", "LoadFault"} => e.ri = ret[2])
      [] OTHER -> ret = <<e.rk, e.ri, 0>>

\* get(path) for every path over the alphabet (and over names never assigned), from every map: the paths listed
\* denote what the model says, and no other path denotes anything.  The number of denoting paths is counted along
\* the tree (DenTotal) instead of over M \X Paths: same number (DenTotalIsCount, checked on demand), 100x cheaper.
RECURSIVE SumOver(_, _)
SumOver(S, f) == IF S = {} THEN 0 ELSE LET x == CHOOSE x \in S : TRUE IN f[x] + SumOver(S \ {x}, f)
RECURSIVE DenCount(_, _)
DenCount(m, d) ==
    IF d = 0 THEN 0
    ELSE Cardinality(DOMAIN Vis(m) \cup DOMAIN maps[m])
         + SumOver(DOMAIN maps[m], [n \in DOMAIN maps[m] |-> DenCount(maps[m][n], d - 1)])
DenTotal == SumOver(M, [m \in M |-> DenCount(m, MaxDepth)])
DenTotalIsCount == DenTotal = Cardinality({x \in M \X Paths : GetDen(x[1], x[2]) # Absent})
DenOK(e) == /\ \A i \in 1..Len(e.den) : GetDen(e.den[i][1], e.den[i][2]) = <<e.den[i][3], e.den[i][4]>>
            /\ Len(e.den) = DenTotal

\* every (map, name, kind, child) the real tables list, with the child's back-links (free at a superseded place)
LinkSet == UNION {{<<m, n, "m", maps[m][n]>> : n \in DOMAIN maps[m]} \cup {<<m, n, "h", Vis(m)[n]>> : n \in DOMAIN Vis(m)} : m \in M}
LinksOK(e) == /\ {<<e.links[i][1], e.links[i][2], e.links[i][3], e.links[i][4]>> : i \in 1..Len(e.links)} = LinkSet
              /\ Len(e.links) = Cardinality(LinkSet)
              /\ \A i \in 1..Len(e.links) : LET x == e.links[i] IN
                    <<x[1], x[2], x[4]>> \in stale \/ (parent[x[4]] = x[5] /\ key[x[4]] = x[6])

\* handles.maps (ChainMap layers, front first); not compared when the recorder could not read them
LayersOK(e) == \A i \in 1..Len(e.layers) : LET m == e.layers[i][1]
                                               ls == e.layers[i][2]
                                           IN Len(ls) = Len(layers[m]) /\ \A j \in 1..Len(ls) : Fn(ls[j]) = layers[m][j]

\* the snapshot through .get (never loads): every node, every name
Mirror == UNION {{<<x, n, IF SLookup(x, n)[1] = "h" THEN "handle" ELSE "snap", SLookup(x, n)[2]>> :
                     n \in {n \in Names : SLookup(x, n) # Absent}} : x \in SnapNodes}

ObsOK == (l > 1) =>
    LET e == Evs[l - 1] IN
    /\ RetOK(e)
    /\ loadedNow = ToSet(e.loaded)
    /\ {h \in Hd : cached[h]} = ToSet(e.cached)
    /\ \A i \in 1..Len(e.nloads) : gen[e.nloads[i][1]] = e.nloads[i][2]
    /\ LinksOK(e)
    /\ LayersOK(e)
    /\ ToSet(e.smirror) = Mirror
    /\ DenOK(e)
Track == ObsOK /\ TLCSet(tid, IF l > TLCGet(tid) THEN l ELSE TLCGet(tid))

Rejected == {t \in 1..Len(Traces) : TLCGet(t) # Len(Traces[t].events) + 1}
Accepted == \/ Rejected = {}
            \/ (\A t \in Rejected : PrintT(<<"REJECT", t, TLCGet(t)>>)) /\ FALSE
=============================================================================

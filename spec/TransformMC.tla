---------------------------- MODULE TransformMC ----------------------------
(* Model-checking instances of Transform: named choice sets for cfg files. *)
EXTENDS Transform

\* outside [0, 360) on both sides, the boundaries, more than one turn; all exact in binary floating point
Rot_All == {-370, -10, 0, 10, 359, 360, 370, 725}
Rot_Few == {-10, 10, 370}

P == "on_position_change"
R == "on_rotation_change"
S == "on_scale_change"

Subs_All == [L -> (SUBSET Ev) \ {{}}]
\* first listener maps everything or a single event, second one two events or one: every event is seen
\* with 0, 1 and 2 interested listeners
Subs_Some == {s \in Subs_All : s["l1"] \in {Ev, {R}, {P}} /\ s["l2"] \in {{R, S}, {P, R}, {S}}}
Subs_Two == {s \in Subs_All : s["l1"] = Ev /\ s["l2"] \in {{R, S}, {P}}}

Arg(t, p) == {Dflt} \cup (IF Scalar(t, p) THEN {N(i) : i \in Rot} ELSE VecVals)
\* constructor calls of one transform: no argument / all three / only the rotation / all but the rotation
CtorOf(t) == {a \in [Props -> AllVals \cup {Dflt}] :
                /\ \A p \in Props : a[p] \in Arg(t, p)
                /\ \/ \A p \in Props : a[p] = Dflt
                   \/ \A p \in Props : a[p] # Dflt
                   \/ \A p \in Props : (a[p] # Dflt) <=> (p = "rotation")
                   \/ \A p \in Props : (a[p] = Dflt) <=> (p = "rotation")}
Ctor_Some == {c \in [T -> UNION {CtorOf(t) : t \in T}] : \A t \in T : c[t] \in CtorOf(t)}
Ctor_None == {[t \in T |-> [p \in Props |-> Dflt]]}
\* one choice per "shape" of the call, values picked deterministically (smallest instance for the two-transform graphs)
Ctor_Shapes == {c \in Ctor_Some : \A t \in T, p \in Props :
                   c[t][p] \in {Dflt, IF Scalar(t, p) THEN N(370) ELSE V("va")}}

Reg_None == {[t \in T |-> {}]}
Reg_Full == {[t \in T |-> L]}
Reg_All == [T -> SUBSET L]
\* two transforms with different listener sets that overlap: one listener sits on both
First == CHOOSE t \in T : \A u \in T : t <= u   \* not evaluated; see Reg_Cross
Reg_Cross == {r \in Reg_All : /\ \A t \in T : r[t] # {}
                              /\ \E t, u \in T : r[t] # r[u]
                              /\ \E t \in T : r[t] = L}
=============================================================================

---------------------------- MODULE TransformMC ----------------------------
(* Model-checking instances of Transform: named choice sets for cfg files. *)
EXTENDS Transform

\* outside [0, 360) on both sides, the boundaries, more than one turn; all exact in binary floating point
Rot_All == {-370, -10, 0, 10, 359, 360, 370, 725}
Rot_Few == {-10, 10, 370}

P == "on_position_change"
R == "on_rotation_change"
S == "on_scale_change"

Subs_All == [L -> (SUBSET Ev) \ {{}}]
\* every event is seen with 0, 1 and 2 interested listeners
Subs_Some == {s \in Subs_All : s["l1"] \in {Ev, {R}} /\ s["l2"] \in {{R, S}, {P}}}
Subs_Two == {s \in Subs_All : s["l1"] = Ev /\ s["l2"] \in {{R, S}, {P}}}

\* the re-assigning listener l2 hears everything; l1 hears everything too, or only part of it
Subs_Both == {s \in Subs_All : s["l2"] = Ev /\ s["l1"] \in {Ev, {R, S}, {P}}}

Beh_Nop == {[l \in L |-> Nop]}
\* l2 clamps one property to the vector vb (a 2D rotation: to ClampRot), l1 only listens
Beh_Clamp == {[l \in L |-> IF l = "l2" THEN <<"clamp", p, "vb">> ELSE Nop] : p \in Props}

\* l1 raises when told about one property; l2 only listens, or clamps that same property (the exception then also
\* comes out of a nested assignment, through l2's callback)
Beh_RaiseOnly == {[l \in L |-> IF l = "l1" THEN <<"raise", p, "-">> ELSE Nop] : p \in Props}
Beh_Raise == Beh_RaiseOnly \cup {[l \in L |-> IF l = "l1" THEN <<"raise", p, "-">> ELSE <<"clamp", p, "vb">>] : p \in Props}

Arg(t, p) == {Dflt} \cup (IF Scalar(t, p) THEN {N(i) : i \in Rot} ELSE VecVals)
\* constructor calls of one transform: no argument / all three / only the rotation / all but the rotation
CtorOf(t) == {a \in [Props -> AllVals \cup {Dflt}] :
                /\ \A p \in Props : a[p] \in Arg(t, p)
                /\ \/ \A p \in Props : a[p] = Dflt
                   \/ \A p \in Props : a[p] # Dflt
                   \/ \A p \in Props : (a[p] # Dflt) <=> (p = "rotation")
                   \/ \A p \in Props : (a[p] = Dflt) <=> (p = "rotation")}
Ctor_Every == {c \in [T -> UNION {CtorOf(t) : t \in T}] : \A t \in T : c[t] \in CtorOf(t)}
\* the same four shapes, every rotation, one vector per vector argument
Ctor_Some == {c \in Ctor_Every : \A t \in T : c[t]["position"] \in {Dflt, V("va")} /\ c[t]["scale"] \in {Dflt, V("vb")}}
Ctor_None == {[t \in T |-> [p \in Props |-> Dflt]]}
\* one choice per shape of the call, the same shape for all transforms, fixed values (two-transform graphs)
Ctor_Shapes == {c \in Ctor_Every : /\ \A t \in T, p \in Props : c[t][p] \in {Dflt, IF Scalar(t, p) THEN N(370) ELSE V("va")}
                                   /\ \A t, u \in T, p \in Props : (c[t][p] = Dflt) <=> (c[u][p] = Dflt)}

Reg_None == {[t \in T |-> {}]}
Reg_Full == {[t \in T |-> L]}
Reg_All == [T -> SUBSET L]
\* two transforms with different listener sets that overlap: l2 sits on both, l1 on one of them
Reg_Cross == {r \in Reg_All : (\E t \in T : r[t] = L) /\ (\A t \in T : r[t] \in {L, {"l2"}}) /\ (\E t \in T : r[t] # L)}
=============================================================================

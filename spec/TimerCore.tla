------------------------------ MODULE TimerCore ------------------------------
(***************************************************************************)
(* The timing core of CoroutineProcessor in isolation, typed for Apalache: *)
(* one shared time base `timer` that advances only while somebody waits    *)
(* and restarts from 0 when nobody does; a waiter is stored with the       *)
(* absolute deadline `wait + timer at the moment of the yield`.            *)
(* Ghosts: need[g] (the wait asked for) and elapsed[g] (dt accumulated     *)
(* since the yield).  IndInv is an INDUCTIVE invariant over unbounded      *)
(* integers (arbitrary waits, arbitrary non-negative dt, any history       *)
(* length): Init => IndInv and IndInv /\ Next => IndInv' are discharged by *)
(* Apalache; WakeOnTime (C08: woken in the first frame by which the        *)
(* accumulated dt reaches the wait - never earlier, never later) is then   *)
(* checked as an action invariant from any IndInv state.                   *)
(***************************************************************************)
EXTENDS Integers, FiniteSets, Apalache

G == {"g1", "g2", "g3"}

VARIABLES
    \* @type: Int;
    timer,
    \* @type: Set(Str);
    waiting,
    \* @type: Str -> Int;
    deadline,
    \* @type: Str -> Int;
    need,
    \* @type: Str -> Int;
    elapsed,
    \* @type: Set(Str);
    woken,
    \* @type: Int;
    lastDt,
    \* @type: Str -> Int;
    elapsedBefore

vars == <<timer, waiting, deadline, need, elapsed, woken, lastDt, elapsedBefore>>

Init == /\ timer = 0 /\ waiting = {} /\ woken = {} /\ lastDt = 0
        /\ deadline = [g \in G |-> 0] /\ need = [g \in G |-> 0] /\ elapsed = [g \in G |-> 0]
        /\ elapsedBefore = [g \in G |-> 0]

\* a running coroutine yields a positive wait w (between frames, as far as the time base is concerned)
Yield(g, w) ==
    /\ g \notin waiting /\ w > 0
    /\ waiting' = waiting \cup {g}
    /\ deadline' = [deadline EXCEPT ![g] = w + timer]
    /\ need' = [need EXCEPT ![g] = w]
    /\ elapsed' = [elapsed EXCEPT ![g] = 0]
    /\ woken' = {} /\ UNCHANGED <<timer, lastDt, elapsedBefore>>

\* the wake-up part of process(dt), as coded
Frame(dt) ==
    /\ dt >= 0 /\ lastDt' = dt /\ elapsedBefore' = elapsed
    /\ IF waiting = {}
       THEN /\ UNCHANGED <<timer, waiting, deadline, need, elapsed>> /\ woken' = {}
       ELSE LET t1 == timer + dt
                due == {g \in waiting : t1 >= deadline[g]} IN
            /\ woken' = due
            /\ waiting' = waiting \ due
            /\ elapsed' = [g \in G |-> IF g \in waiting THEN elapsed[g] + dt ELSE elapsed[g]]
            /\ timer' = IF waiting \ due = {} THEN 0 ELSE t1
            /\ UNCHANGED <<deadline, need>>

Next == \/ (\E g \in G, w \in 1..1000000 : Yield(g, w))
        \/ (\E dt \in 0..1000000 : Frame(dt))

\* inductive invariant: the shared time base and the per-coroutine clocks agree, and nobody overslept
IndInv ==
    /\ timer >= 0
    /\ waiting \subseteq G
    /\ \A g \in waiting : /\ need[g] > 0 /\ elapsed[g] >= 0
                          /\ deadline[g] - timer = need[g] - elapsed[g]
                          /\ elapsed[g] < need[g]
    /\ (waiting = {} => timer = 0)
    /\ lastDt >= 0

\* arbitrary state satisfying the invariant (Apalache idiom for the inductive step)
IndInit == /\ timer = Gen(1) /\ waiting = Gen(3) /\ deadline = Gen(3) /\ need = Gen(3) /\ elapsed = Gen(3)
           /\ woken = {} /\ lastDt = Gen(1) /\ elapsedBefore = Gen(3)
           /\ DOMAIN deadline = G /\ DOMAIN need = G /\ DOMAIN elapsed = G /\ DOMAIN elapsedBefore = G
           /\ woken \subseteq G
           /\ IndInv

\* C08: a waiter is woken by a frame iff the dt accumulated since its yield reaches the wait in that frame
\* (checked on the states reached by ONE step from an arbitrary IndInv state: action-level statement as a state
\* invariant over the history variables woken / lastDt / elapsedBefore written by that step)
WakeOnTime ==
    \A g \in G : /\ (g \in woken) => (elapsedBefore[g] + lastDt >= need[g] /\ elapsedBefore[g] < need[g])
                 /\ (g \in waiting) => elapsed[g] < need[g]
NotLate ==
    \A g \in waiting : elapsed[g] < need[g]
=============================================================================

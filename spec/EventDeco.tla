----------------------------- MODULE EventDeco -----------------------------
(***************************************************************************)
(* desper.events.event_handler — the class-hierarchy clause of C03:        *)
(* "handler classes inherit their bases' event mappings, extended and      *)
(* overridden by their own, without altering the bases".                   *)
(*                                                                         *)
(* Operational layer (shaped like the decorator and like Python classes):  *)
(*   classes 1..n created in order, `bases[k]` among the earlier ones,     *)
(*   `mro[k]` their C3 linearisation; `attr[k]` = which dict object is     *)
(*   bound to `__events__` in the class's own namespace (0 = none, the     *)
(*   attribute is then found through the MRO); `heap[i]` = contents of     *)
(*   dict object i.  Decorate(bs, d) creates class n+1 with bases bs and   *)
(*   applies event_handler(names.., renames..) with d.names and d.ren:     *)
(*       events = getattr(cls, '__events__', {})                           *)
(*       cls.__events__ = events | names | renames      (a new dict)       *)
(*   Register(k) puts an instance of class k into a fresh dispatcher       *)
(*   (add_handler resolves each mapped method name on the class),          *)
(*   Dispatch(e) delivers one event to it.                                 *)
(* Declarative layer: ghost `deco` (what was asked for each class) and the *)
(* properties at the end.                                                  *)
(*                                                                         *)
(* Mappings are sets of <<event, method name>> pairs with one pair per     *)
(* event (no records: TLC prints them uniformly, the empty one is {}).     *)
(*                                                                         *)
(*   AllowUnion               leniency (DESIGN C03): with several bases    *)
(*                            carrying mappings the union of all of them   *)
(*                            (over the MRO, nearer wins; or over the      *)
(*                            listed bases, first wins) is accepted besides*)
(*                            "first in MRO", which is what the code does  *)
(*   ComposeBuildsNewMapping  TRUE = as intended and as coded; FALSE = the *)
(*                            in-place variant `events |= ...` (used only  *)
(*                            to show that BasesUntouched can fail)        *)
(***************************************************************************)
EXTENDS Naturals, Sequences, FiniteSets, TLC

CONSTANTS N,        \* number of classes created
          Decos,    \* decorations [names : SUBSET Ev, ren : set of <<event, method>>, defs : methods the class body defines]
          Shapes,   \* hierarchies explored: set of sequences of base tuples (any prefix); {} = every hierarchy
          AllowUnion, ComposeBuildsNewMapping

VARIABLES bases, deco, mro, attr, heap,
          reg,      \* class whose instance sits in the current (fresh) dispatcher, 0 = none
          table,    \* that dispatcher's registrations: set of <<event, method name, class defining the method>>
          log,      \* callbacks run by the last Dispatch: sequence of <<class of the receiver, method name, defining class>>
          call      \* ghost: last call [k, x]

vars == <<bases, deco, mro, attr, heap, reg, table, log, call>>

Ev == {"a", "b", "c"}
Meth == {"a", "b", "c", "alt"}
n == Len(bases)

Range(s) == {s[i] : i \in DOMAIN s}
Min(S) == CHOOSE x \in S : \A y \in S : x <= y
Dom(m) == {p[1] : p \in m}
\* dict union `base | upd`: entries of upd replace those of base for the same key
Over(base, upd) == {p \in base : p[1] \notin Dom(upd)} \cup upd
Decorated(d) == d.names # {} \/ d.ren # {}
\* names first, then the keyword arguments (which win when an event is given both ways)
OwnMap(d) == Over({<<e, e>> : e \in d.names}, d.ren)

(***************************************************************************)
(* C3 linearisation, as Python computes __mro__.  <<0>> marks the          *)
(* hierarchies Python rejects ("Cannot create a consistent MRO").          *)
(***************************************************************************)
RECURSIVE Merge(_)
Merge(ss) ==
    LET ne == SelectSeq(ss, LAMBDA s : s # <<>>) IN
    IF ne = <<>> THEN <<>>
    ELSE LET good == {i \in 1..Len(ne) : \A j \in 1..Len(ne) : Head(ne[i]) \notin Range(Tail(ne[j]))} IN
         IF good = {} THEN <<0>>
         ELSE LET h == Head(ne[Min(good)]) IN
              <<h>> \o Merge([j \in 1..Len(ne) |-> IF Head(ne[j]) = h THEN Tail(ne[j]) ELSE ne[j]])
Linearize(k, bs) == <<k>> \o Merge([i \in 1..Len(bs) |-> mro[bs[i]]] \o <<bs>>)

\* (a constant set, so that TLC labels every Decorate step with its arguments)
BaseTuples == {<<>>} \cup {<<i>> : i \in 1..N} \cup {<<i, j>> : i, j \in 1..N}
ShapeOK(bseq) == Shapes = {} \/ \E s \in Shapes : Len(s) >= Len(bseq) /\ \A i \in 1..Len(bseq) : s[i] = bseq[i]

\* attribute lookup of __events__ along a linearisation: the class that provides it (0 = AttributeError)
Provider(m) == LET idx == {i \in 1..Len(m) : attr[m[i]] # 0} IN IF idx = {} THEN 0 ELSE m[Min(idx)]
DictOf(c) == IF c = 0 THEN {} ELSE heap[attr[c]]
\* cls.__events__ as seen from class k (its effective mapping)
Eff(k) == DictOf(Provider(mro[k]))
\* union of a sequence of mappings, earlier ones win
RECURSIVE UnionSeq(_)
UnionSeq(ms) == IF ms = <<>> THEN {} ELSE Over(UnionSeq(Tail(ms)), Head(ms))
\* the two natural "union" compositions: the dicts found in the namespaces of the classes of a linearisation
\* (nearer wins), or the effective mappings of the listed bases (first listed wins)
OwnDict(c) == IF attr[c] = 0 THEN {} ELSE heap[attr[c]]
UnionMro(m) == UnionSeq([i \in 1..Len(m) |-> OwnDict(m[i])])
UnionBases(bs) == UnionSeq([i \in 1..Len(bs) |-> Eff(bs[i])])
\* the class in the linearisation of k whose body defines method x (what getattr(cls, x) finds), 0 = none
Definer(k, x) == LET idx == {i \in 1..Len(mro[k]) : x \in deco[mro[k][i]].defs} IN
                 IF idx = {} THEN 0 ELSE mro[k][Min(idx)]

Init == /\ bases = <<>> /\ deco = <<>> /\ mro = <<>> /\ attr = <<>> /\ heap = <<>>
        /\ reg = 0 /\ table = {} /\ log = <<>> /\ call = [k |-> "none", x |-> "-"]

Decorate(bs, d) ==
    /\ n < N /\ bs \in BaseTuples /\ Range(bs) \subseteq 1..n /\ d \in Decos /\ ShapeOK(Append(bases, bs))
    /\ LET k == n + 1
           m == Linearize(k, bs) IN
         /\ 0 \notin Range(m) /\ Len(bs) = Cardinality(Range(bs))     \* the rest is rejected by type()
         /\ bases' = Append(bases, bs) /\ deco' = Append(deco, d) /\ mro' = Append(mro, m)
         /\ IF ~Decorated(d)                      \* "ignore empty handlers": the class is returned untouched
            THEN attr' = Append(attr, 0) /\ heap' = Append(heap, {})
            ELSE LET src == Provider(Tail(m)) IN  \* getattr(cls, '__events__', {}) finds a base's dict, or the fresh {}
                 \/ /\ ComposeBuildsNewMapping \/ src = 0
                    /\ attr' = Append(attr, k) /\ heap' = Append(heap, Over(DictOf(src), OwnMap(d)))
                 \/ /\ ~ComposeBuildsNewMapping /\ src # 0      \* the base's dict object is updated and shared
                    /\ attr' = Append(attr, attr[src])
                    /\ heap' = Append([heap EXCEPT ![attr[src]] = Over(@, OwnMap(d))], {})
                 \/ /\ AllowUnion /\ ComposeBuildsNewMapping
                    /\ \E inh \in {UnionMro(Tail(m)), UnionBases(bs)} :
                          attr' = Append(attr, k) /\ heap' = Append(heap, Over(inh, OwnMap(d)))
    /\ reg' = 0 /\ table' = {} /\ log' = <<>> /\ call' = [k |-> "decorate", x |-> "-"]

\* add_handler(instance of class k) on a fresh dispatcher; only handlers (classes with a mapping) are accepted
Register(k) ==
    /\ k \in 1..n /\ log = <<>> /\ Eff(k) # {}
    /\ \A p \in Eff(k) : Definer(k, p[2]) # 0
    /\ reg' = k /\ table' = {<<p[1], p[2], Definer(k, p[2])>> : p \in Eff(k)}
    /\ log' = <<>> /\ call' = [k |-> "register", x |-> "-"]
    /\ UNCHANGED <<bases, deco, mro, attr, heap>>

Dispatch(e) ==
    /\ reg # 0 /\ log = <<>>
    /\ log' = IF \E p \in table : p[1] = e
              THEN LET p == CHOOSE q \in table : q[1] = e IN << <<reg, p[2], p[3]>> >>
              ELSE <<>>
    /\ call' = [k |-> "dispatch", x |-> e]
    /\ UNCHANGED <<bases, deco, mro, attr, heap, reg, table>>

Next == \/ (\E bs \in BaseTuples, d \in Decos : Decorate(bs, d))
        \/ (\E k \in 1..N : Register(k))
        \/ (\E e \in Ev : Dispatch(e))

Spec == Init /\ [][Next]_vars

----------------------------------------------------------------------------
(* Declarative layer                                                       *)

TypeOK == /\ n <= N /\ Len(deco) = n /\ Len(mro) = n /\ Len(attr) = n /\ Len(heap) = n
          /\ \A k \in 1..n : /\ Range(bases[k]) \subseteq 1..(k - 1)
                             /\ Head(mro[k]) = k /\ Range(mro[k]) \subseteq 1..k
                             /\ Eff(k) \subseteq Ev \X Meth
                             /\ \A p, q \in Eff(k) : p[1] = q[1] => p = q

\* every base precedes nothing it derives from, bases keep their order (what makes "first in MRO" meaningful)
MroMonotone == \A k \in 1..n : \A i, j \in 1..Len(mro[k]) :
                   (i < j) => mro[k][i] \notin Range(Tail(mro[mro[k][j]]))

\* the mapping a class inherits: from the nearest class of its linearisation that was decorated ("first in MRO") or,
\* leniently, the union over all of them
NearestDecorated(m) == LET idx == {i \in 1..Len(m) : Decorated(deco[m[i]])} IN IF idx = {} THEN 0 ELSE m[Min(idx)]
InheritedFirst(k) == LET c == NearestDecorated(Tail(mro[k])) IN IF c = 0 THEN {} ELSE Eff(c)
InheritedUnions(k) == LET m == Tail(mro[k]) IN
    {UnionSeq([i \in 1..Len(m) |-> IF Decorated(deco[m[i]]) THEN Eff(m[i]) ELSE {}]),
     UnionSeq([i \in 1..Len(bases[k]) |-> Eff(bases[k][i])])}

\* C03: a class's mapping = what it inherits, extended and overridden by its own names and renames
MappingIsInheritedOverridden ==
    \A k \in 1..n :
        IF Decorated(deco[k])
        THEN \/ Eff(k) = Over(InheritedFirst(k), OwnMap(deco[k]))
             \/ AllowUnion /\ \E inh \in InheritedUnions(k) : Eff(k) = Over(inh, OwnMap(deco[k]))
        ELSE Eff(k) = InheritedFirst(k)

\* C03: ... without altering the bases — no existing class's mapping changes when a later class is decorated
BasesUntouched == [][\A k \in 1..n : Eff(k)' = Eff(k)]_vars

\* C03 (with Dispatcher.tla): the registered instance runs exactly the method its class maps to the event, once,
\* resolved on its own class; an event its class does not map runs nothing
DispatchRunsMappedMethod ==
    call.k = "dispatch" =>
        log = (IF call.x \in Dom(Eff(reg))
               THEN LET x == (CHOOSE p \in Eff(reg) : p[1] = call.x)[2] IN << <<reg, x, Definer(reg, x)>> >>
               ELSE <<>>)
=============================================================================

---------------------------- MODULE EventDecoMC ----------------------------
(* Model-checking instances of EventDeco: named decorations and hierarchy shapes for cfg files. *)
EXTENDS EventDeco

D(names, ren, defs) == [names |-> names, ren |-> ren, defs |-> defs]
\* not decorated, (re)defines method a: overriding a mapped method without touching the mapping
D_plain == D({}, {}, {"a"})
D_ab == D({"a", "b"}, {}, {"a", "b"})
D_balt == D({}, {<<"b", "alt">>}, {"alt"})
\* names and keywords together: b goes to method alt (overrides an inherited b), c is handled by method a as well.
\* No event is given both ways in one decoration: the property does not say which of the two would win.
D_ren == D({"a"}, {<<"b", "alt">>, <<"c", "a">>}, {"a", "alt"})
D_c == D({"c"}, {}, {"c"})

Decos_5 == {D_plain, D_ab, D_balt, D_ren, D_c}
Decos_4 == {D_plain, D_ab, D_ren, D_c}
Decos_3 == {D_plain, D_ab, D_ren}

Shapes_All == {}
\* four classes: chain, diamond (both base orders), subclass of a class with two independent bases,
\* a base listed after its own subclass
Shapes_4 == { << <<>>, <<1>>, <<2>>, <<3>> >>,
              << <<>>, <<1>>, <<1>>, <<2, 3>> >>,
              << <<>>, <<1>>, <<1>>, <<3, 2>> >>,
              << <<>>, <<>>, <<1, 2>>, <<3>> >>,
              << <<>>, <<>>, <<2, 1>>, <<3, 1>> >>,
              << <<>>, <<1>>, <<2, 1>>, <<3>> >> }
Shapes_4few == { << <<>>, <<1>>, <<2>>, <<3>> >>,
                 << <<>>, <<1>>, <<1>>, <<2, 3>> >>,
                 << <<>>, <<>>, <<2, 1>>, <<3, 1>> >>,
                 << <<>>, <<1>>, <<2, 1>>, <<3>> >> }
=============================================================================

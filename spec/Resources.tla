----------------------------- MODULE Resources -----------------------------
(***************************************************************************)
(* desper.model.tree — Handle (caching loader), ResourceMap (tree of maps  *)
(* and handles addressed by '/'-composed keys, handles kept in a ChainMap  *)
(* whose extra layers shadow older handles) and StaticResourceMap (the     *)
(* slotted read-only snapshot built by get_static_map).                    *)
(*                                                                         *)
(* Operational layer (shaped like tree.py): per map `maps[m]` (name ->     *)
(* sub-map) and `layers[m]` (= handles.maps, sequence of name -> handle),  *)
(* back-links `parent`/`key` on every node, per handle `cached` (_cached)  *)
(* and `value` (_cache, as the serial of the load that produced it);       *)
(* the snapshot keeps, per mirrored map, what went into __slots__          *)
(* (`sslot`), into the instance __dict__ (`sdict`) and `_handle_names`     *)
(* (`shn`).  One action per public call; nothing re-enters.                *)
(*                                                                         *)
(* Declarative layer: ghost `abs` (the tree the property talks about:      *)
(* under one map a name denotes one node, the latest assignment wins),     *)
(* ghost `loads` (loads since the last clear), `loadedNow`, and the        *)
(* properties at the end (C11, C12, C17).                                  *)
(*                                                                         *)
(* Deviation switches (TRUE = intended, FALSE = as implemented at 05622c8):*)
(*   ImplicitMapsLinked    D14: maps made for intermediate key parts get   *)
(*                         parent/key                                      *)
(*   ClearAllLayers        D15: clear() empties every ChainMap layer       *)
(*   SetItemPopsAllLayers  D21: a map stored over a name removes the       *)
(*                         name's handle from every layer                  *)
(*   StaticSlotsUnmangled  D22: private-style names (__x) are not declared *)
(*                         as __slots__ (the class body would mangle them) *)
(*   WalkLinksOnlyCreated  D23 (introduced by the first fix of D14): a     *)
(*                         composite key links the maps it creates, it     *)
(*                         does not re-link the existing maps it walks     *)
(*                         through (FALSE: every map on the way is linked  *)
(*                         to the map it was reached from — steals the     *)
(*                         back-link of a map that was moved elsewhere)    *)
(* Non-vacuity switches (no defect behind them; FALSE = a plausible mutant):*)
(*   CacheTestsFlag        __call__ tests the _cached flag, not the value  *)
(*   FlagAfterLoad         __call__ sets _cached after load() returned     *)
(*                         (FALSE: before — a load that raises leaves a    *)
(*                         handle that claims to be cached)                *)
(*   HandleNamesCopied     the snapshot keeps its own copy of the names    *)
(*                         that are handles (FALSE: a live view of the     *)
(*                         map's table — an old snapshot hands out raw     *)
(*                         handles, or calls a sub-snapshot, once the map  *)
(*                         has moved on)                                   *)
(***************************************************************************)
EXTENDS Naturals, Sequences, FiniteSets, TLC

CONSTANTS MapOrder,     \* sequence of map ids (strings); MapOrder[1] is the root the program keeps
          Hd,           \* handle ids (strings)
          Names,        \* path components
          MaxDepth,     \* longest composite key
          MaxLayers,    \* PushLayer bound per map
          MaxGen,       \* loads per handle (monotone counter; bounds ClearHandle)
          Ops,          \* enabled action kinds, see Next
          Builders,     \* maps the program calls __setitem__ / clear on (and adds layers to)
          Receivers,    \* maps the program calls get / [] / get_static_map on
          Phased,       \* BOOLEAN: build the tree first, `Seal`, then only access it
          Resnap,       \* BOOLEAN: the map may change after get_static_map(), which may then be called again
          Staging,      \* BOOLEAN: resources may be moved out of a staging map into the main tree (see SetItem)
          Again,        \* BOOLEAN: resources that are in the tree may be assigned once more (see SetItem)
          KeepSnap,     \* Resnap only: the program keeps (and still reads) an old snapshot through that many changes
                        \* of the tree; with the next change it lets go of it (0: it never looks at an old snapshot)
          KindChoices,  \* set of functions [Hd -> Kinds]: what load() returns
          ClsChoices,   \* set of functions [Names -> NameClasses]: lexical class of each name
          ImplicitMapsLinked, ClearAllLayers, SetItemPopsAllLayers, StaticSlotsUnmangled, CacheTestsFlag,
          WalkLinksOnlyCreated, FlagAfterLoad, HandleNamesCopied

VARIABLES maps, layers, parent, key,          \* ResourceMap tables and back-links
          cached, value, gen, kind,           \* Handle: _cached, _cache (serial), loads so far, value kind (fixed)
          armed,                              \* handles whose next load() raises (once)
          cls,                                \* name -> lexical class (fixed)
          sealed,                             \* Phased only: the build phase is over
          snapRoot, sslot, sdict, shn,        \* the snapshot: mirrored root, slots, instance dict, _handle_names
          sage,                               \* changes of the tree since the snapshot was taken (0: it is fresh)
          smir,                               \* ghost: what each name of each mirrored map denoted when it was taken
          ret,                                \* outcome of the last call <<kind, id, serial>>
          loadedNow,                          \* ghost: handles whose load() ran during the last call
          abs,                                \* ghost: the abstract tree, map -> (name -> <<"h"|"m", node>>)
          stale,                              \* ghost: places <<map, name, node>> a later assignment of node superseded
          loads                               \* ghost: loads since the last clear, per handle

vars == <<maps, layers, parent, key, cached, value, gen, kind, armed, cls, sealed, snapRoot, sslot, sdict, shn, sage,
          smir, ret, loadedNow, abs, stale, loads>>
tree == <<maps, layers, parent, key, abs, stale>>
cache == <<cached, value, gen, loads, armed>>
stabs == <<snapRoot, sslot, sdict, shn, smir>> \* the snapshot object(s): nothing ever changes them
snap == <<stabs, sage>>
fixed == <<kind, cls>>

None == "none"
M == {MapOrder[i] : i \in 1..Len(MapOrder)}
Root == MapOrder[1]
Nodes == M \cup Hd
\* (what load() returns: None, 0, '', [], an object with hostile __bool__ / __eq__, and values of the library's own
\* types - a ResourceMap, a Handle, a World.  No action of the intended model reads it.)
Kinds == {"None", "zero", "str", "list", "weird", "rmap", "handle", "world"}
NameClasses == {"plain", "under", "private", "dunder", "keyword", "const", "nonascii", "space", "dot", "digit"}
IsIdent(c) == c \notin {"space", "dot", "digit"}        \* str.isidentifier()
Mangled(c) == c = "private"                              \* __x inside a class body becomes _Class__x
Paths == UNION {[1..n -> Names] : n \in 1..MaxDepth}

Empty == <<>>
Range(f) == {f[x] : x \in DOMAIN f}
Drop(f, n) == [x \in DOMAIN f \ {n} |-> f[x]]
Put(f, n, v) == (n :> v) @@ f
Front(p) == SubSeq(p, 1, Len(p) - 1)
Last(p) == p[Len(p)]
Absent == <<"absent", "-">>
NoRet == <<"none", "-", 0>>

\* the ChainMap view of a sequence of layers: the first layer that has the name wins
LayerNames(ls) == UNION {DOMAIN ls[i] : i \in DOMAIN ls}
FirstWith(ls, n) == CHOOSE i \in DOMAIN ls : n \in DOMAIN ls[i] /\ \A j \in DOMAIN ls : j < i => n \notin DOMAIN ls[j]
VisOf(ls) == [n \in LayerNames(ls) |-> ls[FirstWith(ls, n)][n]]
Vis(m) == VisOf(layers[m])

HeldIn(mp, ly, n) == \E x \in M : n \in Range(mp[x]) \/ \E i \in DOMAIN ly[x] : n \in Range(ly[x][i])
BlankIn(mp, ly, m) == mp[m] = Empty /\ \A i \in DOMAIN ly[m] : ly[m][i] = Empty
Held(n) == HeldIn(maps, layers, n)
\* tree.py never resets the back-links of a node that drops out of every map (replaced, popped, cleared while
\* shadowed), and nothing can read them through a map before the next assignment overwrites them: the model
\* keeps back-links of held nodes only (the leniency "unreachable nodes may keep stale links", and 14x fewer states)
Forget(f, mp, ly) == [n \in Nodes |-> IF HeldIn(mp, ly, n) THEN f[n] ELSE None]

\* every <<map, name>> under which a node is stored (shadowed layers included)
Places(n) == {pl \in M \X Names :
                \/ pl[2] \in DOMAIN maps[pl[1]] /\ maps[pl[1]][pl[2]] = n
                \/ \E i \in DOMAIN layers[pl[1]] : pl[2] \in DOMAIN layers[pl[1]][i] /\ layers[pl[1]][i][pl[2]] = n}
PlaceIn(mp, ly, t) == \/ t[2] \in DOMAIN mp[t[1]] /\ mp[t[1]][t[2]] = t[3]
                      \/ \E i \in DOMAIN ly[t[1]] : t[2] \in DOMAIN ly[t[1]][i] /\ ly[t[1]][i][t[2]] = t[3]
KeepStale(S, mp, ly) == {t \in S : PlaceIn(mp, ly, t)}

RECURSIVE Closure(_, _)
Closure(S, k) == IF k = 0 THEN S ELSE Closure(S \cup UNION {Range(maps[x]) : x \in S}, k - 1)
Sub(m) == Closure({m}, Len(MapOrder))        \* m and every map below it

Init == /\ maps = [m \in M |-> Empty] /\ layers = [m \in M |-> <<Empty>>]
        /\ parent = [n \in Nodes |-> None] /\ key = [n \in Nodes |-> None]
        /\ cached = [h \in Hd |-> FALSE] /\ value = [h \in Hd |-> 0] /\ gen = [h \in Hd |-> 0]
        /\ kind \in KindChoices /\ cls \in ClsChoices /\ armed = {}
        /\ sealed = FALSE /\ snapRoot = None
        /\ sslot = [m \in M |-> Empty] /\ sdict = [m \in M |-> Empty] /\ shn = [m \in M |-> {}] /\ sage = 0
        /\ smir = [m \in M |-> [n \in Names |-> Absent]]
        /\ ret = NoRet /\ loadedNow = {}
        /\ abs = [m \in M |-> Empty] /\ stale = {} /\ loads = [h \in Hd |-> 0]

\* the tree is not changed once it is sealed; nor once it is mirrored, unless Resnap.  A snapshot is a frozen mirror:
\* the program may keep reading the one it has while the map moves on (through KeepSnap changes, an exploration
\* bound: with the next one it lets go of it), and it answers as on the day it was taken
Mutable == ~sealed /\ (Resnap \/ snapRoot = None)
DropSnap == /\ snapRoot' = None /\ shn' = [m \in M |-> {}] /\ sage' = 0
            /\ sslot' = [m \in M |-> Empty] /\ sdict' = [m \in M |-> Empty]
            /\ smir' = [m \in M |-> [n \in Names |-> Absent]]
AgeSnap == IF snapRoot # None /\ sage < KeepSnap THEN sage' = sage + 1 /\ UNCHANGED stabs ELSE DropSnap
Usable == Phased => sealed

----------------------------------------------------------------------------
(* ResourceMap.__setitem__                                                 *)

\* handles.pop(name, None): ChainMap.pop only looks at the first layer (D21)
PopHandle(ly, m, n) ==
    [ly EXCEPT ![m] = [i \in DOMAIN @ |-> IF i = 1 \/ SetItemPopsAllLayers THEN Drop(@[i], n) ELSE @[i]]]

\* `ResourceMap()` made by setdefault: a pool id that denotes no live object — not held by any map,
\* without content, and not one of the objects taking part in this call.  Least such id, "none" if the
\* pool is exhausted (the call is then outside the bounds).
Fresh(t, avoid) ==
    LET ok == {i \in 2..Len(MapOrder) : /\ MapOrder[i] \notin avoid
                                        /\ ~HeldIn(t.mp, t.ly, MapOrder[i])
                                        /\ BlankIn(t.mp, t.ly, MapOrder[i])}
    IN IF ok = {} THEN None ELSE MapOrder[CHOOSE i \in ok : \A j \in ok : i <= j]

\* for subkey in keys[:-1]: target.handles.pop(subkey, None); target = target.maps.setdefault(subkey, ResourceMap())
\* t = tables [mp, ly, pa, ky, ab]; cur = target_map; acur = the same walk on the abstract tree
RECURSIVE Walk(_, _, _, _, _)
Walk(t, cur, acur, p, avoid) ==
    IF p = <<>> \/ cur = None THEN [t |-> t, tgt |-> cur, atgt |-> acur]
    ELSE LET k == Head(p)
             ly1 == PopHandle(t.ly, cur, k)
             f == IF k \in DOMAIN t.mp[cur] THEN None ELSE Fresh(t, avoid)
             nxt == IF k \in DOMAIN t.mp[cur] THEN t.mp[cur][k] ELSE f
             \* abstract: descend when the name denotes a map, otherwise a new empty map replaces what was there
             adesc == k \in DOMAIN t.ab[acur] /\ t.ab[acur][k][1] = "m"
             anxt == IF adesc THEN t.ab[acur][k][2] ELSE nxt
             ab1 == IF adesc THEN t.ab
                    ELSE [t.ab EXCEPT ![acur] = Put(@, k, <<"m", nxt>>), ![nxt] = Empty]
         IN IF nxt = None THEN [t |-> t, tgt |-> None, atgt |-> None]
            ELSE IF f = None
            THEN Walk([t EXCEPT !.ly = ly1, !.ab = ab1,
                               !.pa = IF WalkLinksOnlyCreated THEN @ ELSE [@ EXCEPT ![nxt] = cur],
                               !.ky = IF WalkLinksOnlyCreated THEN @ ELSE [@ EXCEPT ![nxt] = k]],
                      nxt, anxt, Tail(p), avoid)
            ELSE Walk([mp |-> [t.mp EXCEPT ![cur] = Put(@, k, f)],
                       ly |-> [ly1 EXCEPT ![f] = <<Empty>>],
                       pa |-> [t.pa EXCEPT ![f] = IF ImplicitMapsLinked THEN cur ELSE None],
                       ky |-> [t.ky EXCEPT ![f] = IF ImplicitMapsLinked THEN k ELSE None],
                       ab |-> ab1], nxt, anxt, Tail(p), avoid)

Moved(m, node) == /\ Staging /\ m \in Sub(Root) /\ Cardinality(Places(node)) = 1
                  /\ \A pl \in Places(node) : pl[1] # Root /\ ~Held(pl[1])

SetItem(m, p, node) ==
    /\ "set" \in Ops /\ Mutable /\ m \in Builders
    \* generated domain: the assignment creates no cycle, and the value is
    \*  (free)  an object that is not in any map right now (one parent pointer cannot describe two places), or
    \*  (moved) with Staging, a direct child of a staging map (a root-level map outside the main tree) that is moved
    \*          into the main tree: it then sits in two maps, its back-links follow the latest assignment, the place
    \*          in the staging map becomes `stale`, or
    \*  (again) with Again, an object the assignment leaves in one place: stored once more under the path where it
    \*          is already (nothing changes, its back-links included), or below a key part that evicts it from where
    \*          it was.
    \* No node is ever twice inside one tree: a map with stale places below it is not assigned anywhere.
    /\ node # Root /\ node # m /\ (node \in M => m \notin Sub(node))
    /\ (node \in M => \A t \in stale : t[1] \notin Sub(node))
    \* (IF, not \/: TLC would follow every true disjunct of an action and produce the same successor again)
    /\ IF Held(node) /\ ~Again THEN Moved(m, node) ELSE TRUE      \* (cheap: spares the walk)
    /\ LET w == Walk([mp |-> maps, ly |-> layers, pa |-> parent, ky |-> key, ab |-> abs], m, m, Front(p), {m, node})
           t == w.t
           tg == w.tgt
           l == Last(p)
           \* map: other_map.pop(last_key, None); dest_map[last_key] = value.  handle: the ChainMap writes its first layer
           mp2 == IF node \in M THEN [t.mp EXCEPT ![tg] = Put(@, l, node)] ELSE [t.mp EXCEPT ![tg] = Drop(@, l)]
           ly2 == IF node \in M THEN PopHandle(t.ly, tg, l) ELSE [t.ly EXCEPT ![tg][1] = Put(@, l, node)]
       IN /\ tg # None
          /\ (node \in M => tg \notin Sub(node))
          /\ IF ~Held(node) THEN TRUE ELSE IF Moved(m, node) THEN TRUE
             ELSE Again /\ \A pl \in M \X Names : PlaceIn(mp2, ly2, <<pl[1], pl[2], node>>) =>
                                                     pl = <<tg, l>> \/ <<pl[1], pl[2], node>> \in stale
          /\ maps' = mp2 /\ layers' = ly2
          /\ parent' = Forget([t.pa EXCEPT ![node] = tg], mp2, ly2)
          /\ key' = Forget([t.ky EXCEPT ![node] = l], mp2, ly2)
          /\ abs' = [t.ab EXCEPT ![w.atgt] = Put(@, l, <<IF node \in M THEN "m" ELSE "h", node>>)]
          /\ stale' = KeepStale((stale \cup {<<pl[1], pl[2], node>> : pl \in Places(node)}) \ {<<tg, l, node>>}, mp2, ly2)
    /\ ret' = NoRet /\ loadedNow' = {}
    /\ AgeSnap /\ UNCHANGED <<cache, fixed, sealed>>

\* what DirectoryResourcePopulator does for nest_on_conflict: handles.maps.insert(0, {})
PushLayer(m) ==
    /\ "push" \in Ops /\ Mutable /\ m \in Builders /\ Len(layers[m]) < MaxLayers
    /\ layers' = [layers EXCEPT ![m] = <<Empty>> \o @]
    /\ ret' = NoRet /\ loadedNow' = {}
    /\ AgeSnap /\ UNCHANGED <<maps, parent, key, abs, stale, cache, fixed, sealed>>

\* ResourceMap.clear: children whose parent is this map are detached, then both tables are emptied
Clear(m) ==
    /\ "clear" \in Ops /\ Mutable /\ m \in Builders
    /\ LET hs == IF ClearAllLayers THEN UNION {Range(layers[m][i]) : i \in DOMAIN layers[m]} ELSE Range(Vis(m))
           gone == {n \in hs \cup Range(maps[m]) : parent[n] = m}
           mp2 == [maps EXCEPT ![m] = Empty]
           ly2 == [layers EXCEPT ![m] = [i \in DOMAIN @ |-> IF i = 1 \/ ClearAllLayers THEN Empty ELSE @[i]]]
       IN /\ maps' = mp2 /\ layers' = ly2
          \* every node that drops out of m here is in `gone` (no Forget needed) — except one that was moved elsewhere
          \* and lost that place again: it drops out of every map with a link nobody reads
          /\ LET lost == {t[3] : t \in {u \in stale : u[1] = m}}
                 F(f) == [n \in Nodes |-> IF n \in gone \/ (n \in lost /\ ~HeldIn(mp2, ly2, n)) THEN None ELSE f[n]]
             IN parent' = F(parent) /\ key' = F(key)
    /\ abs' = [abs EXCEPT ![m] = Empty]
    /\ stale' = {t \in stale : t[1] # m}
    /\ ret' = NoRet /\ loadedNow' = {}
    /\ AgeSnap /\ UNCHANGED <<cache, fixed, sealed>>

Seal == /\ Phased /\ ~sealed /\ sealed' = TRUE
        /\ ret' = NoRet /\ loadedNow' = {}
        /\ UNCHANGED <<tree, cache, fixed, snap>>

----------------------------------------------------------------------------
(* Handle.__call__ / clear                                                 *)

NeedLoad(h) == IF CacheTestsFlag THEN ~cached[h] ELSE ~cached[h] \/ kind[h] = "None"

\* handle(): load when the flag is unset, return the stored object.  A load() that raises (armed) propagates and
\* leaves the handle as it was: not cached, the next access loads.
Access(h) ==
    IF NeedLoad(h) /\ h \in armed
    THEN /\ armed' = armed \ {h} /\ loadedNow' = {} /\ ret' = <<"exc", "LoadFault", 0>>
         /\ cached' = IF FlagAfterLoad THEN cached ELSE [cached EXCEPT ![h] = TRUE]
         /\ UNCHANGED <<value, gen, loads>>
    ELSE IF NeedLoad(h)
    THEN /\ gen' = [gen EXCEPT ![h] = @ + 1] /\ value' = [value EXCEPT ![h] = gen[h] + 1]
         /\ cached' = [cached EXCEPT ![h] = TRUE] /\ loads' = [loads EXCEPT ![h] = @ + 1]
         /\ loadedNow' = {h} /\ ret' = <<"val", h, gen[h] + 1>> /\ UNCHANGED armed
    ELSE /\ UNCHANGED cache /\ loadedNow' = {} /\ ret' = <<"val", h, value[h]>>

\* the harness makes the next load() of h fail (only interesting while the next access would load)
ArmFault(h) == /\ "fault" \in Ops /\ Usable /\ h \notin armed /\ ~cached[h]
               /\ armed' = armed \cup {h} /\ ret' = NoRet /\ loadedNow' = {}
               /\ UNCHANGED <<cached, value, gen, loads, tree, fixed, sealed, snap>>

Plain(r) == /\ ret' = r /\ loadedNow' = {} /\ UNCHANGED cache

Call(h) == /\ "call" \in Ops /\ Usable /\ Access(h)
           /\ UNCHANGED <<tree, fixed, sealed, snap>>

ClearHandle(h) ==
    /\ "hclear" \in Ops /\ Usable /\ gen[h] < MaxGen
    /\ cached' = [cached EXCEPT ![h] = FALSE] /\ value' = [value EXCEPT ![h] = 0]
    /\ loads' = [loads EXCEPT ![h] = 0] /\ UNCHANGED <<gen, armed>>
    /\ ret' = NoRet /\ loadedNow' = {}
    /\ UNCHANGED <<tree, fixed, sealed, snap>>

----------------------------------------------------------------------------
(* ResourceMap.get / __getitem__ (the lookup code is written twice in      *)
(* tree.py, so it is written twice here)                                   *)

RECURSIVE WalkMaps(_, _)
WalkMaps(m, p) == IF p = <<>> THEN m
                  ELSE IF Head(p) \in DOMAIN maps[m] THEN WalkMaps(maps[m][Head(p)], Tail(p)) ELSE None

GetDen(m, p) ==
    LET t == WalkMaps(m, Front(p))
        l == Last(p)
    IN IF t = None THEN Absent                                  \* except KeyError: return default
       ELSE IF l \in DOMAIN Vis(t) THEN <<"h", Vis(t)[l]>>
       ELSE IF l \in DOMAIN maps[t] THEN <<"m", maps[t][l]>> ELSE Absent

ItemDen(m, p) ==
    LET t == WalkMaps(m, Front(p))
        l == Last(p)
    IN IF t = None THEN Absent                                  \* KeyError propagates
       ELSE IF l \in LayerNames(layers[t]) THEN <<"h", VisOf(layers[t])[l]>>
       ELSE IF l \in DOMAIN maps[t] THEN <<"m", maps[t][l]>> ELSE Absent

\* m[a][b][c]: every step is a plain-key __getitem__; indexing a loaded value is an error of some kind
RECURSIVE ChainDen(_, _)
ChainDen(m, p) ==
    LET r == ItemDen(m, <<Head(p)>>)
    IN IF Len(p) = 1 THEN r
       ELSE IF r[1] = "m" THEN ChainDen(r[2], Tail(p)) ELSE Absent

Get(m, p) ==
    /\ "get" \in Ops /\ Usable /\ m \in Receivers
    /\ LET d == GetDen(m, p) IN
       Plain(IF d[1] = "h" THEN <<"handle", d[2], 0>> ELSE IF d[1] = "m" THEN <<"map", d[2], 0>> ELSE <<"default", "-", 0>>)
    /\ UNCHANGED <<tree, fixed, sealed, snap>>

GetItem(m, p) ==
    /\ "item" \in Ops /\ Usable /\ m \in Receivers
    /\ LET d == ItemDen(m, p) IN
       IF d[1] = "h" THEN Access(d[2])
       ELSE Plain(IF d[1] = "m" THEN <<"map", d[2], 0>> ELSE <<"exc", "KeyError", 0>>)
    /\ UNCHANGED <<tree, fixed, sealed, snap>>

----------------------------------------------------------------------------
(* ResourceMap.get_static_map and StaticResourceMap                        *)

AllNames(x) == DOMAIN Vis(x) \cup DOMAIN maps[x]
\* names declared in __slots__ of the generated class
SlotNames(x) == {n \in AllNames(x) : IsIdent(cls[n]) /\ (StaticSlotsUnmangled => ~Mangled(cls[n]))}
HasDict(x) == Cardinality(SlotNames(x)) < Cardinality(DOMAIN Vis(x)) + Cardinality(DOMAIN maps[x])
\* object.__setattr__(subself, n, v) finds a slot of that name (a mangled slot has another name) or a __dict__
InSlot(x, n) == n \in SlotNames(x) /\ ~Mangled(cls[n])
Storable(x, n) == InSlot(x, n) \/ HasDict(x)
\* handles are stored first, sub-snapshots afterwards
Entry(x, n) == IF n \in DOMAIN maps[x] THEN <<"m", maps[x][n]>> ELSE <<"h", Vis(x)[n]>>

Snapshot(m) ==
    /\ "snap" \in Ops /\ Usable /\ m \in Receivers /\ (Resnap \/ snapRoot = None)
    /\ IF \A x \in Sub(m) : \A n \in AllNames(x) : Storable(x, n)
       THEN /\ snapRoot' = m
            /\ sslot' = [x \in M |-> IF x \in Sub(m) THEN [n \in {n \in AllNames(x) : InSlot(x, n)} |-> Entry(x, n)] ELSE Empty]
            /\ sdict' = [x \in M |-> IF x \in Sub(m) THEN [n \in {n \in AllNames(x) : ~InSlot(x, n)} |-> Entry(x, n)] ELSE Empty]
            /\ shn' = [x \in M |-> IF x \in Sub(m) THEN DOMAIN Vis(x) ELSE {}] /\ sage' = 0
            /\ smir' = [x \in M |-> [n \in Names |-> IF x \in Sub(m) THEN GetDen(x, <<n>>) ELSE Absent]]
            /\ Plain(<<"snap", m, 0>>)
       ELSE /\ Plain(<<"exc", "AttributeError", 0>>) /\ UNCHANGED snap
    /\ UNCHANGED <<tree, fixed, sealed>>

\* the nodes of the snapshot, by its own tables (the map may have moved on); node x mirrors what map x was
SSubs(x) == {e[2] : e \in {e \in Range(sslot[x]) \cup Range(sdict[x]) : e[1] = "m"}}
RECURSIVE SClosure(_, _)
SClosure(S, k) == IF k = 0 THEN S ELSE SClosure(S \cup UNION {SSubs(x) : x \in S}, k - 1)
SnapNodes == IF snapRoot = None THEN {} ELSE SClosure({snapRoot}, Len(MapOrder))
\* object.__getattribute__(self, n)
SLookup(x, n) == IF n \in DOMAIN sslot[x] THEN sslot[x][n]
                 ELSE IF n \in DOMAIN sdict[x] THEN sdict[x][n] ELSE Absent

\* __getattribute__ (and __getitem__, which is getattr): names in _handle_names are called
SRead(x, n) ==
    LET d == SLookup(x, n)
        hn == IF HandleNamesCopied THEN shn[x] ELSE DOMAIN Vis(x)
    IN IF n \in hn /\ d[1] = "h" THEN Access(d[2])
       ELSE IF n \in hn /\ d[1] = "m" THEN Plain(<<"exc", "TypeError", 0>>)          \* (a sub-snapshot is not callable)
       ELSE Plain(IF d[1] = "m" THEN <<"snap", d[2], 0>>
                  ELSE IF d[1] = "h" THEN <<"handle", d[2], 0>>                      \* (never, while shn is right)
                  ELSE <<"exc", "AttributeError", 0>>)

SAttr(x, n) == /\ "sattr" \in Ops /\ x \in SnapNodes /\ IsIdent(cls[n])      \* attribute syntax needs an identifier
               /\ SRead(x, n) /\ UNCHANGED <<tree, fixed, sealed, snap>>
SItem(x, n) == /\ "sitem" \in Ops /\ x \in SnapNodes
               /\ SRead(x, n) /\ UNCHANGED <<tree, fixed, sealed, snap>>
SGet(x, n) ==
    /\ "sget" \in Ops /\ x \in SnapNodes
    /\ LET d == SLookup(x, n) IN
       Plain(IF d[1] = "h" THEN <<"handle", d[2], 0>> ELSE IF d[1] = "m" THEN <<"snap", d[2], 0>>
             ELSE <<"exc", "AttributeError", 0>>)
    /\ UNCHANGED <<tree, fixed, sealed, snap>>
\* __setattr__ / __delattr__ always raise
SSetAttr(x, n) == /\ "smut" \in Ops /\ x \in SnapNodes /\ Plain(<<"exc", "ValueError", 0>>)
                  /\ UNCHANGED <<tree, fixed, sealed, snap>>
SDelAttr(x, n) == /\ "smut" \in Ops /\ x \in SnapNodes /\ Plain(<<"exc", "ValueError", 0>>)
                  /\ UNCHANGED <<tree, fixed, sealed, snap>>

----------------------------------------------------------------------------
Next == \/ (\E n \in Nodes \ {Root}, m \in Builders, p \in Paths : SetItem(m, p, n))
        \/ (\E m \in M : PushLayer(m) \/ Clear(m) \/ Snapshot(m))
        \/ Seal
        \/ (\E h \in Hd : Call(h) \/ ClearHandle(h) \/ ArmFault(h))
        \/ (\E m \in M, p \in Paths : Get(m, p) \/ GetItem(m, p))
        \/ (\E x \in M, n \in Names : SAttr(x, n) \/ SItem(x, n) \/ SGet(x, n) \/ SSetAttr(x, n) \/ SDelAttr(x, n))

Spec == Init /\ [][Next]_vars

----------------------------------------------------------------------------
(* Declarative layer                                                       *)

TypeOK == /\ \A n \in Nodes : Held(n) \/ (parent[n] = None /\ key[n] = None)
          /\ \A m \in M : DOMAIN maps[m] \subseteq Names /\ Range(maps[m]) \subseteq M \ {Root}
          /\ \A m \in M : Len(layers[m]) \in 1..MaxLayers
                          /\ \A i \in DOMAIN layers[m] : DOMAIN layers[m][i] \subseteq Names /\ Range(layers[m][i]) \subseteq Hd
          /\ \A n \in Nodes : parent[n] \in M \cup {None} /\ key[n] \in Names \cup {None}
          /\ \A h \in Hd : gen[h] <= MaxGen /\ value[h] <= gen[h]

\* ---- C11 ----
\* what a path denotes in the abstract tree
RECURSIVE AbsDen(_, _)
AbsDen(m, p) ==
    IF Head(p) \notin DOMAIN abs[m] THEN Absent
    ELSE IF Len(p) = 1 THEN abs[m][Head(p)]
    ELSE IF abs[m][Head(p)][1] = "m" THEN AbsDen(abs[m][Head(p)][2], Tail(p)) ELSE Absent

\* m['a/b/c'], m['a']['b']['c'] and m.get('a/b/c') walk to the same node
PathEquivalence == \A m \in M, p \in Paths : ItemDen(m, p) = ChainDen(m, p) /\ ItemDen(m, p) = GetDen(m, p)
\* get returns its default exactly when [] raises KeyError
DefaultIffKeyError == \A m \in M, p \in Paths : (GetDen(m, p) = Absent) <=> (ItemDen(m, p) = Absent)
\* under one map a name is a handle or a sub-map, never both
HandleXorMap == \A m \in M : DOMAIN Vis(m) \cap DOMAIN maps[m] = {}
\* ... and it is the one assigned last (whole subtrees replaced)
LatestWins == \A m \in M, p \in Paths : GetDen(m, p) = AbsDen(m, p)
\* every node reachable as (m, name) records m and name — implicit maps included; a place a later assignment
\* superseded is exempt (the node records the later one) ...
Linked(m, n, c) == <<m, n, c>> \in stale \/ (parent[c] = m /\ key[c] = n)
BackLinks == \A m \in M : /\ \A n \in DOMAIN maps[m] : Linked(m, n, maps[m][n])
                          /\ \A n \in DOMAIN Vis(m) : Linked(m, n, Vis(m)[n])
\* ... and no place in the main tree ever is
RootBackLinks == \A m \in Sub(Root) : /\ \A n \in DOMAIN maps[m] : parent[maps[m][n]] = m /\ key[maps[m][n]] = n
                                      /\ \A n \in DOMAIN Vis(m) : parent[Vis(m)[n]] = m /\ key[Vis(m)[n]] = n
\* apart from stale places no node is in two places (sanity of the generated domain)
OnePlace == /\ \A n \in Nodes : Cardinality({pl \in Places(n) : <<pl[1], pl[2], n>> \notin stale}) <= 1
            /\ \A t \in stale : PlaceIn(maps, layers, t) /\ t[1] \notin Sub(Root)
\* clear() leaves nothing reachable and detaches the former direct children
ClearDetaches ==
    [][\A m \in M : Clear(m) =>
         /\ \A p \in Paths : GetDen(m, p)' = Absent /\ ItemDen(m, p)' = Absent
         /\ maps'[m] = Empty /\ \A i \in DOMAIN layers'[m] : layers'[m][i] = Empty
         \* (a child that was moved elsewhere in the meantime is no longer this map's to detach)
         /\ \A c \in Range(maps[m]) \cup Range(Vis(m)) :
               IF \E n \in Names : <<m, n, c>> \in stale
               THEN (parent'[c] = parent[c] /\ key'[c] = key[c]) \/ ~HeldIn(maps', layers', c)
               ELSE parent'[c] = None /\ key'[c] = None]_vars

\* ---- C12 ----
AtMostOneLoad == \A h \in Hd : loads[h] <= 1
CachedTellsTruth == \A h \in Hd : cached[h] <=> loads[h] = 1
\* an access returns the object of the one load since the last clear: it loads exactly when not cached,
\* and otherwise hands out the serial that is stored
SameObject ==
    [][\A h \in Hd : /\ (h \in loadedNow' <=> loads'[h] = loads[h] + 1)
                     /\ (h \in loadedNow' => ~cached[h])
                     /\ (ret' = <<"exc", "LoadFault", 0>> => UNCHANGED <<cached, value, loads>>)
                     /\ (ret'[1] = "val" /\ ret'[2] = h => /\ (h \in loadedNow' <=> ~cached[h])
                                                           /\ ret'[3] = value'[h] /\ cached'[h]
                                                           /\ (cached[h] => ret'[3] = value[h]))]_vars
\* the object changes only through clear
ValueStable == [][\A h \in Hd : (cached[h] /\ cached'[h]) => value'[h] = value[h]]_vars

\* ---- C17 ----
\* the ghost is right: a snapshot just taken is taken of the map as it is
FreshMirror == sage = 0 => \A x \in SnapNodes, n \in Names : smir[x][n] = GetDen(x, <<n>>)
\* same tree, same handle objects; names absent from the map are absent from the snapshot — the map as it was when
\* the snapshot was taken: the snapshot is a frozen mirror, whatever happens to the map afterwards
MirrorsMap ==
    \A x \in SnapNodes : /\ \A n \in Names : SLookup(x, n) = smir[x][n]
                         /\ shn[x] = {n \in Names : smir[x][n][1] = "h"}
                         /\ DOMAIN sslot[x] \cap DOMAIN sdict[x] = {}
StaysAsTaken == [][sage' > 0 => UNCHANGED stabs]_vars
\* every consistent tree can be mirrored
SnapshotSucceeds == [][\A m \in M : Snapshot(m) => ret'[1] = "snap"]_vars
\* item / attribute access yield the resource the map itself yields (yielded, for an old snapshot): handle() of the
\* same handle
SnapshotReadsThrough ==
    [][\A x \in M, n \in Names : (SItem(x, n) \/ SAttr(x, n)) =>
          LET d == smir[x][n] IN
          CASE d[1] = "h" -> (ret'[1] = "val" /\ ret'[2] = d[2]) \/ ret' = <<"exc", "LoadFault", 0>>
            [] d[1] = "m" -> ret' = <<"snap", d[2], 0>>
            [] OTHER -> ret'[1] = "exc"]_vars
MutationRaisesAndChangesNothing ==
    [][\A x \in M, n \in Names : (SSetAttr(x, n) \/ SDelAttr(x, n)) =>
          ret'[1] = "exc" /\ UNCHANGED <<tree, cache, snap>>]_vars
=============================================================================

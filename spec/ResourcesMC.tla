---------------------------- MODULE ResourcesMC ----------------------------
(* Model-checking instances of Resources: named choice sets for cfg files. *)
EXTENDS Resources

Fn(S, seq, vals) == [x \in S |-> vals[CHOOSE i \in 1..Len(seq) : seq[i] = x]]
MapOrder2 == <<"m0", "m1">>
MapOrder3 == <<"m0", "m1", "m2">>
MapOrder4 == <<"m0", "m1", "m2", "m3">>
HdSeq == <<"h1", "h2", "h3">>
NmSeq == <<"a", "b">>
KindOf(vals) == Fn(Hd, HdSeq, vals)
ClsOf(vals) == Fn(Names, NmSeq, vals)

\* what load() returns, per handle
Kinds_One == {KindOf(<<"None", "weird", "zero">>)}
Kinds_Few == {KindOf(<<"None", "weird", "list">>), KindOf(<<"zero", "None", "str">>), KindOf(<<"list", "str", "weird">>)}
Kinds_All == [Hd -> Kinds]

\* lexical class of the names "a", "b"
Cls_Plain == {ClsOf(<<"plain", "plain">>)}
\* every class at least once, next to an identifier and next to a non-identifier (the __dict__ branch)
Cls_Mix == {ClsOf(<<"plain", "under">>), ClsOf(<<"private", "plain">>), ClsOf(<<"private", "space">>),
            ClsOf(<<"dunder", "private">>), ClsOf(<<"keyword", "const">>), ClsOf(<<"nonascii", "dot">>),
            ClsOf(<<"space", "digit">>), ClsOf(<<"digit", "plain">>), ClsOf(<<"dot", "keyword">>)}
Cls_Two == {ClsOf(<<"plain", "under">>), ClsOf(<<"private", "space">>)}
Cls_Private == {ClsOf(<<"private", "plain">>), ClsOf(<<"private", "space">>)}
Cls_All == [Names -> NameClasses]

Ops_Tree == {"set", "clear", "push"}
Ops_Cache == {"set", "push", "call", "hclear", "item", "snap", "sattr", "sitem", "sget"}
Ops_Static == {"set", "push", "hclear", "snap", "sattr", "sitem", "sget", "smut"}
Ops_All == {"set", "clear", "push", "call", "hclear", "get", "item", "snap", "sattr", "sitem", "sget", "smut"}
=============================================================================

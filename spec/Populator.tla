----------------------------- MODULE Populator -----------------------------
(***************************************************************************)
(* desper.model.DirectoryResourcePopulator filling a ResourceMap (C16).    *)
(*                                                                         *)
(* A behaviour: Init picks a *scenario* (directory trees, constructor      *)
(* options, one to three populate calls of the same populator, each with   *)
(* the rules added before it, its per-call options, the tree it reads -    *)
(* `root` may be given per call: a base tree, then an overlay - and whether*)
(* it fills the same map or a new one); Call(c) is one                     *)
(* `populator(resource_map,...)` computed the way __call__ does it.  The   *)
(* populator itself has no state besides its rules: an option given to one *)
(* call must not leak into the next (CallNest / CallTrim read the scenario *)
(* only).                                                                  *)
(* A name may be a file in the tree of an earlier call and a directory in  *)
(* the tree of a later one: the directory on the way to an accepted file   *)
(* is a sub-map, whatever handles held its key (in whichever layer) are    *)
(* overwritten by it (ResourceMap.__setitem__).                            *)
(*                                                                         *)
(* Operational layer (shaped like desper/model/__init__.py:136-183 over    *)
(* the tables of desper/model/tree.py): `maps` = the sub-maps reachable    *)
(* from the root by key path, `layers[m]` = handles.maps of map m (the     *)
(* ChainMap: a sequence of key -> handle, first = visible), `made` = the   *)
(* factory invocations of the last call, `exc` = its outcome.              *)
(* Declarative layer: everything below "What the property states" is       *)
(* computed from the scenario and the number of calls done only.           *)
(*                                                                         *)
(* Names are sequences of dot-separated parts (<<"y","tar","gz">> is       *)
(* y.tar.gz), paths sequences of names relative to the populator's root.   *)
(*                                                                         *)
(* Visit order.  glob's order is file-system dependent.  What can be       *)
(* observed of it is the relative order of files whose keys coincide       *)
(* (x.txt / x.png under trim_extensions): the specification chooses that   *)
(* order (all permutations), visits directories first and clash groups     *)
(* contiguously.  Per key, the stack of handles from the visible one down  *)
(* (the key's column) does not depend on anything else; the raw layer split *)
(* does, and is not compared.                                              *)
(*                                                                         *)
(* Deviation switches (TRUE = intended, FALSE = as implemented at 05622c8):*)
(*   NotADirValueError  D18: a rule path that exists and is not a directory *)
(*                      (regular file, special file such as a FIFO) raises *)
(*                      ValueError (the code raised NameError)             *)
(*   NoNestDropsOlder   without nesting the new handle replaces the one    *)
(*                      that held the key, whichever layer holds it (the   *)
(*                      code writes layer 0 only: an older handle living   *)
(*                      in a deeper layer stays retrievable beneath)       *)
(***************************************************************************)
EXTENDS Naturals, Sequences, FiniteSets, TLC

CONSTANTS Scenarios,          \* sequence of sets of scenario records, see PopulatorMC
          NotADirValueError, NoNestDropsOlder

VARIABLES sc,        \* the scenario (never changes)
          k,         \* populate calls done
          maps,      \* key paths of the sub-maps (<<>> = the map being populated)
          layers,    \* map path -> sequence of layers, each a function key -> handle
          made,      \* factory invocations of the last call: [c, r, p, f, a]
          exc,       \* "ok" | "ValueError" | "NameError": outcome of the last call
          reqMaps, okMaps   \* ghosts: directories that must / may be sub-maps (for the binding)
vars == <<sc, k, maps, layers, made, exc, reqMaps, okMaps>>

Front(s) == SubSeq(s, 1, Len(s) - 1)
Last(s) == s[Len(s)]
Rev(s) == [i \in 1..Len(s) |-> s[Len(s) + 1 - i]]
Prefixes(p) == {SubSeq(p, 1, n) : n \in 0..Len(p)}              \* from the root <<>> to p itself
Under(d, p) == Len(p) >= Len(d) /\ SubSeq(p, 1, Len(d)) = d     \* d itself included, as glob('d/**') does
RECURSIVE SeqsOf(_)
SeqsOf(S) == IF S = {} THEN {<<>>} ELSE UNION {{<<x>> \o s : s \in SeqsOf(S \ {x})} : x \in S}

(***************************************************************************)
(* The file tree and the populator's configuration                         *)
(***************************************************************************)
Calls == 1..Len(sc.calls)
TreeOf(c) == sc.trees[sc.calls[c].root]      \* the tree call c reads (its `root`)
Files(c) == TreeOf(c).files                  \* regular files
Dirs(c) == TreeOf(c).dirs                    \* directories, empty ones included
Specials(c) == TreeOf(c).specials            \* exist, neither directory nor regular file (FIFOs, dangling links)
Kind(c, p) == IF p \in Files(c) THEN "file" ELSE IF p \in Dirs(c) THEN "dir"
              ELSE IF p \in Specials(c) THEN "special" ELSE "none"
AllFiles == UNION {sc.trees[t].files : t \in DOMAIN sc.trees}

Ext(name) == IF Len(name) > 1 THEN Last(name) ELSE ""           \* os.path.splitext: from the last dot
KeyName(name, trim) == IF trim /\ Len(name) > 1 THEN Front(name) ELSE name
KeyPath(p, trim) == Front(p) \o <<KeyName(Last(p), trim)>>      \* key of the *file* p

Eff(o, dflt) == IF o = "N" THEN dflt ELSE o = "T"               \* None falls back to the constructor's value
CallNest(c) == Eff(sc.calls[c].n, sc.cn)
CallTrim(c) == Eff(sc.calls[c].t, sc.ct)
\* the populator outlives its maps: the calls listed in sc.fresh populate a new, empty map
Since(n) == LET F == {c \in sc.fresh : c <= n} IN
            IF F = {} THEN 1 ELSE CHOOSE c \in F : \A d \in F : d <= c    \* first call on the current map
RECURSIVE RulesAt(_)
RulesAt(c) == IF c = 0 THEN <<>> ELSE RulesAt(c - 1) \o sc.calls[c].add    \* add_rule appends

\* Outside the generated domain (DESIGN C16, Lenient): within one tree a trimmed file key that is also a
\* directory; from an earlier call's tree to a later one's a directory that becomes a file key (the sub-map and
\* what was reachable through it would go), and a file key that becomes a directory from which the later call
\* takes no file (the statement does not say whether such a directory appears, hence not whether the handle goes).
\* A file key that becomes a directory ON THE WAY TO AN ACCEPTED FILE is inside the domain.  ReqOf is defined below.
TreeOK(t) == /\ t.files \cap t.dirs = {} /\ <<>> \notin t.files \cup t.dirs \cup t.specials
             /\ t.specials \cap (t.files \cup t.dirs) = {}
             /\ \A p \in t.files \cup t.dirs \cup t.specials : Len(p) = 1 \/ Front(p) \in t.dirs      \* it is a tree
             /\ \A p \in t.files : KeyPath(p, TRUE) \notin t.dirs

(***************************************************************************)
(* Operational layer                                                       *)
(***************************************************************************)
Handle(c, i, p) == [c |-> c, r |-> i, p |-> p]
NoLayer == <<>>                                                  \* an empty dict
Remove(f, key) == [x \in DOMAIN f \ {key} |-> f[x]]
Visible(L, key) == LET I == {i \in 1..Len(L) : key \in DOMAIN L[i]} IN
                   IF I = {} THEN 0 ELSE CHOOSE i \in I : \A j \in I : i <= j

\* ResourceMap.__setitem__ creates every missing map on the way; a fresh map has one empty layer; a handle
\* that holds the key of a map on the way is overwritten by the map: removed from every layer
WithMaps(st, ps) ==
    LET all == st.maps \cup UNION {Prefixes(p) : p \in ps}
        Gone(m) == {Last(q) : q \in {x \in all : x # <<>> /\ Front(x) = m}}        \* keys of m that are maps now
    IN [st EXCEPT !.maps = all,
                  !.layers = [m \in all |-> IF m \in st.maps
                                           THEN [j \in 1..Len(st.layers[m]) |->
                                                    [x \in DOMAIN st.layers[m][j] \ Gone(m) |-> st.layers[m][j][x]]]
                                           ELSE <<NoLayer>>]]
\* lines 167-170: a directory met by glob becomes a map unless resource_map.get(its key) finds something; parents
\* are met before what they contain
HeldByHandle(st, p) == Front(p) \in st.maps /\ Visible(st.layers[Front(p)], Last(p)) # 0
RECURSIVE SeeDirs(_, _)
SeeDirs(st, ds) ==
    IF ds = {} THEN st
    ELSE LET p == CHOOSE x \in ds : \A y \in ds : Len(x) <= Len(y)
         IN SeeDirs(IF HeldByHandle(st, p) THEN st ELSE WithMaps(st, {p}), ds \ {p})

\* lines 171-183 for one regular file: instantiate, optional new scope level, resource_map[key] = handle
SetHandle(st0, kp, h, rule, nest) ==
    LET m == Front(kp)
        key == Last(kp)
        st == WithMaps(st0, {m})
        L == st.layers[m]
        v == Visible(L, key)
        L1 == IF nest /\ v = 1 THEN <<NoLayer>> \o L            \* only if the visible handle sits in layer 0
              ELSE IF ~nest /\ v > 1 /\ NoNestDropsOlder THEN [L EXCEPT ![v] = Remove(@, key)]
              ELSE L
        L2 == [L1 EXCEPT ![1] = (key :> h) @@ @]
    IN [st EXCEPT !.layers[m] = L2,
                  !.made = @ \cup {[c |-> h.c, r |-> h.r, p |-> h.p, f |-> rule.fac, a |-> rule.args]}]

\* the extension filter as coded looks at every glob result, directories included
\* (glob also lists the special entries below rule.dir, whether or not their names pass the filter: they are neither
\* isdir nor isfile, lines 167-171 do nothing for them - they are in neither of the two sets below)
Passes(rule, p) == rule.exts = {} \/ Ext(Last(p)) \in rule.exts
SeenDirs(c, rule) == {p \in Dirs(c) : Under(rule.dir, p) /\ Passes(rule, p)}
SeenFiles(c, rule) == {p \in Files(c) : Under(rule.dir, p) /\ Passes(rule, p)}

RECURSIVE Orders(_, _)
Orders(F, trim) ==
    IF F = {} THEN {<<>>}
    ELSE LET f == CHOOSE x \in F : TRUE
             G == {g \in F : KeyPath(g, trim) = KeyPath(f, trim)}
         IN {a \o b : a \in SeqsOf(G), b \in Orders(F \ G, trim)}

RECURSIVE VisitFiles(_, _, _, _, _, _, _)
VisitFiles(st, ord, c, i, rule, nest, trim) ==
    IF ord = <<>> THEN st
    ELSE VisitFiles(SetHandle(st, KeyPath(Head(ord), trim), Handle(c, i, Head(ord)), rule, nest),
                    Tail(ord), c, i, rule, nest, trim)

RuleOutcomes(st, c, i, rule, nest, trim) ==
    CASE Kind(c, rule.dir) = "none" -> {st}                      \* silently skipped
      [] Kind(c, rule.dir) \in {"file", "special"} ->            \* exists, not a directory
             {[st EXCEPT !.exc = IF NotADirValueError THEN "ValueError" ELSE "NameError"]}
      [] OTHER -> {VisitFiles(SeeDirs(st, SeenDirs(c, rule)), o, c, i, rule, nest, trim)
                     : o \in Orders(SeenFiles(c, rule), trim)}

RECURSIVE Run(_, _, _)
Run(st, c, i) ==
    IF i > Len(RulesAt(c)) \/ st.exc # "ok" THEN {st}
    ELSE UNION {Run(s, c, i + 1) : s \in RuleOutcomes(st, c, i, RulesAt(c)[i], CallNest(c), CallTrim(c))}

(***************************************************************************)
(* What the property states, from the scenario alone                       *)
(***************************************************************************)
FailAt(c) == LET I == {i \in 1..Len(RulesAt(c)) : Kind(c, RulesAt(c)[i].dir) \in {"file", "special"}} IN
             IF I = {} THEN 0 ELSE CHOOSE i \in I : \A j \in I : i <= j
\* rules of call c that populate: existing directories before the first rejected rule
Done(c) == {i \in 1..Len(RulesAt(c)) : Kind(c, RulesAt(c)[i].dir) = "dir" /\ (FailAt(c) = 0 \/ i < FailAt(c))}
ExpectedExc(c) == IF c = 0 \/ FailAt(c) = 0 THEN "ok" ELSE "ValueError"
\* "each regular file under a rule's directory whose extension the rule accepts"
Accepted(c, rule) == {p \in Files(c) : Len(p) > Len(rule.dir) /\ Under(rule.dir, p)
                                       /\ (rule.exts = {} \/ Ext(Last(p)) \in rule.exts)}
\* "every directory on the way to such a file": the sub-maps call c must leave behind
ReqOf(c) == UNION {UNION {Prefixes(Front(p)) : p \in Accepted(c, RulesAt(c)[i])} : i \in Done(c)}
DomainOK == /\ \A t \in DOMAIN sc.trees : TreeOK(sc.trees[t])
            /\ \A c1 \in Calls, c2 \in Calls : c1 < c2 =>
                   /\ \A p \in Files(c2), t \in BOOLEAN : KeyPath(p, t) \notin Dirs(c1)
                   /\ \A p \in Files(c1), t \in BOOLEAN : KeyPath(p, t) \in Dirs(c2) => KeyPath(p, t) \in ReqOf(c2)

\* the handles that ever claimed key path K, oldest first, grouped by (call, rule): the order inside a
\* group is the file system's
RECURSIVE Gens(_, _, _)
Gens(c, i, K) ==
    IF c < Since(k) THEN <<>>                                    \* earlier calls filled other maps
    ELSE IF i = 0 THEN Gens(c - 1, Len(RulesAt(c - 1)), K)
    ELSE LET g == IF i \in Done(c)
                  THEN {Handle(c, i, p) : p \in {q \in Accepted(c, RulesAt(c)[i]) : KeyPath(q, CallTrim(c)) = K}}
                  ELSE {}
         IN IF g = {} THEN Gens(c, i - 1, K) ELSE Append(Gens(c, i - 1, K), [hs |-> g, nest |-> CallNest(c)])
\* "nest_on_conflict keeps the older handle retrievable beneath the new one and otherwise the new one
\* replaces it": the columns (visible handle first) a key may show after these generations
RECURSIVE ExpCols(_)
ExpCols(gs) ==
    IF gs = <<>> THEN {<<>>}
    ELSE LET g == Last(gs) IN
         IF g.nest THEN {Rev(s) \o o : s \in SeqsOf(g.hs), o \in ExpCols(Front(gs))}
         ELSE {<<h>> \o (IF o = <<>> THEN <<>> ELSE Tail(o)) : h \in g.hs, o \in ExpCols(Front(gs))}

\* sub-maps: every directory on the way to an accepted file must be one; directories under a populating
\* rule's directory (and those leading to it) may be one - the statement does not say whether empty or
\* filtered-out directories appear, so neither reading is demanded
Required(n) == {<<>>} \cup UNION {ReqOf(c) : c \in Since(n)..n}
Allowed(n) == {<<>>} \cup UNION {UNION {Prefixes(RulesAt(c)[i].dir) \cup {p \in Dirs(c) : Under(RulesAt(c)[i].dir, p)}
                                          : i \in Done(c)} : c \in Since(n)..n}
ExpectedMade(c) == IF c = 0 THEN {}
                   ELSE UNION {{[c |-> c, r |-> i, p |-> p, f |-> RulesAt(c)[i].fac, a |-> RulesAt(c)[i].args]
                                  : p \in Accepted(c, RulesAt(c)[i])} : i \in Done(c)}

(***************************************************************************)
(* Behaviours                                                              *)
(***************************************************************************)
Init == /\ (\E fam \in DOMAIN Scenarios : sc \in Scenarios[fam]) /\ DomainOK
        /\ k = 0 /\ maps = {<<>>} /\ layers = (<<>> :> <<NoLayer>>) /\ made = {} /\ exc = "ok"
        /\ reqMaps = {<<>>} /\ okMaps = {<<>>}

Call(c) == /\ c = k + 1 /\ c <= Len(sc.calls)
           /\ \E out \in Run(IF c \in sc.fresh
                             THEN [maps |-> {<<>>}, layers |-> (<<>> :> <<NoLayer>>), made |-> {}, exc |-> "ok"]
                             ELSE [maps |-> maps, layers |-> layers, made |-> {}, exc |-> "ok"], c, 1) :
                 maps' = out.maps /\ layers' = out.layers /\ made' = out.made /\ exc' = out.exc
           /\ k' = c /\ reqMaps' = Required(c) /\ okMaps' = Allowed(c)
           /\ UNCHANGED sc

Next == \E c \in 1..3 : Call(c)
Spec == Init /\ [][Next]_vars

(***************************************************************************)
(* Properties                                                              *)
(***************************************************************************)
RECURSIVE ColOf(_, _)
ColOf(L, key) == IF L = <<>> THEN <<>>
                 ELSE (IF key \in DOMAIN Head(L) THEN <<Head(L)[key]>> ELSE <<>>) \o ColOf(Tail(L), key)
Column(K) == IF K # <<>> /\ Front(K) \in maps THEN ColOf(layers[Front(K)], Last(K)) ELSE <<>>
PresentKeys == UNION {{m \o <<key>> : key \in UNION {DOMAIN layers[m][j] : j \in 1..Len(layers[m])}} : m \in maps}
AllKeys == PresentKeys \cup {KeyPath(p, t) : p \in AllFiles, t \in BOOLEAN}
IsSuffix(s, t) == Len(s) <= Len(t) /\ SubSeq(t, Len(t) - Len(s) + 1, Len(t)) = s

TypeOK == /\ k \in 0..Len(sc.calls) /\ <<>> \in maps /\ DOMAIN layers = maps
          /\ \A m \in maps : Len(layers[m]) >= 1 /\ Prefixes(m) \subseteq maps
          /\ exc \in {"ok", "ValueError", "NameError"}

\* EveryAcceptedFileReachable, KeyIsRelPath(TrimmedIfAsked), NestKeepsOlderBeneath, NoNestReplaces and the
\* handle half of NothingElseAdded in one statement per key (a key nobody may claim has the empty column)
\* ... and a key that is by now a directory on the way to an accepted file holds no handle in any layer: the
\* directory is a sub-map (DirsOnTheWayAreMaps), the handles of that name were overwritten by it
ColumnsAsStated == \A K \in AllKeys : IF K \in Required(k) THEN Column(K) = <<>>
                                      ELSE Column(K) \in ExpCols(Gens(k, Len(RulesAt(k)), K))
EveryAcceptedFileReachable ==       \* the latest claimant of every key is visible after a completed call
    (k > 0 /\ exc = "ok") =>
        \A i \in Done(k) : \A p \in Accepted(k, RulesAt(k)[i]) :
            LET col == Column(KeyPath(p, CallTrim(k))) IN
            /\ col # <<>> /\ col[1].c = k /\ col[1].r >= i
            /\ (CallNest(k) => \E j \in 1..Len(col) : col[j] = Handle(k, i, p))
DirsOnTheWayAreMaps == reqMaps = Required(k) /\ reqMaps \subseteq maps
NothingElseAdded == /\ okMaps = Allowed(k) /\ maps \subseteq okMaps
                    /\ \A K \in PresentKeys : K \notin maps /\ K \notin Required(k) /\ Gens(k, Len(RulesAt(k)), K) # <<>>
\* every stored handle sits under the key made of its file's path relative to the root, extension
\* dropped iff the call that made it trimmed
KeyIsRelPath == \A K \in PresentKeys : \A j \in 1..Len(Column(K)) :
                    K = KeyPath(Column(K)[j].p, CallTrim(Column(K)[j].c))
FactoryGotPathAndArgs == made = ExpectedMade(k)
NotADirectoryIsValueError == (k > 0 /\ FailAt(k) # 0) => exc = "ValueError"
MissingSkipped == (k > 0 /\ FailAt(k) = 0) => exc = "ok"       \* and ColumnsAsStated: the other rules still populate
ErrorsAsStated == exc = ExpectedExc(k)

\* the same two clauses about conflicts as action properties over one call (handle against handle: a key that
\* is a required sub-map after the call is the business of DirsOnTheWayAreMaps / ColumnsAsStated)
NestKeepsOlderBeneath ==
    [][(CallNest(k') /\ k' \notin sc.fresh) => \A K \in AllKeys' : K \in reqMaps' \/ IsSuffix(Column(K), Column(K)')]_vars
NoNestReplaces ==
    [][(~CallNest(k') /\ k' \notin sc.fresh) => \A K \in AllKeys' :
          LET o == Column(K)
              n == Column(K)' IN
          K \in reqMaps' \/ n = o \/ (n # <<>> /\ n[1].c = k' /\ Tail(n) = (IF o = <<>> THEN <<>> ELSE Tail(o)))]_vars
=============================================================================

------------------------------ MODULE OnUpdate ------------------------------
(***************************************************************************)
(* C19, OnUpdateProcessor: every frame's dt is relayed exactly once to     *)
(* every on_update listener of the world - in every frame, whatever        *)
(* happened in earlier frames (a listener that raised, e.g. Quit or        *)
(* SwitchWorld leaving the world, listeners added or removed in between).  *)
(***************************************************************************)
EXTENDS Naturals, Sequences, FiniteSets, TLC

CONSTANTS L,       \* listener ids
          Dts      \* dt values

VARIABLES present,   \* listeners currently attached to the world
          log,       \* deliveries of the last frame: set of <<listener, dt>> (each at most once by construction of a set,
                     \* the replay compares bags)
          ret, frames,
          moved      \* how many times the processor instance was installed in another world

vars == <<present, log, ret, frames, moved>>

Init == present = {} /\ log = {} /\ ret = "ok" /\ frames = 0 /\ moved = 0

Attach(l) == l \notin present /\ present' = present \cup {l} /\ log' = {} /\ ret' = "ok" /\ UNCHANGED <<frames, moved>>
Detach(l) == l \in present /\ present' = present \ {l} /\ log' = {} /\ ret' = "ok" /\ UNCHANGED <<frames, moved>>

\* world.process(dt) with the OnUpdateProcessor: dispatch on_update(dt)
Frame(dt) == /\ frames < 4 /\ frames' = frames + 1
             /\ log' = {<<l, dt>> : l \in present} /\ ret' = "ok" /\ UNCHANGED <<present, moved>>
\* listener f raises in its callback: the listeners visited before it (iteration order: a choice) got the dt
FrameFault(dt, f) == /\ frames < 4 /\ frames' = frames + 1 /\ f \in present
                     /\ \E before \in SUBSET (present \ {f}) : log' = {<<l, dt>> : l \in before \cup {f}}
                     /\ ret' = "raised" /\ UNCHANGED <<present, moved>>

\* the very same processor INSTANCE is installed in another world (add_processor there), to which the listeners move as
\* well: "its world" is the one it is installed in now - nothing remembered from earlier frames may point elsewhere
Reinstall == frames > 0 /\ frames < 4 /\ moved < 1 /\ moved' = moved + 1 /\ log' = {} /\ ret' = "ok" /\ UNCHANGED <<present, frames>>

Next == \/ (\E l \in L : Attach(l) \/ Detach(l))
        \/ Reinstall
        \/ (\E dt \in Dts : Frame(dt))
        \/ (\E dt \in Dts, f \in L : FrameFault(dt, f))
Spec == Init /\ [][Next]_vars

\* an unfaulted frame reaches every listener, whatever the history (in particular after a faulted frame)
EveryFrameRelays == [][(\E dt \in Dts : Frame(dt)) => {p[1] : p \in log'} = present]_vars
OnlyThisDt == \A p, q \in log : p[2] = q[2]
=============================================================================
